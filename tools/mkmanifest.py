#!/usr/bin/env python3
"""Regenerate /verif/MANIFEST.json from the table below."""
import json, os, subprocess
V = os.path.dirname(os.path.dirname(os.path.abspath(__file__)))

CHECKS = {
 "C01": ("exploration", "Differential monitor: millions of hostile-operand field operations per run (all prime/scalar/binary field types, raw redundant representations, solved operands on carry/fold/borrow boundaries, chains, representation-independence batches) executed by the real library in 3 (quick) / 6 (thorough) backend builds and compared with Python big-integer / GF(2)-polynomial arithmetic. Held = no disagreement on the executions observed; boundary classes observed are listed in the evidence.",
         "Python int arithmetic; moduli constants (cross-checked against the library's MINUS_ONE at start); the host CPU executing the same code paths as a user's build", "differential testing against an independent big-integer oracle under hostile operand generation", "4 C01"),
 "C05": ("exploration", "Decoder/encoder monitor: hostile byte strings (every length 0..L+2, values q-1/q/q+1/2^(8L)-1, unused bits, one-byte deviations from q, reducing decodes of 0..4 blocks+1) through every decode/encode entry point of every field type on 3/6 backend builds; oracle = int.from_bytes and comparison with the modulus; exact status words required.",
         "Python int arithmetic; moduli constants", "differential testing of decoders/encoders against int.from_bytes on boundary byte strings", "4 C05"),
 "C12": ("exploration", "Division/inversion/sqrt/Legendre/batch-inversion monitor with divisors engineered against the approximate binary GCD, structured residues/non-residues in redundant representations, batch sizes around the 200-element block with zeros at boundaries; binary-field inverse/sqrt/trace/half-trace/qsolve against their defining equations; 3/6 backend builds.",
         "Python pow()/Euler criterion; primality of the moduli (Miller-Rabin at start)", "differential testing against modular-arithmetic oracle with GCD-adversarial divisors", "4 C12"),
}

def main():
    head = subprocess.run(["git", "-C", "/repo", "log", "--format=%H %s"], capture_output=True, text=True).stdout.splitlines()
    hooks = [l.split()[0] for l in head if l.split(" ", 1)[1].startswith("verif hooks")]
    props = [json.loads(l)["id"] for l in open(os.path.join(V, "properties.jsonl"))]
    checks = []
    for pid in props:
        if pid not in CHECKS:
            continue
        cat, text, note, tech, ref = CHECKS[pid]
        checks.append({
            "property_id": pid,
            "quick_cmd": "./check %s --tier quick" % pid,
            "thorough_cmd": "./check %s --tier thorough" % pid,
            "evidence_file": "/verif/evidence/%s.json" % pid,
            "replay_cmd_template": "./check %s --replay {path}" % pid,
            "engine": "crrl-exec + python oracles",
            "level_claimed": {"category": cat, "text": text, "design_ref": "DESIGN.md section " + ref},
            "level_note": note,
            "technique": tech,
        })
    na = [{"property_id": p, "reason": "check not built yet (work in progress; planned, see DESIGN.md section 4)"} for p in props if p not in CHECKS]
    m = {
        "version": 1,
        "setup_cmd": "./setup.sh",
        "hooks": {
            "guard": "crrl_verif",
            "enable": "RUSTFLAGS=\"--cfg crrl_verif\" cargo build --release --offline --manifest-path /verif/harness/Cargo.toml (path dependency on /repo)",
            "baseline_off_cmd": "cd /repo && cargo test --workspace --no-fail-fast --offline",
            "source_commits": hooks,
            "add_only": True,
        },
        "engines": [{"name": "crrl-exec + python oracles", "path": "/verif/harness, /verif/oracle",
                     "serves_properties": [c["property_id"] for c in checks],
                     "kind_free_text": "thin Rust request executor linked against /repo (rebuilt on every check) driven by independent Python reference models; same request stream replayed under several backend builds and instruments (release, overflow-checked, ASan, valgrind memcheck incl. secret-taint mode, Miri)"}],
        "checks": checks,
        "not_applicable": na,
        "notes": "Verdicts are three-valued: exit 0 HELD, exit 1 VIOLATION (with replay file), exit 2 INCONCLUSIVE (build failure, watchdog, missing boundary class). known_findings.json lists genuine defects (fixed ones are recorded there and suppress nothing).",
    }
    with open(os.path.join(V, "MANIFEST.json"), "w") as f:
        json.dump(m, f, indent=1)
    print("wrote MANIFEST.json with %d checks, %d not_applicable" % (len(checks), len(na)))

main()
