#!/usr/bin/env python3
"""Regenerate /verif/MANIFEST.json from the table below."""
import json, os, subprocess
V = os.path.dirname(os.path.dirname(os.path.abspath(__file__)))

CHECKS = {
 "C01": ("exploration", "Differential monitor: millions of hostile-operand field operations per run (all prime/scalar/binary field types, raw redundant representations, solved operands on carry/fold/borrow boundaries, chains, representation-independence batches) executed by the real library in 5 (quick) / 6 (thorough) backend builds and compared with Python big-integer / GF(2)-polynomial arithmetic. Held = no disagreement on the executions observed; boundary classes observed are listed in the evidence.",
         "Python int arithmetic; moduli constants (cross-checked against the library's MINUS_ONE at start); the host CPU executing the same code paths as a user's build", "differential testing against an independent big-integer oracle under hostile operand generation", "4 C01"),

 "C02": ("exploration", "Dynamic taint tracking of the optimized machine code: every listed entry point (field/scalar ops incl. division, sqrt, Legendre, batch inversion, decoders, selects and lookups with secret control words; group ops, scalar multiplications, decoding of secret bytes; key generation, signing, ECDH, X25519/X448, hashes on secret data) runs under valgrind memcheck with the secret inputs marked undefined; every conditional jump or memory address depending on a secret bit is reported and must be either a documented source-level declassification (ct_declassified.json) or a violation. A built-in leaky self-test must be detected or the run is inconclusive. Quick: default and w32 builds; thorough: all six builds.",
         "memcheck's definedness propagation; only the listed entry points and the pinned compiler/flags are covered; instruction-latency channels are out of scope", "valgrind memcheck as secret-taint tracker (ctgrind technique) on the release binary", "4 C02"),
 "C03": ("exploration", "Chains (1..12 ops) of +,-,neg,double,xdouble,*u64 on the nine groups with exceptional operands (neutral, P+P, P+(-P), low/mixed-order, re-represented points, results re-used) executed by the library; every intermediate encoding and equals/isneutral mask compared with the affine textbook law of independent reference models.",
         "reference group laws (validated on the repository's third-party KATs)", "differential testing against independent affine group-law models", "4 C03"),
 "C04": ("exploration", "Complete black-box enumeration of every (digit, window, sign) scalar through mulgen (each built-in table entry selected once) plus hostile scalars x hostile points through P*k / k*P / mulgen compared with reference double-and-add.",
         "reference scalar multiplication", "differential testing; exhaustive enumeration of table-entry selecting scalars", "4 C04"),
 "C06": ("exploration", "Hostile byte strings per encoding format judged accept/reject by an independent reference decoder; encode() of several representatives; pairwise equals <=> identical bytes; byte-to-group maps against reference implementations.",
         "reference decoders and maps (validated on the repository's valid/invalid KAT lists)", "differential testing of decoders/encoders/maps against reference codecs", "4 C06"),
 "C10": ("exploration", "Fast variable-time routines (u*P+v*G, 128-bit and u0+u1*mu multiplier variants, verification helpers) on hostile scalars/multipliers/points compared with the same expression through the library's constant-time operations and with the independent reference; panics and step-budget overruns are violations.",
         "reference group laws", "differential testing fast path vs constant-time path vs reference", "4 C10"),
 "C11": ("exploration", "split_vartime on every type that has it and the endomorphism splits, on rationals a/b over the whole bit-length grid, convergents and extremes; contract checked arithmetically (documented truncation slack, (0,1) for zero, magnitude bounds); termination decided by a hooked loop-step counter (budget 8*bitlen+64, hard cap -> panic event), not by wall clock.",
         "documented contracts; endomorphism eigenvalues from the reference models", "contract monitor with hooked step counter on unbalanced-lattice inputs", "4 C11"),
 "C14": ("exploration", "X25519/X448 and base-point variants on hostile u (small-order, non-canonical, top bit, >= p, twist) and scalars (clamp boundary patterns) against the RFC 7748 ladder on Python integers; two-party agreement.",
         "reference ladder (RFC 7748 vectors)", "differential testing against RFC 7748 reference", "4 C14"),
 "C17": ("exploration", "Call-history monitor: random walks over update/finalize*/reset/clone/flip/extract on live contexts of every hash function (lengths around every block/rate boundary, all BLAKE2s out_len x key_len pairs) checked against hashlib on the bytes since the last reset.",
         "CPython hashlib", "history checking against an executable model (hashlib)", "4 C17"),
 "C20": ("exploration", "set_cond/select/cswap/set_condneg with both control words on every field and point type in all representations; equals/iszero/isneutral on equal values in different representations and on neighbours; all lookup primitives for in-range and out-of-range indices on hostile tables.",
         "only the two documented control words are exercised", "differential testing with representation-diverse operands", "4 C20"),

 "C07": ("exploration", "Ed25519/Ed448 verification on honest signatures (byte-equal to RFC 8032), constructed tuples with torsion components in A and R (accepted only by the cofactored rule), low-order keys/R, and invalid neighbours (S+L, S near L, non-canonical encodings, x=0 with sign bit, lengths, bit flips) for pure/ctx/ph variants, judged by an independent strict cofactored RFC 8032 predicate.",
         "ref_ed RFC 8032 implementation (RFC vectors + repository KATs); contexts > 255 bytes are outside the documented domain", "differential testing against a reference predicate on constructed adversarial tuples", "4 C07"),
 "C08": ("exploration", "ECDSA P-256/secp256k1: deterministic signatures byte-equal to the documented nonce derivation (RFC 6979 + extra input; SHA-512 scheme for secp256k1) for hash lengths 0..70; verification on signatures manufactured with chosen s by the forged-hash construction, the infinity outcome, out-of-range r/s, all length/padding forms, judged by the textbook predicate.",
         "ref_weier (RFC 6979 A.2.5 vectors, repository KATs); signatures with x(R) in [n,p) are constructed backwards from R with a derived public key", "differential testing against a reference predicate and reference signer", "4 C08"),
 "C09": ("exploration", "jq255e/jq255s/GLS254 Schnorr: deterministic and seeded signatures byte-equal to the reference, randomized ones accepted by the reference verifier, tampered signatures judged by it; ECDH both directions, failure inputs give status 0 and the documented substitute key that depends on the local secret.",
         "ref_do / ref_gls (all repository KATs)", "differential testing against reference signer/verifier/ECDH", "4 C09"),
 "C13": ("exploration", "Truncated signatures: completeness (exact reconstruction for rm 8..32 and all fills of the ignored bits, with ground extreme hidden parts for rm <= 13), soundness (anything returned verifies under the reference verifier and is a completion of the supplied prefix; corrupted prefixes, the other ECDSA root, true s just below n), prepare_truncate on boundary/short forms, and complete recomputation of the 16385-entry UX_COMP table via the hook.",
         "reference verifiers; rm outside 8..32 not generated; hidden part 2^(rm-4) of an Ed25519 S (needs S >= 2^252, probability 2^-125) not reachable", "completeness/soundness monitor against reference verifiers; exhaustive table check", "4 C13"),

 "C15": ("exploration", "Full FROST protocol runs for the five ciphersuites (all signer subsets for small n, random (t,n) up to (6,9), shuffled arrival, duplicates, splits up to n = 65535) with every wire object passed through the library's codecs; every intermediate value compared with an independent RFC 9591 reference computed from the same RNG tapes; interpolation of any t shares; aggregates verified by the library and by the RFC 8032 reference verifier; one-field corruptions judged by the reference.",
         "ref_frost (RFC 9591 vectors, repository KATs); documented-domain limits", "protocol-history monitor against an executable reference model with tape-replayed randomness", "4 C15"),
 "C16": ("exploration", "Whole-life history of LMS keys for the four parameter sets: every sign call's output must equal the reference signature for the next expected leaf (indices strictly increasing, once each), a crash injected inside ots_sign (RNG that panics) must burn the reserved index, exhausted keys return None forever and stay usable for verification; alterations of every signature field judged by the reference verifier.",
         "reference LMS (RFC 8554 vector), hashlib", "history monitor with fault injection (panicking RNG) against an executable model", "4 C16"),
 "C18": ("exploration", "One seeded stream made of slices of all other workloads executed by the six native builds; per-request comparison against the default build and against the reference oracles; documented degrees of freedom compared through their contract.",
         "host CPU features; arm64-only code paths not executed", "cross-build differential execution with per-response comparison", "4 C18"),
 "C19": ("exploration", "Untrusted-input requests of the other workloads plus byte-level inputs (lengths 0..4096, structure-aware mutations of valid keys, signatures, FROST wire objects, LMS signatures) for every decode/verify/ECDH/map/hash entry point under overflow-checked+debug-assertion builds (default, w32, m51), AddressSanitizer, valgrind memcheck and (thorough) Miri; violations are panics, sanitizer reports, process death, step-budget overruns, malformed status words.",
         "documented-domain violations are not generated; Miri with aliasing model off", "sanitizers (ASan, memcheck, Miri) + overflow-checked builds + panic/status-word monitor under hostile byte-level inputs", "4 C19"),
 "C05": ("exploration", "Decoder/encoder monitor: hostile byte strings (every length 0..L+2, values q-1/q/q+1/2^(8L)-1, unused bits, one-byte deviations from q, reducing decodes of 0..4 blocks+1) through every decode/encode entry point of every field type on 3/6 backend builds; oracle = int.from_bytes and comparison with the modulus; exact status words required.",
         "Python int arithmetic; moduli constants", "differential testing of decoders/encoders against int.from_bytes on boundary byte strings", "4 C05"),
 "C12": ("exploration", "Division/inversion/sqrt/Legendre/batch-inversion monitor with divisors engineered against the approximate binary GCD, structured residues/non-residues in redundant representations, batch sizes around the 200-element block with zeros at boundaries; binary-field inverse/sqrt/trace/half-trace/qsolve against their defining equations; 3/6 backend builds.",
         "Python pow()/Euler criterion; primality of the moduli (Miller-Rabin at start)", "differential testing against modular-arithmetic oracle with GCD-adversarial divisors", "4 C12"),
}

def main():
    head = subprocess.run(["git", "-C", "/repo", "log", "--format=%H %s"], capture_output=True, text=True).stdout.splitlines()
    hooks = [l.split()[0] for l in head if l.split(" ", 1)[1].startswith("verif hooks")]
    props = [json.loads(l)["id"] for l in open(os.path.join(V, "properties.jsonl"))]
    checks = []
    for pid in props:
        if pid not in CHECKS:
            continue
        cat, text, note, tech, ref = CHECKS[pid]
        checks.append({
            "property_id": pid,
            "quick_cmd": "./check %s --tier quick" % pid,
            "thorough_cmd": "./check %s --tier thorough" % pid,
            "evidence_file": "/verif/evidence/%s.json" % pid,
            "replay_cmd_template": "./check %s --replay {path}" % pid,
            "engine": "crrl-exec + python oracles",
            "level_claimed": {"category": cat, "text": text, "design_ref": "DESIGN.md section " + ref},
            "level_note": note,
            "technique": tech,
        })
    na = [{"property_id": p, "reason": "check not built yet (work in progress; planned, see DESIGN.md section 4)"} for p in props if p not in CHECKS]
    m = {
        "version": 1,
        "setup_cmd": "./setup.sh",
        "hooks": {
            "guard": "crrl_verif",
            "enable": "RUSTFLAGS=\"--cfg crrl_verif\" cargo build --release --offline --manifest-path /verif/harness/Cargo.toml (path dependency on /repo)",
            "baseline_off_cmd": "cd /repo && cargo test --workspace --no-fail-fast --offline",
            "source_commits": hooks,
            "add_only": True,
        },
        "engines": [{"name": "crrl-exec + python oracles", "path": "/verif/harness, /verif/oracle",
                     "serves_properties": [c["property_id"] for c in checks],
                     "kind_free_text": "thin Rust request executor linked against /repo (rebuilt on every check) driven by independent Python reference models; same request stream replayed under several backend builds and instruments (release, overflow-checked, ASan, valgrind memcheck incl. secret-taint mode, Miri)"}],
        "checks": checks,
        "not_applicable": na,
        "notes": "Verdicts are three-valued: exit 0 HELD, exit 1 VIOLATION (with replay file), exit 2 INCONCLUSIVE (build failure, watchdog, missing boundary class). known_findings.json lists genuine defects (fixed ones are recorded there and suppress nothing).",
    }
    with open(os.path.join(V, "MANIFEST.json"), "w") as f:
        json.dump(m, f, indent=1)
    print("wrote MANIFEST.json with %d checks, %d not_applicable" % (len(checks), len(na)))

main()
