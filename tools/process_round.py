#!/usr/bin/env python3
"""process_round.py <out_dir> [...]: confirm a delivered seeded change (patch.diff, demo_test.rs, meta.json) under the next free
id and run the labelled property's quick check against it in scratch mode. Prints one line per change."""
import glob, json, os, re, subprocess, sys
V = os.path.dirname(os.path.dirname(os.path.abspath(__file__)))


def next_id():
    n = 0
    for d in glob.glob(os.path.join(V, "seeded", "m*")):
        m = re.match(r"m(\d+)", os.path.basename(d))
        if m:
            n = max(n, int(m.group(1)))
    return n + 1


for src in sys.argv[1:]:
    if not os.path.exists(os.path.join(src, "patch.diff")) or not os.path.exists(os.path.join(src, "meta.json")):
        print(src, "INCOMPLETE"); continue
    meta = json.load(open(os.path.join(src, "meta.json")))
    prop = meta.get("property", "C00")
    slug = re.sub(r"[^a-z0-9]+", "-", "-".join(src.strip("/").split("/")[-2:]).replace("out_", "").lower())
    mid = "m%d-%s-%s" % (next_id(), prop, slug)
    r = subprocess.run([sys.executable, os.path.join(V, "tools", "run_seeded.py"), "confirm", src, mid], capture_output=True, text=True)
    ok = '"confirmed": true' in r.stdout
    if not ok:
        print(mid, "NOT CONFIRMED", r.stdout[-400:].replace("\n", " "), r.stderr[-300:].replace("\n", " ")); continue
    r = subprocess.run([sys.executable, os.path.join(V, "tools", "run_seeded.py"), "scheck", mid], capture_output=True, text=True)
    last = [l for l in r.stdout.split("\n") if l.startswith(mid)]
    if last and "MISSED" in last[-1]:
        # second chance: the cross-backend check, and the labelled check restricted to the configuration the demo needs
        dc = meta.get("demo_cmd", "")
        cfg = "w32" if "w32_backend" in dc else "m51" if "gf255_m51" in dc else "zz32" if "zz32" in dc else "clmul" if "gfb254_x86clmul" in dc else "avx2" if "avx2" in dc else None
        extra = ["C18"] + (["%s@default+%s" % (prop, cfg)] if cfg else [])
        r2 = subprocess.run([sys.executable, os.path.join(V, "tools", "run_seeded.py"), "scheck", mid] + extra, capture_output=True, text=True)
        last += [l for l in r2.stdout.split("\n") if l.startswith(mid)]
        print(" ; ".join(last), "|", meta.get("summary", "")[:150].replace("\n", " "), flush=True)
        continue
    print(last[-1] if last else (mid + " ??? " + r.stdout[-300:] + r.stderr[-300:]), "|", meta.get("summary", "")[:150].replace("\n", " "), flush=True)
