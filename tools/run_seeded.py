#!/usr/bin/env python3
"""Confirm a seeded change and run the checks against it.

usage: run_seeded.py confirm <src_dir> <id>       # verify the change in a scratch worktree and store it under /verif/seeded/<id>
       run_seeded.py check <id> [checks...] [--tier quick]   # apply to /repo, run checks, undo
       run_seeded.py all [--tier quick]           # run the designated checks for every stored change
"""
import json
import os
import shutil
import subprocess
import sys
import time

V = os.path.dirname(os.path.dirname(os.path.abspath(__file__)))
SEEDED = os.path.join(V, "seeded")


def sh(cmd, cwd=None, env=None, timeout=3600):
    p = subprocess.run(cmd, shell=True, cwd=cwd, env=env, stdout=subprocess.PIPE, stderr=subprocess.STDOUT, text=True, timeout=timeout)
    return p.returncode, p.stdout


def confirm(src, mid):
    patch = os.path.join(src, "patch.diff")
    demo = os.path.join(src, "demo_test.rs")
    meta = json.load(open(os.path.join(src, "meta.json")))
    wt = "/tmp/ms_" + mid
    sh("git -C /repo worktree remove --force %s" % wt)
    rc, out = sh("git -C /repo worktree add --detach %s HEAD" % wt)
    assert rc == 0, out
    env = dict(os.environ, CARGO_TARGET_DIR=wt + "/target", CARGO_NET_OFFLINE="true")
    res = {}
    try:
        os.makedirs(wt + "/tests", exist_ok=True)
        shutil.copy(demo, wt + "/tests/demo.rs")
        raw = meta.get("demo_cmd", "cargo test --offline --test demo")
        import re as _re
        feats = _re.search(r"--features[= ]+(\S+)", raw)
        rflags = _re.search(r"RUSTFLAGS=(\"[^\"]*\"|'[^']*'|\S+)", raw)
        cmd = "cargo test --offline"
        if "--release" in raw:
            cmd += " --release"
        if feats:
            cmd += " --features " + feats.group(1).strip("\"'")
        cmd += " --test demo"
        if "--test-threads=1" in raw:
            cmd += " -- --test-threads=1"
        if rflags:
            cmd = "RUSTFLAGS=" + rflags.group(1) + " " + cmd
        res["demo_cmd"] = cmd
        rc0, out0 = sh(cmd, cwd=wt, env=env)
        res["demo_without_patch"] = "pass" if rc0 == 0 else "FAIL"
        rc, out = sh("git apply %s" % patch, cwd=wt)
        res["patch_applies"] = rc == 0
        if rc != 0:
            res["apply_output"] = out[-500:]
            return res
        rc1, out1 = sh(cmd, cwd=wt, env=env)
        res["demo_with_patch"] = "pass" if rc1 == 0 else "FAIL"
        res["demo_tail"] = out1[-600:]
        os.remove(wt + "/tests/demo.rs")
        rc2, out2 = sh("cargo test --offline --lib 2>&1 | tail -5", cwd=wt, env=env)
        res["suite_with_patch"] = "pass" if ("120 passed" in out2 and "0 failed" in out2) else "FAIL: " + out2[-300:]
    finally:
        sh("git -C /repo worktree remove --force %s" % wt)
        shutil.rmtree(wt, ignore_errors=True)
    ok = res.get("demo_without_patch") == "pass" and res.get("demo_with_patch") == "FAIL" and res.get("suite_with_patch") == "pass"
    res["confirmed"] = ok
    d = os.path.join(SEEDED, mid)
    os.makedirs(d, exist_ok=True)
    shutil.copy(patch, os.path.join(d, "patch.diff"))
    shutil.copy(demo, os.path.join(d, "demo_test.rs"))
    meta["confirmation"] = res
    meta["id"] = mid
    json.dump(meta, open(os.path.join(d, "meta.json"), "w"), indent=1)
    return res


def check(mid, checks, tier="quick", seed=None):
    d = os.path.join(SEEDED, mid)
    meta = json.load(open(os.path.join(d, "meta.json")))
    if not checks:
        checks = meta.get("checks_to_run") or [meta["property"]]
    rc, out = sh("git -C /repo status --porcelain --untracked-files=no")
    assert out.strip() == "", "/repo has local modifications: " + out
    rc, out = sh("git -C /repo apply %s" % os.path.join(d, "patch.diff"))
    assert rc == 0, out
    results = {}
    try:
        for c in checks:
            t0 = time.time()
            env = dict(os.environ)
            if seed is not None:
                env["VERIF_SEED"] = str(seed)
            rc, out = sh("./check %s --tier %s" % (c, tier), cwd=V, env=env, timeout=7200)
            viol = [l for l in out.split("\n") if l.startswith("VIOLATION") or "violation summary" in l or l.startswith("INCONCLUSIVE")]
            first = [l for l in out.split("\n") if l.strip().startswith("violation config")][:2]
            results[c] = dict(exit=rc, detected=(rc == 1), wall_s=round(time.time() - t0, 1), lines=(viol[:3] + first)[:5])
            print(mid, c, "exit", rc, "DETECTED" if rc == 1 else ("inconclusive" if rc == 2 else "MISSED"), flush=True)
    finally:
        sh("git -C /repo checkout -- .")
    meta.setdefault("runs", {})
    meta["runs"][tier] = results
    meta["detected_by"] = sorted(set(meta.get("detected_by", [])) | {c for c, r in results.items() if r["detected"]})
    json.dump(meta, open(os.path.join(d, "meta.json"), "w"), indent=1)
    # evidence files were rewritten by the mutated run: restore the committed ones
    sh("git checkout -- evidence", cwd=V)
    return results


SC_V = "/tmp/sc_verif"
SC_R = "/tmp/sc_repo"


def scratch_check(mid, checks, tier="quick"):
    """Like check(), but against a scratch worktree of /repo and a scratch copy of /verif (own target dir), so that /repo's
    working tree is never touched (usable while a long run is reading /repo)."""
    d = os.path.join(SEEDED, mid)
    meta = json.load(open(os.path.join(d, "meta.json")))
    if not checks:
        checks = meta.get("checks_to_run") or [meta["property"]]
    if not os.path.isdir(SC_R):
        rc, out = sh("git -C /repo worktree add --detach %s HEAD" % SC_R)
        assert rc == 0, out
    rc, head = sh("git -C /repo rev-parse HEAD")
    rc, out = sh("git -C %s checkout -q --detach %s && git -C %s checkout -- ." % (SC_R, head.strip(), SC_R))
    assert rc == 0, out
    os.makedirs(SC_V, exist_ok=True)
    rc, out = sh("rsync -a --delete --exclude target --exclude .git --exclude replays --exclude evidence --exclude seeded %s/ %s/" % (V, SC_V))
    assert rc == 0, out
    os.makedirs(SC_V + "/evidence", exist_ok=True); os.makedirs(SC_V + "/replays", exist_ok=True)
    sh("grep -rl '/repo' %s/oracle %s/harness/Cargo.toml %s/tools | xargs sed -i 's#/repo#%s#g'" % (SC_V, SC_V, SC_V, SC_R))
    rc, out = sh("git -C %s apply %s" % (SC_R, os.path.join(d, "patch.diff")))
    assert rc == 0, out
    results = {}
    try:
        for c in checks:
            t0 = time.time()
            # "C09@default+zz32" restricts the build configurations
            cc, _, cf = c.partition("@")
            extra = (" --configs " + cf.replace("+", ",")) if cf else ""
            rc, out = sh("./check %s --tier %s%s" % (cc, tier, extra), cwd=SC_V, timeout=7200)
            viol = [l for l in out.split("\n") if l.startswith("VIOLATION") or "violation summary" in l or l.startswith("INCONCLUSIVE")]
            first = [l for l in out.split("\n") if l.strip().startswith("violation config")][:2]
            results[c] = dict(exit=rc, detected=(rc == 1), wall_s=round(time.time() - t0, 1), lines=(viol[:3] + first)[:5], scratch=True)
            print(mid, c, "exit", rc, "DETECTED" if rc == 1 else ("inconclusive" if rc == 2 else "MISSED"), flush=True)
            if rc == 2:
                print(out[-1500:])
    finally:
        sh("git -C %s checkout -- ." % SC_R)
    meta.setdefault("runs", {})
    meta["runs"].setdefault(tier, {}).update(results)
    meta["detected_by"] = sorted(set(meta.get("detected_by", [])) | {c for c, r in results.items() if r["detected"]})
    json.dump(meta, open(os.path.join(d, "meta.json"), "w"), indent=1)
    return results


def main():
    a = sys.argv[1:]
    tier = "quick"
    if "--tier" in a:
        i = a.index("--tier"); tier = a[i + 1]; a = a[:i] + a[i + 2:]
    if a[0] == "confirm":
        print(json.dumps(confirm(a[1], a[2]), indent=1))
    elif a[0] == "check":
        check(a[1], a[2:], tier)
    elif a[0] == "scheck":
        scratch_check(a[1], a[2:], tier)
    elif a[0] == "all":
        for mid in sorted(os.listdir(SEEDED)):
            if os.path.exists(os.path.join(SEEDED, mid, "patch.diff")):
                check(mid, [], tier)


main()
