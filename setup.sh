#!/bin/sh
# Build every executor configuration from /repo's working tree (offline).
set -e
cd "$(dirname "$0")"
export CARGO_NET_OFFLINE=true
python3 - <<'PY'
import sys
sys.path.insert(0, "oracle")
from common import *
exes = build_many(ALL_CONFIGS)
for c, e in exes.items():
    out, _ = run_exec(e, ["cfg"])
    print(c, out[0])
# instruments used by C19 (overflow-checked builds, AddressSanitizer)
for c in ("default", "w32", "m51"):
    build(c, profile="checked", tag=c + "-checked")
try:
    build("default", toolchain="nightly", extra_flags="-Zsanitizer=address -Cforce-frame-pointers=yes", target="x86_64-unknown-linux-gnu", tag="default-asan")
except Inconclusive as e:
    print("note: ASan build unavailable:", e)
PY
