#!/bin/sh
# Build every executor configuration from /repo's working tree (offline).
set -e
cd "$(dirname "$0")"
export CARGO_NET_OFFLINE=true
python3 - <<'PY'
import sys
sys.path.insert(0, "oracle")
from common import *
exes = build_many(ALL_CONFIGS)
for c, e in exes.items():
    out, _ = run_exec(e, ["cfg"])
    print(c, out[0])
PY
