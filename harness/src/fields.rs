// Dispatch over the finite-field types of crrl. No oracle logic here: every
// op is a direct call into the library, the result is printed through the
// library's own canonical encoder.

use crate::util::*;

pub const NREGS: usize = 32;

// A destination register may be given as a first argument ">k".
fn dest<'a, 'b>(a: &'b [&'a str]) -> (Option<usize>, &'b [&'a str]) {
    if let Some(s) = a.first() {
        if let Some(t) = s.strip_prefix('>') {
            if let Ok(k) = t.parse::<usize>() {
                return (Some(k % NREGS), &a[1..]);
            }
        }
    }
    (None, a)
}

macro_rules! prime_field {
    ($fname:ident, $T:ty, $nl:expr,
     le: |$l:ident| $mk_le:expr, cle: $mk_cle:expr, be: $mk_be:expr, cbe: $mk_cbe:expr,
     enc: |$e:ident| $enc:expr,
     extra: |$x:ident, $a:ident, $rg:ident, $put:ident| { $($op:literal => $body:expr),* $(,)? }) => {

        pub fn $fname(op: &str, a: &[&str], rg: &mut Vec<$T>) -> R {
            type T = $T;
            if rg.is_empty() {
                rg.resize(NREGS, <T>::ZERO);
            }
            let (dst, a) = dest(a);
            let enc = |$e: &T| -> String { ohex(&($enc)[..]) };
            // element parser
            fn pe(s: &str, rg: &Vec<$T>) -> Result<$T, String> {
                type T = $T;
                if let Some(k) = s.strip_prefix('$') {
                    let k = k.parse::<usize>().map_err(|e| e.to_string())?;
                    return Ok(rg[k % NREGS]);
                }
                match s {
                    "0" => return Ok(<T>::ZERO),
                    "1" => return Ok(<T>::ONE),
                    "m1" => return Ok(<T>::MINUS_ONE),
                    _ => {}
                }
                let (sec, s) = match s.strip_prefix('!') {
                    Some(t) => (true, t),
                    None => (false, s),
                };
                if s.is_empty() {
                    return Err("empty element".to_string());
                }
                let kind = s.as_bytes()[0];
                let mut b = unhex_raw(&s[1..])?;
                if sec {
                    taint(&mut b);
                }
                match kind {
                    b'r' => Ok(<T>::decode_reduce(&b)),
                    b'w' | b'c' | b'W' | b'C' => {
                        let lv = limbs(&b, $nl)?;
                        let $l: &[u64] = &lv;
                        Ok(match kind {
                            b'w' => $mk_le,
                            b'c' => $mk_cle,
                            b'W' => $mk_be,
                            _ => $mk_cbe,
                        })
                    }
                    _ => Err(format!("bad element kind {}", kind as char)),
                }
            }
            let mut $put = |v: T, rg: &mut Vec<T>| -> R {
                if let Some(k) = dst {
                    rg[k] = v;
                }
                Ok(enc(&v))
            };
            let el = |i: usize, rg: &Vec<T>| -> Result<T, String> { pe(arg(a, i)?, rg) };
            match op {
                "id" => { let x = el(0, rg)?; $put(x, rg) }
                "add" => { let x = el(0, rg)?; let y = el(1, rg)?; $put(x + y, rg) }
                "sub" => { let x = el(0, rg)?; let y = el(1, rg)?; $put(x - y, rg) }
                "mul" => { let x = el(0, rg)?; let y = el(1, rg)?; $put(x * y, rg) }
                "div" => { let x = el(0, rg)?; let y = el(1, rg)?; $put(x / y, rg) }
                // all operator forms (value/reference operands, compound assignment by value/reference)
                "add_vr" => { let x = el(0, rg)?; let y = el(1, rg)?; $put(x + &y, rg) }
                "add_rv" => { let x = el(0, rg)?; let y = el(1, rg)?; $put(&x + y, rg) }
                "add_rr" => { let x = el(0, rg)?; let y = el(1, rg)?; $put(&x + &y, rg) }
                "sub_vr" => { let x = el(0, rg)?; let y = el(1, rg)?; $put(x - &y, rg) }
                "sub_rv" => { let x = el(0, rg)?; let y = el(1, rg)?; $put(&x - y, rg) }
                "sub_rr" => { let x = el(0, rg)?; let y = el(1, rg)?; $put(&x - &y, rg) }
                "mul_vr" => { let x = el(0, rg)?; let y = el(1, rg)?; $put(x * &y, rg) }
                "mul_rv" => { let x = el(0, rg)?; let y = el(1, rg)?; $put(&x * y, rg) }
                "mul_rr" => { let x = el(0, rg)?; let y = el(1, rg)?; $put(&x * &y, rg) }
                "div_vr" => { let x = el(0, rg)?; let y = el(1, rg)?; $put(x / &y, rg) }
                "div_rv" => { let x = el(0, rg)?; let y = el(1, rg)?; $put(&x / y, rg) }
                "div_rr" => { let x = el(0, rg)?; let y = el(1, rg)?; $put(&x / &y, rg) }
                "addav" => { let mut x = el(0, rg)?; let y = el(1, rg)?; x += y; $put(x, rg) }
                "subav" => { let mut x = el(0, rg)?; let y = el(1, rg)?; x -= y; $put(x, rg) }
                "mulav" => { let mut x = el(0, rg)?; let y = el(1, rg)?; x *= y; $put(x, rg) }
                "divav" => { let mut x = el(0, rg)?; let y = el(1, rg)?; x /= y; $put(x, rg) }
                "negr" => { let x = el(0, rg)?; $put(-&x, rg) }
                "adda" => { let mut x = el(0, rg)?; let y = el(1, rg)?; x += &y; $put(x, rg) }
                "suba" => { let mut x = el(0, rg)?; let y = el(1, rg)?; x -= &y; $put(x, rg) }
                "mula" => { let mut x = el(0, rg)?; let y = el(1, rg)?; x *= &y; $put(x, rg) }
                "diva" => { let mut x = el(0, rg)?; let y = el(1, rg)?; x /= &y; $put(x, rg) }
                "neg" => { let x = el(0, rg)?; $put(-x, rg) }
                "square" => { let x = el(0, rg)?; $put(x.square(), rg) }
                "xsquare" => { let x = el(0, rg)?; let n = u32a(arg(a, 1)?)?; $put(x.xsquare(n), rg) }
                "half" => { let x = el(0, rg)?; $put(x.half(), rg) }
                "mul2" => { let x = el(0, rg)?; $put(x.mul2(), rg) }
                "mul4" => { let x = el(0, rg)?; $put(x.mul4(), rg) }
                "mul8" => { let x = el(0, rg)?; $put(x.mul8(), rg) }
                "mul16" => { let x = el(0, rg)?; $put(x.mul16(), rg) }
                "mul32" => { let x = el(0, rg)?; $put(x.mul32(), rg) }
                "from_i32" => { let n = i128a(arg(a, 0)?)?; $put(<T>::from_i32(n as i32), rg) }
                "from_u32" => { let n = i128a(arg(a, 0)?)?; $put(<T>::from_u32(n as u32), rg) }
                "from_i64" => { let n = i128a(arg(a, 0)?)?; $put(<T>::from_i64(n as i64), rg) }
                "from_u64" => { let n = i128a(arg(a, 0)?)?; $put(<T>::from_u64(n as u64), rg) }
                "from_i128" => { let n = i128a(arg(a, 0)?)?; $put(<T>::from_i128(n), rg) }
                "from_u128" => { let n = u128a(arg(a, 0)?)?; $put(<T>::from_u128(n), rg) }
                "equals" => { let x = el(0, rg)?; let y = el(1, rg)?; Ok(ou32(x.equals(y))) }
                "iszero" => { let x = el(0, rg)?; Ok(ou32(x.iszero())) }
                "legendre" => { let x = el(0, rg)?; Ok(oi32(x.legendre())) }
                "sqrt" => {
                    let x = el(0, rg)?;
                    let (y, r) = x.sqrt();
                    if let Some(k) = dst { rg[k] = y; }
                    Ok(format!("{} {}", enc(&y), ou32(r)))
                }
                "batch_invert" => {
                    let mut v: Vec<T> = Vec::with_capacity(a.len());
                    for i in 0..a.len() {
                        v.push(el(i, rg)?);
                    }
                    <T>::batch_invert(&mut v);
                    let mut s = String::new();
                    for (i, x) in v.iter().enumerate() {
                        if i > 0 { s.push(' '); }
                        s.push_str(&enc(x));
                    }
                    if v.is_empty() { s.push('-'); }
                    Ok(s)
                }
                // batch inversion of n copies-with-offset: a[0] = count, a[1] = base
                // element, a[2] = step element, a[3..] = indices forced to zero.
                "batch_invert_seq" => {
                    let n = usizea(arg(a, 0)?)?;
                    let base = el(1, rg)?;
                    let step = el(2, rg)?;
                    let mut v: Vec<T> = Vec::with_capacity(n);
                    let mut cur = base;
                    for _ in 0..n {
                        v.push(cur);
                        cur += &step;
                    }
                    for i in 3..a.len() {
                        let j = usizea(a[i])?;
                        if j < n { v[j] = <T>::ZERO; }
                    }
                    let orig = v.clone();
                    <T>::batch_invert(&mut v);
                    // Output: digest-free but compact: for every element the
                    // product x * inv(x) status: we print the encodings of
                    // inv(x) for all elements.
                    let mut s = String::new();
                    for (i, x) in v.iter().enumerate() {
                        if i > 0 { s.push(' '); }
                        s.push_str(&enc(x));
                    }
                    let _ = orig;
                    if v.is_empty() { s.push('-'); }
                    Ok(s)
                }
                "enc" => { let x = el(0, rg)?; Ok(enc(&x)) }
                "decode_ct" => {
                    let b = bytes(arg(a, 0)?)?;
                    let (y, r) = <T>::decode_ct(&b);
                    if let Some(k) = dst { rg[k] = y; }
                    Ok(format!("{} {}", enc(&y), ou32(r)))
                }
                "set_decode_ct" => {
                    // in-place form on a non-zero previous value
                    let b = bytes(arg(a, 0)?)?;
                    let mut y = <T>::MINUS_ONE;
                    let r = y.set_decode_ct(&b);
                    if let Some(k) = dst { rg[k] = y; }
                    Ok(format!("{} {}", enc(&y), ou32(r)))
                }
                "decode" => {
                    let b = bytes(arg(a, 0)?)?;
                    match <T>::decode(&b) {
                        Some(y) => {
                            if let Some(k) = dst { rg[k] = y; }
                            Ok(format!("S {}", enc(&y)))
                        }
                        None => Ok("N".to_string()),
                    }
                }
                "decode_reduce" => {
                    let b = bytes(arg(a, 0)?)?;
                    $put(<T>::decode_reduce(&b), rg)
                }
                "set_decode_reduce" => {
                    let b = bytes(arg(a, 0)?)?;
                    let mut y = <T>::MINUS_ONE;
                    y.set_decode_reduce(&b);
                    $put(y, rg)
                }
                "set_cond" => {
                    let mut x = el(0, rg)?; let y = el(1, rg)?; let c = u32a(arg(a, 2)?)?;
                    x.set_cond(&y, c);
                    $put(x, rg)
                }
                "select" => {
                    let x = el(0, rg)?; let y = el(1, rg)?; let c = u32a(arg(a, 2)?)?;
                    $put(<T>::select(&x, &y, c), rg)
                }
                "cswap" => {
                    let mut x = el(0, rg)?; let mut y = el(1, rg)?; let c = u32a(arg(a, 2)?)?;
                    <T>::cswap(&mut x, &mut y, c);
                    Ok(format!("{} {}", enc(&x), enc(&y)))
                }
                $( $op => {
                    let $a = a;
                    let $rg = rg;
                    #[allow(unused_variables)]
                    let $x = |i: usize, rg: &Vec<T>| -> Result<T, String> { pe(arg($a, i)?, rg) };
                    $body
                } )*
                _ => Err(format!("unknown field op {}", op)),
            }
        }
    };
}

// ---- shared extra arms, as macros so that they can be reused --------------

macro_rules! lim4 { ($T:ty, $m:ident, $l:ident) => { <$T>::$m($l[0], $l[1], $l[2], $l[3]) } }
macro_rules! lim4be { ($T:ty, $m:ident, $l:ident) => { <$T>::$m($l[3], $l[2], $l[1], $l[0]) } }

use crrl::field::{GF25519, GF255e, GF255s, GFp256, GFsecp256k1, GF448, ModInt256};
use crrl::backend::GF255;

macro_rules! gf255_field {
    ($fname:ident, $T:ty) => {
        prime_field!($fname, $T, 4,
            le: |l| lim4!($T, from_w64le, l), cle: lim4!($T, w64le, l),
            be: lim4be!($T, from_w64be, l), cbe: lim4be!($T, w64be, l),
            enc: |e| e.encode(),
            extra: |x, a, rg, put| {
                "mul_small" => { let v = x(0, rg)?; let n = u32a(arg(a, 1)?)?; put(v.mul_small(n), rg) },
                "enc32" => { let v = x(0, rg)?; Ok(ohex(&v.encode32())) },
                "decode32" => {
                    let b = bytes(arg(a, 0)?)?;
                    let (y, r) = <$T>::decode32(&b);
                    Ok(format!("{} {}", ohex(&y.encode()), ou32(r)))
                },
                "sqrt_ext" => {
                    let v = x(0, rg)?;
                    let (y, r) = v.sqrt_ext();
                    Ok(format!("{} {}", ohex(&y.encode()), ou32(r)))
                },
                "split" => {
                    let v = x(0, rg)?;
                    let (c0, c1) = v.split_vartime();
                    Ok(format!("{} {}", c0, c1))
                },
                "lookup16_x3" => {
                    let j = u32a(arg(a, 0)?)?;
                    let mut tab = [<$T>::ZERO; 48];
                    for i in 0..48 { tab[i] = x(1 + i, rg)?; }
                    let d = <$T>::lookup16_x3(&tab, j);
                    Ok(format!("{} {} {}", ohex(&d[0].encode()), ohex(&d[1].encode()), ohex(&d[2].encode())))
                },
                "lookup16_x4" => {
                    let j = u32a(arg(a, 0)?)?;
                    let mut tab = [<$T>::ZERO; 64];
                    for i in 0..64 { tab[i] = x(1 + i, rg)?; }
                    let d = <$T>::lookup16_x4(&tab, j);
                    Ok(format!("{} {} {} {}", ohex(&d[0].encode()), ohex(&d[1].encode()),
                        ohex(&d[2].encode()), ohex(&d[3].encode())))
                },
                // "noreduce" family: the not-reduced value may only be used as
                // a multiplication operand (or squared); we multiply by c.
                "nr_add_mul" => { let u = x(0, rg)?; let v = x(1, rg)?; let c = x(2, rg)?; put(u.add_noreduce(&v) * c, rg) },
                "nr_sub_mul" => { let u = x(0, rg)?; let v = x(1, rg)?; let c = x(2, rg)?; put(u.sub_noreduce(&v) * c, rg) },
                "nr_mul2_mul" => { let u = x(0, rg)?; let c = x(1, rg)?; put(u.mul2_noreduce() * c, rg) },
                "nr_add_sq" => { let u = x(0, rg)?; let v = x(1, rg)?; put(u.add_noreduce(&v).square(), rg) },
                "nr_sub_sq" => { let u = x(0, rg)?; let v = x(1, rg)?; put(u.sub_noreduce(&v).square(), rg) },
                "nr_addsub_mul" => {
                    // (a+b)*(a-b) with both operands not reduced
                    let u = x(0, rg)?; let v = x(1, rg)?;
                    put(u.add_noreduce(&v) * u.sub_noreduce(&v), rg)
                },
                "nr_m2a_m2s" => {
                    let u = x(0, rg)?; let v = x(1, rg)?; let c = x(2, rg)?;
                    let (e, f) = u.mul2add_mul2sub_noreduce(&v);
                    Ok(format!("{} {}", ohex(&(e * c).encode()), ohex(&(f * c).encode())))
                },
                "nr_add_addsub" => {
                    let u = x(0, rg)?; let v = x(1, rg)?; let w = x(2, rg)?; let c = x(3, rg)?;
                    let (e, f) = u.add_addsub_noreduce(&v, &w);
                    Ok(format!("{} {}", ohex(&(e * c).encode()), ohex(&(f * c).encode())))
                },
                "nr_sub_subadd2" => {
                    let u = x(0, rg)?; let v = x(1, rg)?; let w = x(2, rg)?; let c = x(3, rg)?;
                    let (e, f) = u.sub_subadd2_noreduce(&v, &w);
                    Ok(format!("{} {}", ohex(&(e * c).encode()), ohex(&(f * c).encode())))
                },
                // only the 51-bit-limb backend has this one
                "nr_add8_sub8" => {
                    #[cfg(feature = "m51")]
                    {
                        let u = x(0, rg)?; let v = x(1, rg)?; let c = x(2, rg)?;
                        let (e, f) = u.add8_sub8_noreduce(&v);
                        Ok(format!("{} {}", ohex(&(e * c).encode()), ohex(&(f * c).encode())))
                    }
                    #[cfg(not(feature = "m51"))]
                    { Err("nr_add8_sub8 exists in the m51 backend only".into()) }
                },
            });
    };
}

gf255_field!(f_gf25519, GF25519);
gf255_field!(f_gf255e, GF255e);
gf255_field!(f_gf255s, GF255s);
// Two further instances of the generic type, at the extremes of the MQ range
// (2^255-32767+... : exactness of ring operations does not need primality,
// but these two are prime: 2^255 - 31 and 2^255 - 32703? -- we only use ring
// operations on them).
gf255_field!(f_gf255_mq31, GF255<31>);
gf255_field!(f_gf255_mq32765, GF255<32765>);
gf255_field!(f_gf255_mq4111, GF255<4111>);
gf255_field!(f_gf255_mq7549, GF255<7549>);

macro_rules! modint_field {
    ($fname:ident, $T:ty) => {
        prime_field!($fname, $T, 4,
            le: |l| lim4!($T, from_w64le, l), cle: lim4!($T, w64le, l),
            be: lim4be!($T, from_w64be, l), cbe: lim4be!($T, w64be, l),
            enc: |e| e.encode32(),
            extra: |x, a, rg, put| {
                "mul3" => { let v = x(0, rg)?; put(v.mul3(), rg) },
                "enc32" => { let v = x(0, rg)?; Ok(ohex(&v.encode32())) },
                "enc_len" => { Ok(format!("{}", <$T>::ENC_LEN)) },
                "decode32" => {
                    let b = bytes(arg(a, 0)?)?;
                    let (y, r) = <$T>::decode32(&b);
                    Ok(format!("{} {}", ohex(&y.encode32()), ou32(r)))
                },
                "split" => {
                    let v = x(0, rg)?;
                    let (c0, c1) = v.split_vartime();
                    Ok(format!("{} {}", c0, c1))
                },
            });
    };
}

// Scalar fields of the curves.
modint_field!(f_sc25519, crrl::ed25519::Scalar);
modint_field!(f_scp256, crrl::p256::Scalar);
modint_field!(f_scsecp, crrl::secp256k1::Scalar);
modint_field!(f_scjq255e, crrl::jq255e::Scalar);
modint_field!(f_scjq255s, crrl::jq255s::Scalar);
modint_field!(f_scgls254, crrl::gls254::Scalar);
// Corner moduli named by the repository's own tests (the three modulus-size
// cases of the Montgomery multiplication), plus two general instances.
modint_field!(f_mi_25519, ModInt256<0xFFFFFFFFFFFFFFED, 0xFFFFFFFFFFFFFFFF, 0xFFFFFFFFFFFFFFFF, 0x7FFFFFFFFFFFFFFF>);
modint_field!(f_mi_spec1, ModInt256<0xFFFFFFFFFFFFFF27, 0xFFFFFFFFFFFFFFFE, 0x0000000000000000, 0xFFFFFFFFFFFFFFFF>);
modint_field!(f_mi_spec2, ModInt256<0xFFFFFFFFFFFFFF43, 0xFFFFFFFFFFFFFFFF, 0xFFFFFFFFFFFFFFFF, 0xFFFFFFFFFFFFFFFF>);
modint_field!(f_mi_spec3, ModInt256<0x20CD9255FD615923, 0xACAFC103CD968A25, 0xFFFFFFFFFFFFFFFE, 0xFFFFFFFFFFFFFFFF>);
// moduli with long runs of ones in the low limbs (carry chains of the compile-time constants and of +1 / halving)
modint_field!(f_mi_spec4, ModInt256<0xFFFFFFFFFFFFFFFF, 0xFFFFFFFFFFFFFFFF, 0xFFFFFFFFFFFFFFFF, 0xFFFFFFFFFFFFFFFB>);
modint_field!(f_mi_spec5, ModInt256<0xFFFFFFFFFFFFFFFF, 0xFFFFFFFFFFFFFFFF, 0xFFFFFFFFFFFFFF70, 0xFFFFFFFFFFFFFFFF>);
modint_field!(f_mi_spec6, ModInt256<0xFFFFFFFFFFFFFFFF, 0xFFFFFFFFFFFFFFFF, 0xFFFFFFFFFFFFFFFF, 0x8000000000000021>);
// BLS12-381 scalar field: low 32-bit limb equal to 1, high two-adicity (q = 1 mod 2^32)
modint_field!(f_mi_bls, ModInt256<0xFFFFFFFF00000001, 0x53BDA402FFFE5BFE, 0x3339D80809A1D805, 0x73EDA753299D7D48>);
// 193-bit prime 2^192 + 133 (smallest supported size class).
modint_field!(f_mi_193, ModInt256<0x0000000000000085, 0x0000000000000000, 0x0000000000000000, 0x0000000000000001>);
// 194-bit primes (top limb 2): sparse 2^193 + 2^141 + c, dense, and one just below 3*2^192
// (n mod 2^192 tiny / generic / huge: the sign and borrow decisions of the three-word helpers of split_vartime)
modint_field!(f_mi_194s, ModInt256<0x09C1BBF90735C9D7, 0x0000000000000000, 0x0000000000002000, 0x0000000000000002>);
modint_field!(f_mi_194d, ModInt256<0x01434BE3EBF87F35, 0xEA0CF04256BE1D97, 0xD77A0CB424B63937, 0x0000000000000002>);
modint_field!(f_mi_194h, ModInt256<0xFFFFFFE479B4DF7D, 0xFFFFFFEFFFFFFFFF, 0xFFFFFFFFFFFFFFFF, 0x0000000000000002>);

// GFp256 is an alias of ModInt256 in both backends (gfp256.rs is not compiled).
modint_field!(f_gfp256, GFp256);

#[cfg(not(feature = "w32"))]
prime_field!(f_gfsecp256k1, GFsecp256k1, 4,
    le: |l| lim4!(GFsecp256k1, from_w64le, l), cle: lim4!(GFsecp256k1, w64le, l),
    be: lim4be!(GFsecp256k1, from_w64be, l), cbe: lim4be!(GFsecp256k1, w64be, l),
    enc: |e| e.encode(),
    extra: |x, a, rg, put| {
        "mul3" => { let v = x(0, rg)?; put(v.mul3(), rg) },
        "mul21" => { let v = x(0, rg)?; put(v.mul21(), rg) },
        "set_mul21" => { let mut v = x(0, rg)?; v.set_mul21(); put(v, rg) },
        "mul_u16" => { let v = x(0, rg)?; let n = u32a(arg(a, 1)?)?; put(v.mul_u16(n as u16), rg) },
        "enc32" => { let v = x(0, rg)?; Ok(ohex(&v.encode32())) },
        "decode32" => {
            let b = bytes(arg(a, 0)?)?;
            let (y, r) = GFsecp256k1::decode32(&b);
            Ok(format!("{} {}", ohex(&y.encode()), ou32(r)))
        },
    });

// On the 32-bit backend GFsecp256k1 is a ModInt256 alias (plus mul21).
#[cfg(feature = "w32")]
prime_field!(f_gfsecp256k1, GFsecp256k1, 4,
    le: |l| lim4!(GFsecp256k1, from_w64le, l), cle: lim4!(GFsecp256k1, w64le, l),
    be: lim4be!(GFsecp256k1, from_w64be, l), cbe: lim4be!(GFsecp256k1, w64be, l),
    enc: |e| e.encode(),
    extra: |x, a, rg, put| {
        "mul3" => { let v = x(0, rg)?; put(v.mul3(), rg) },
        "mul21" => { let v = x(0, rg)?; put(v.mul21(), rg) },
        "set_mul21" => { let mut v = x(0, rg)?; v.set_mul21(); put(v, rg) },
        "enc32" => { let v = x(0, rg)?; Ok(ohex(&v.encode32())) },
        "decode32" => {
            let b = bytes(arg(a, 0)?)?;
            let (y, r) = GFsecp256k1::decode32(&b);
            Ok(format!("{} {}", ohex(&y.encode32()), ou32(r)))
        },
    });

fn arr7(l: &[u64]) -> [u64; 7] {
    let mut r = [0u64; 7];
    r.copy_from_slice(l);
    r
}
fn arr7be(l: &[u64]) -> [u64; 7] {
    let mut r = [0u64; 7];
    for i in 0..7 { r[i] = l[6 - i]; }
    r
}

#[cfg(not(feature = "w32"))]
prime_field!(f_gf448, GF448, 7,
    le: |l| GF448::from_w64le(arr7(l)), cle: GF448::w64le(arr7(l)),
    be: GF448::from_w64be(arr7be(l)), cbe: GF448::w64be(arr7be(l)),
    enc: |e| e.encode(),
    extra: |x, a, rg, put| {
        "mul_small" => { let v = x(0, rg)?; let n = u32a(arg(a, 1)?)?; put(v.mul_small(n), rg) },
        "sqrt_ext" => {
            let v = x(0, rg)?;
            let (y, r) = v.sqrt_ext();
            Ok(format!("{} {}", ohex(&y.encode()), ou32(r)))
        },
    });

// gfgen-defined types: the Ed448 scalar field, and harness-defined moduli
// covering each lagrange*_vartime instance (4..8 limbs) and the short (<4
// limbs) path.
macro_rules! gfgen_field {
    ($fname:ident, $T:ty, $n:expr) => {
        prime_field!($fname, $T, $n,
            le: |l| { let mut r = [0u64; $n]; r.copy_from_slice(l); <$T>::from_w64le(r) },
            cle: { let mut r = [0u64; $n]; r.copy_from_slice(l); <$T>::w64le(r) },
            be: { let mut r = [0u64; $n]; for i in 0..$n { r[i] = l[$n - 1 - i]; } <$T>::from_w64be(r) },
            cbe: { let mut r = [0u64; $n]; for i in 0..$n { r[i] = l[$n - 1 - i]; } <$T>::w64be(r) },
            enc: |e| e.encode(),
            extra: |x, a, rg, put| {
                "mul3" => { let v = x(0, rg)?; put(v.mul3(), rg) },
                "mul_small" => { let v = x(0, rg)?; let n = u32a(arg(a, 1)?)?; put(v.mul_small(n), rg) },
                "invert" => { let v = x(0, rg)?; put(v.invert(), rg) },
                "sqrt_ext" => {
                    let v = x(0, rg)?;
                    let (y, r) = v.sqrt_ext();
                    Ok(format!("{} {}", ohex(&y.encode()), ou32(r)))
                },
                "split" => {
                    let v = x(0, rg)?;
                    let (c0, c1) = v.split_vartime();
                    Ok(format!("{} {}", ohex(&c0), ohex(&c1)))
                },
            });
    };
}

// On the 32-bit backend GF448 is a gfgen-defined type.
#[cfg(feature = "w32")]
gfgen_field!(f_gf448, GF448, 7);
gfgen_field!(f_sc448, crrl::ed448::Scalar, 7);

// (the w32 backend's define_gfgen! refers to crate-private helpers and cannot
// be instantiated from another crate, so these exist only on the w64 backend)
#[cfg(not(feature = "w32"))]
pub mod gg {
    use crrl::backend::define_gfgen;

    // 2^127 - 1 (2 limbs: short-modulus path of split_vartime)
    pub struct P127;
    impl P127 { pub const MODULUS: [u64; 2] = [0xFFFFFFFFFFFFFFFF, 0x7FFFFFFFFFFFFFFF]; }
    define_gfgen!(G127, P127, g127mod, false);

    // 2^192 - 2^64 - 1 (3 limbs)
    pub struct P192;
    impl P192 { pub const MODULUS: [u64; 3] = [0xFFFFFFFFFFFFFFFF, 0xFFFFFFFFFFFFFFFE, 0xFFFFFFFFFFFFFFFF]; }
    define_gfgen!(G192, P192, g192mod, true);

    // order of P-256 (4 limbs, full 256 bits)
    pub struct P256N;
    impl P256N { pub const MODULUS: [u64; 4] = [0xF3B9CAC2FC632551, 0xBCE6FAADA7179E84, 0xFFFFFFFFFFFFFFFF, 0xFFFFFFFF00000000]; }
    define_gfgen!(G256, P256N, g256mod, false);

    // 2^255 - 19 (4 limbs)
    pub struct P25519;
    impl P25519 { pub const MODULUS: [u64; 4] = [0xFFFFFFFFFFFFFFED, 0xFFFFFFFFFFFFFFFF, 0xFFFFFFFFFFFFFFFF, 0x7FFFFFFFFFFFFFFF]; }
    define_gfgen!(G25519, P25519, g25519mod, true);

    // 2^320 - 197 (5 limbs, prime)
    pub struct P320;
    impl P320 { pub const MODULUS: [u64; 5] = [0xFFFFFFFFFFFFFF3B, 0xFFFFFFFFFFFFFFFF, 0xFFFFFFFFFFFFFFFF, 0xFFFFFFFFFFFFFFFF, 0xFFFFFFFFFFFFFFFF]; }
    define_gfgen!(G320, P320, g320mod, false);

    // P-384 field prime (6 limbs)
    pub struct P384;
    impl P384 { pub const MODULUS: [u64; 6] = [0x00000000FFFFFFFF, 0xFFFFFFFF00000000, 0xFFFFFFFFFFFFFFFE, 0xFFFFFFFFFFFFFFFF, 0xFFFFFFFFFFFFFFFF, 0xFFFFFFFFFFFFFFFF]; }
    define_gfgen!(G384, P384, g384mod, true);

    // 2^512 - 569 (8 limbs, prime)
    pub struct P512;
    impl P512 { pub const MODULUS: [u64; 8] = [0xFFFFFFFFFFFFFDC7, 0xFFFFFFFFFFFFFFFF, 0xFFFFFFFFFFFFFFFF, 0xFFFFFFFFFFFFFFFF, 0xFFFFFFFFFFFFFFFF, 0xFFFFFFFFFFFFFFFF, 0xFFFFFFFFFFFFFFFF, 0xFFFFFFFFFFFFFFFF]; }
    define_gfgen!(G512, P512, g512mod, false);
}

#[cfg(not(feature = "w32"))]
gfgen_field!(f_g127, gg::G127, 2);
#[cfg(not(feature = "w32"))]
gfgen_field!(f_g192, gg::G192, 3);
#[cfg(not(feature = "w32"))]
gfgen_field!(f_g256, gg::G256, 4);
#[cfg(not(feature = "w32"))]
gfgen_field!(f_g25519, gg::G25519, 4);
#[cfg(not(feature = "w32"))]
gfgen_field!(f_g320, gg::G320, 5);
#[cfg(not(feature = "w32"))]
gfgen_field!(f_g384, gg::G384, 6);
#[cfg(not(feature = "w32"))]
gfgen_field!(f_g512, gg::G512, 8);

// ------------------------------------------------------------------------
// Binary fields.

use crrl::field::{GFb127, GFb254};

fn pb127(s: &str, rg: &Vec<GFb127>) -> Result<GFb127, String> {
    if let Some(k) = s.strip_prefix('$') {
        let k = k.parse::<usize>().map_err(|e| e.to_string())?;
        return Ok(rg[k % NREGS]);
    }
    match s { "0" => return Ok(GFb127::ZERO), "1" => return Ok(GFb127::ONE), _ => {} }
    let (sec, s) = match s.strip_prefix('!') { Some(t) => (true, t), None => (false, s) };
    if s.is_empty() { return Err("empty element".into()); }
    let kind = s.as_bytes()[0];
    let mut b = unhex_raw(&s[1..])?;
    if sec { taint(&mut b); }
    match kind {
        b'w' | b'c' => { let l = limbs(&b, 2)?; Ok(GFb127::w64le(l[0], l[1])) }
        b'd' => {
            let (y, r) = GFb127::decode_ct(&b);
            let mut rr = r; untaint_val(&mut rr);
            if rr == 0 { return Err("element does not decode".into()); }
            Ok(y)
        }
        _ => Err("bad element kind".into()),
    }
}

fn pb254(s: &str, rg: &Vec<GFb254>) -> Result<GFb254, String> {
    if let Some(k) = s.strip_prefix('$') {
        let k = k.parse::<usize>().map_err(|e| e.to_string())?;
        return Ok(rg[k % NREGS]);
    }
    match s { "0" => return Ok(GFb254::ZERO), "1" => return Ok(GFb254::ONE), "u" => return Ok(GFb254::U), _ => {} }
    let (sec, s) = match s.strip_prefix('!') { Some(t) => (true, t), None => (false, s) };
    if s.is_empty() { return Err("empty element".into()); }
    let kind = s.as_bytes()[0];
    let mut b = unhex_raw(&s[1..])?;
    if sec { taint(&mut b); }
    match kind {
        b'w' | b'c' => { let l = limbs(&b, 4)?; Ok(GFb254::w64le(l[0], l[1], l[2], l[3])) }
        b'b' => { let l = limbs(&b, 4)?; Ok(GFb254::from_b127(GFb127::w64le(l[0], l[1]), GFb127::w64le(l[2], l[3]))) }
        b'B' => { let l = limbs(&b, 4)?; Ok(GFb254::b127(GFb127::w64le(l[0], l[1]), GFb127::w64le(l[2], l[3]))) }
        b'd' => {
            let (y, r) = GFb254::decode_ct(&b);
            let mut rr = r; untaint_val(&mut rr);
            if rr == 0 { return Err("element does not decode".into()); }
            Ok(y)
        }
        _ => Err("bad element kind".into()),
    }
}

macro_rules! bin_common {
    ($T:ty, $pe:ident, $op:ident, $a:ident, $rg:ident, $dst:ident, { $($xop:literal => $body:expr),* $(,)? }) => {{
        type T = $T;
        let enc = |e: &T| -> String { ohex(&e.encode()[..]) };
        let el = |i: usize, rg: &Vec<T>| -> Result<T, String> { $pe(arg($a, i)?, rg) };
        let put = |v: T, rg: &mut Vec<T>| -> R {
            if let Some(k) = $dst { rg[k] = v; }
            Ok(enc(&v))
        };
        match $op {
            "id" => { let x = el(0, $rg)?; put(x, $rg) }
            "add" => { let x = el(0, $rg)?; let y = el(1, $rg)?; put(x + y, $rg) }
            "sub" => { let x = el(0, $rg)?; let y = el(1, $rg)?; put(x - y, $rg) }
            "mul" => { let x = el(0, $rg)?; let y = el(1, $rg)?; put(x * y, $rg) }
            "div" => { let x = el(0, $rg)?; let y = el(1, $rg)?; put(x / y, $rg) }
            "add_vr" => { let x = el(0, $rg)?; let y = el(1, $rg)?; put(x + &y, $rg) }
            "add_rv" => { let x = el(0, $rg)?; let y = el(1, $rg)?; put(&x + y, $rg) }
            "add_rr" => { let x = el(0, $rg)?; let y = el(1, $rg)?; put(&x + &y, $rg) }
            "sub_vr" => { let x = el(0, $rg)?; let y = el(1, $rg)?; put(x - &y, $rg) }
            "sub_rv" => { let x = el(0, $rg)?; let y = el(1, $rg)?; put(&x - y, $rg) }
            "sub_rr" => { let x = el(0, $rg)?; let y = el(1, $rg)?; put(&x - &y, $rg) }
            "mul_vr" => { let x = el(0, $rg)?; let y = el(1, $rg)?; put(x * &y, $rg) }
            "mul_rv" => { let x = el(0, $rg)?; let y = el(1, $rg)?; put(&x * y, $rg) }
            "mul_rr" => { let x = el(0, $rg)?; let y = el(1, $rg)?; put(&x * &y, $rg) }
            "div_vr" => { let x = el(0, $rg)?; let y = el(1, $rg)?; put(x / &y, $rg) }
            "div_rv" => { let x = el(0, $rg)?; let y = el(1, $rg)?; put(&x / y, $rg) }
            "div_rr" => { let x = el(0, $rg)?; let y = el(1, $rg)?; put(&x / &y, $rg) }
            "addav" => { let mut x = el(0, $rg)?; let y = el(1, $rg)?; x += y; put(x, $rg) }
            "subav" => { let mut x = el(0, $rg)?; let y = el(1, $rg)?; x -= y; put(x, $rg) }
            "mulav" => { let mut x = el(0, $rg)?; let y = el(1, $rg)?; x *= y; put(x, $rg) }
            "divav" => { let mut x = el(0, $rg)?; let y = el(1, $rg)?; x /= y; put(x, $rg) }
            "negr" => { let x = el(0, $rg)?; put(-&x, $rg) }
            "adda" => { let mut x = el(0, $rg)?; let y = el(1, $rg)?; x += &y; put(x, $rg) }
            "suba" => { let mut x = el(0, $rg)?; let y = el(1, $rg)?; x -= &y; put(x, $rg) }
            "mula" => { let mut x = el(0, $rg)?; let y = el(1, $rg)?; x *= &y; put(x, $rg) }
            "diva" => { let mut x = el(0, $rg)?; let y = el(1, $rg)?; x /= &y; put(x, $rg) }
            "neg" => { let x = el(0, $rg)?; put(-x, $rg) }
            "square" => { let x = el(0, $rg)?; put(x.square(), $rg) }
            "xsquare" => { let x = el(0, $rg)?; let n = u32a(arg($a, 1)?)?; put(x.xsquare(n), $rg) }
            "invert" => { let x = el(0, $rg)?; put(x.invert(), $rg) }
            "sqrt" => { let x = el(0, $rg)?; put(x.sqrt(), $rg) }
            "trace" => { let x = el(0, $rg)?; Ok(ou32(x.trace())) }
            "mul_sb" => { let x = el(0, $rg)?; put(x.mul_sb(), $rg) }
            "mul_b" => { let x = el(0, $rg)?; put(x.mul_b(), $rg) }
            "div_z" => { let x = el(0, $rg)?; put(x.div_z(), $rg) }
            "div_z2" => { let x = el(0, $rg)?; put(x.div_z2(), $rg) }
            "equals" => { let x = el(0, $rg)?; let y = el(1, $rg)?; Ok(ou32(x.equals(y))) }
            "iszero" => { let x = el(0, $rg)?; Ok(ou32(x.iszero())) }
            "enc" => { let x = el(0, $rg)?; Ok(enc(&x)) }
            "decode_ct" => {
                let b = bytes(arg($a, 0)?)?;
                let (y, r) = <T>::decode_ct(&b);
                if let Some(k) = $dst { $rg[k] = y; }
                Ok(format!("{} {}", enc(&y), ou32(r)))
            }
            "set_decode_ct" => {
                let b = bytes(arg($a, 0)?)?;
                let mut y = <T>::ONE;
                let r = y.set_decode_ct(&b);
                if let Some(k) = $dst { $rg[k] = y; }
                Ok(format!("{} {}", enc(&y), ou32(r)))
            }
            "decode" => {
                let b = bytes(arg($a, 0)?)?;
                match <T>::decode(&b) {
                    Some(y) => { if let Some(k) = $dst { $rg[k] = y; } Ok(format!("S {}", enc(&y))) }
                    None => Ok("N".to_string()),
                }
            }
            "set_cond" => {
                let mut x = el(0, $rg)?; let y = el(1, $rg)?; let c = u32a(arg($a, 2)?)?;
                x.set_cond(&y, c);
                put(x, $rg)
            }
            "select" => {
                let x = el(0, $rg)?; let y = el(1, $rg)?; let c = u32a(arg($a, 2)?)?;
                put(<T>::select(&x, &y, c), $rg)
            }
            "cswap" => {
                let mut x = el(0, $rg)?; let mut y = el(1, $rg)?; let c = u32a(arg($a, 2)?)?;
                <T>::cswap(&mut x, &mut y, c);
                Ok(format!("{} {}", enc(&x), enc(&y)))
            }
            $( $xop => $body, )*
            _ => Err(format!("unknown binary field op {}", $op)),
        }
    }};
}

pub fn f_gfb127(op: &str, a: &[&str], rg: &mut Vec<GFb127>) -> R {
    if rg.is_empty() { rg.resize(NREGS, GFb127::ZERO); }
    let (dst, a) = dest(a);
    bin_common!(GFb127, pb127, op, a, rg, dst, {
        "halftrace" => { let x = pb127(arg(a, 0)?, rg)?; let y = x.halftrace(); if let Some(k) = dst { rg[k] = y; } Ok(ohex(&y.encode())) },
        "get_bit" => { let x = pb127(arg(a, 0)?, rg)?; let k = usizea(arg(a, 1)?)?; Ok(ou32(x.get_bit(k))) },
        "set_bit" => {
            let mut x = pb127(arg(a, 0)?, rg)?; let k = usizea(arg(a, 1)?)?; let v = u32a(arg(a, 2)?)?;
            x.set_bit(k, v);
            if let Some(d) = dst { rg[d] = x; }
            Ok(ohex(&x.encode()))
        },
        "xor_bit" => {
            let mut x = pb127(arg(a, 0)?, rg)?; let k = usizea(arg(a, 1)?)?; let v = u32a(arg(a, 2)?)?;
            x.xor_bit(k, v);
            if let Some(d) = dst { rg[d] = x; }
            Ok(ohex(&x.encode()))
        },
    })
}

pub fn f_gfb254(op: &str, a: &[&str], rg: &mut Vec<GFb254>) -> R {
    if rg.is_empty() { rg.resize(NREGS, GFb254::ZERO); }
    let (dst, a) = dest(a);
    let e254 = |x: &GFb254| ohex(&x.encode());
    bin_common!(GFb254, pb254, op, a, rg, dst, {
        "qsolve" => { let x = pb254(arg(a, 0)?, rg)?; let y = x.qsolve(); if let Some(k) = dst { rg[k] = y; } Ok(e254(&y)) },
        "mul_u" => { let x = pb254(arg(a, 0)?, rg)?; let y = x.mul_u(); if let Some(k) = dst { rg[k] = y; } Ok(e254(&y)) },
        "mul_u1" => { let x = pb254(arg(a, 0)?, rg)?; let y = x.mul_u1(); if let Some(k) = dst { rg[k] = y; } Ok(e254(&y)) },
        "mul_selfphi" => { let x = pb254(arg(a, 0)?, rg)?; Ok(ohex(&x.mul_selfphi().encode())) },
        "mul_b127" => {
            let x = pb254(arg(a, 0)?, rg)?;
            let yb = bytes(arg(a, 1)?)?;
            let l = limbs(&yb, 2)?;
            let y = x.mul_b127(&GFb127::w64le(l[0], l[1]));
            if let Some(k) = dst { rg[k] = y; }
            Ok(e254(&y))
        },
        "to_components" => {
            let x = pb254(arg(a, 0)?, rg)?;
            let (x0, x1) = x.to_components();
            Ok(format!("{} {}", ohex(&x0.encode()), ohex(&x1.encode())))
        },
        "lookup16_x2" => {
            let j = u32a(arg(a, 0)?)?;
            let mut tab = [GFb254::ZERO; 32];
            for i in 0..32 { tab[i] = pb254(arg(a, 1 + i)?, rg)?; }
            let d = GFb254::lookup16_x2(&tab, j);
            Ok(format!("{} {}", e254(&d[0]), e254(&d[1])))
        },
        "lookup8_x2" => {
            let j = u32a(arg(a, 0)?)?;
            let mut tab = [GFb254::ZERO; 16];
            for i in 0..16 { tab[i] = pb254(arg(a, 1 + i)?, rg)?; }
            let d = GFb254::lookup8_x2(&tab, j);
            Ok(format!("{} {}", e254(&d[0]), e254(&d[1])))
        },
        "lookup4_x2" => {
            let j = u32a(arg(a, 0)?)?;
            let mut tab = [GFb254::ZERO; 8];
            for i in 0..8 { tab[i] = pb254(arg(a, 1 + i)?, rg)?; }
            let d = GFb254::lookup4_x2(&tab, j);
            Ok(format!("{} {}", e254(&d[0]), e254(&d[1])))
        },
        "lookup4_x2_nocheck" => {
            let j = u32a(arg(a, 0)?)?;
            let mut tab = [GFb254::ZERO; 8];
            for i in 0..8 { tab[i] = pb254(arg(a, 1 + i)?, rg)?; }
            let d = GFb254::lookup4_x2_nocheck(&tab, j);
            Ok(format!("{} {}", e254(&d[0]), e254(&d[1])))
        },
    })
}

// ------------------------------------------------------------------------
// Registry: one register file per type.

#[derive(Default)]
pub struct FieldRegs {
    gf25519: Vec<GF25519>, gf255e: Vec<GF255e>, gf255s: Vec<GF255s>,
    gf255_mq31: Vec<GF255<31>>, gf255_mq32765: Vec<GF255<32765>>, gf255_mq4111: Vec<GF255<4111>>, gf255_mq7549: Vec<GF255<7549>>,
    gfp256: Vec<GFp256>, gfsecp256k1: Vec<GFsecp256k1>, gf448: Vec<GF448>,
    sc25519: Vec<crrl::ed25519::Scalar>, scp256: Vec<crrl::p256::Scalar>,
    scsecp: Vec<crrl::secp256k1::Scalar>, scjq255e: Vec<crrl::jq255e::Scalar>,
    scjq255s: Vec<crrl::jq255s::Scalar>, scgls254: Vec<crrl::gls254::Scalar>,
    sc448: Vec<crrl::ed448::Scalar>,
    mi_25519: Vec<ModInt256<0xFFFFFFFFFFFFFFED, 0xFFFFFFFFFFFFFFFF, 0xFFFFFFFFFFFFFFFF, 0x7FFFFFFFFFFFFFFF>>,
    mi_spec1: Vec<ModInt256<0xFFFFFFFFFFFFFF27, 0xFFFFFFFFFFFFFFFE, 0x0000000000000000, 0xFFFFFFFFFFFFFFFF>>,
    mi_spec2: Vec<ModInt256<0xFFFFFFFFFFFFFF43, 0xFFFFFFFFFFFFFFFF, 0xFFFFFFFFFFFFFFFF, 0xFFFFFFFFFFFFFFFF>>,
    mi_spec3: Vec<ModInt256<0x20CD9255FD615923, 0xACAFC103CD968A25, 0xFFFFFFFFFFFFFFFE, 0xFFFFFFFFFFFFFFFF>>,
    mi_spec4: Vec<ModInt256<0xFFFFFFFFFFFFFFFF, 0xFFFFFFFFFFFFFFFF, 0xFFFFFFFFFFFFFFFF, 0xFFFFFFFFFFFFFFFB>>,
    mi_spec5: Vec<ModInt256<0xFFFFFFFFFFFFFFFF, 0xFFFFFFFFFFFFFFFF, 0xFFFFFFFFFFFFFF70, 0xFFFFFFFFFFFFFFFF>>,
    mi_spec6: Vec<ModInt256<0xFFFFFFFFFFFFFFFF, 0xFFFFFFFFFFFFFFFF, 0xFFFFFFFFFFFFFFFF, 0x8000000000000021>>,
    mi_bls: Vec<ModInt256<0xFFFFFFFF00000001, 0x53BDA402FFFE5BFE, 0x3339D80809A1D805, 0x73EDA753299D7D48>>,
    mi_193: Vec<ModInt256<0x0000000000000085, 0x0000000000000000, 0x0000000000000000, 0x0000000000000001>>,
    mi_194s: Vec<ModInt256<0x09C1BBF90735C9D7, 0x0000000000000000, 0x0000000000002000, 0x0000000000000002>>,
    mi_194d: Vec<ModInt256<0x01434BE3EBF87F35, 0xEA0CF04256BE1D97, 0xD77A0CB424B63937, 0x0000000000000002>>,
    mi_194h: Vec<ModInt256<0xFFFFFFE479B4DF7D, 0xFFFFFFEFFFFFFFFF, 0xFFFFFFFFFFFFFFFF, 0x0000000000000002>>,
    #[cfg(not(feature = "w32"))]
    g127: Vec<gg::G127>,
    #[cfg(not(feature = "w32"))]
    g192: Vec<gg::G192>,
    #[cfg(not(feature = "w32"))]
    g256: Vec<gg::G256>,
    #[cfg(not(feature = "w32"))]
    g25519: Vec<gg::G25519>,
    #[cfg(not(feature = "w32"))]
    g320: Vec<gg::G320>,
    #[cfg(not(feature = "w32"))]
    g384: Vec<gg::G384>,
    #[cfg(not(feature = "w32"))]
    g512: Vec<gg::G512>,
    gfb127: Vec<GFb127>, gfb254: Vec<GFb254>,
}

pub fn dispatch(ty: &str, op: &str, a: &[&str], r: &mut FieldRegs) -> R {
    match ty {
        "gf25519" => f_gf25519(op, a, &mut r.gf25519),
        "gf255e" => f_gf255e(op, a, &mut r.gf255e),
        "gf255s" => f_gf255s(op, a, &mut r.gf255s),
        "gf255_mq31" => f_gf255_mq31(op, a, &mut r.gf255_mq31),
        "gf255_mq32765" => f_gf255_mq32765(op, a, &mut r.gf255_mq32765),
        "gf255_mq4111" => f_gf255_mq4111(op, a, &mut r.gf255_mq4111),
        "gf255_mq7549" => f_gf255_mq7549(op, a, &mut r.gf255_mq7549),
        "gfp256" => f_gfp256(op, a, &mut r.gfp256),
        "gfsecp256k1" => f_gfsecp256k1(op, a, &mut r.gfsecp256k1),
        "gf448" => f_gf448(op, a, &mut r.gf448),
        "sc25519" => f_sc25519(op, a, &mut r.sc25519),
        "scp256" => f_scp256(op, a, &mut r.scp256),
        "scsecp" => f_scsecp(op, a, &mut r.scsecp),
        "scjq255e" => f_scjq255e(op, a, &mut r.scjq255e),
        "scjq255s" => f_scjq255s(op, a, &mut r.scjq255s),
        "scgls254" => f_scgls254(op, a, &mut r.scgls254),
        "sc448" => f_sc448(op, a, &mut r.sc448),
        "mi_25519" => f_mi_25519(op, a, &mut r.mi_25519),
        "mi_spec1" => f_mi_spec1(op, a, &mut r.mi_spec1),
        "mi_spec2" => f_mi_spec2(op, a, &mut r.mi_spec2),
        "mi_spec3" => f_mi_spec3(op, a, &mut r.mi_spec3),
        "mi_spec4" => f_mi_spec4(op, a, &mut r.mi_spec4),
        "mi_spec5" => f_mi_spec5(op, a, &mut r.mi_spec5),
        "mi_spec6" => f_mi_spec6(op, a, &mut r.mi_spec6),
        "mi_bls" => f_mi_bls(op, a, &mut r.mi_bls),
        "mi_193" => f_mi_193(op, a, &mut r.mi_193),
        "mi_194s" => f_mi_194s(op, a, &mut r.mi_194s),
        "mi_194d" => f_mi_194d(op, a, &mut r.mi_194d),
        "mi_194h" => f_mi_194h(op, a, &mut r.mi_194h),
        #[cfg(not(feature = "w32"))]
        "g127" => f_g127(op, a, &mut r.g127),
        #[cfg(not(feature = "w32"))]
        "g192" => f_g192(op, a, &mut r.g192),
        #[cfg(not(feature = "w32"))]
        "g256" => f_g256(op, a, &mut r.g256),
        #[cfg(not(feature = "w32"))]
        "g25519" => f_g25519(op, a, &mut r.g25519),
        #[cfg(not(feature = "w32"))]
        "g320" => f_g320(op, a, &mut r.g320),
        #[cfg(not(feature = "w32"))]
        "g384" => f_g384(op, a, &mut r.g384),
        #[cfg(not(feature = "w32"))]
        "g512" => f_g512(op, a, &mut r.g512),
        "gfb127" => f_gfb127(op, a, &mut r.gfb127),
        "gfb254" => f_gfb254(op, a, &mut r.gfb254),
        _ => Err(format!("unknown field type {}", ty)),
    }
}
