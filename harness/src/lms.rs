// LMS keys live in a handle table; the RNG is a scripted tape, optionally
// with an injected fault (panic on the k-th fill_bytes call).

use crate::schemes::TapeRng;
use crate::util::*;
use std::collections::HashMap;

macro_rules! lms_set {
    ($fname:ident, $m:ident, $table:ident) => {
        fn $fname(op: &str, a: &[&str], r: &mut LmsRegs) -> R {
            use crrl::lms::$m::{PrivateKey, PublicKey};
            match op {
                "gen" => {
                    let id = arg(a, 0)?.to_string();
                    let mut rng = TapeRng::new(bytes(arg(a, 1)?)?);
                    let sk = PrivateKey::generate(&mut rng);
                    let pk: PublicKey = sk.compute_public();
                    r.$table.insert(id, (sk, pk));
                    Ok(format!("{}", rng.calls))
                }
                "sign" => {
                    let id = arg(a, 0)?;
                    let mut rng = TapeRng::new(bytes(arg(a, 1)?)?);
                    let msg = bytes(arg(a, 2)?)?;
                    if a.len() > 3 {
                        rng.panic_at = Some(usizea(a[3])?);
                    }
                    let e = r.$table.get_mut(id).ok_or("no such key")?;
                    match e.0.sign(&mut rng, &msg) {
                        Some(s) => Ok(format!("S {}", ohex(&s))),
                        None => Ok("N".into()),
                    }
                }
                "sign_st" => {
                    // like sign, and reports whether the key state (as shown by its Debug form, the only public view of it)
                    // changed across the call
                    let id = arg(a, 0)?;
                    let mut rng = TapeRng::new(bytes(arg(a, 1)?)?);
                    let msg = bytes(arg(a, 2)?)?;
                    let e = r.$table.get_mut(id).ok_or("no such key")?;
                    let before = format!("{:?}", e.0);
                    let res = e.0.sign(&mut rng, &msg);
                    let after = format!("{:?}", e.0);
                    let st = if before == after { "SAME" } else { "CHANGED" };
                    match res {
                        Some(s) => Ok(format!("S {} {}", ohex(&s), st)),
                        None => Ok(format!("N {}", st)),
                    }
                }
                "verify" => {
                    let id = arg(a, 0)?;
                    let sig = bytes(arg(a, 1)?)?;
                    let msg = bytes(arg(a, 2)?)?;
                    let e = r.$table.get(id).ok_or("no such key")?;
                    Ok(obool(e.1.verify(&sig, &msg)))
                }
                "copy" => {
                    // PrivateKey is Copy: snapshot a key state under another id
                    let e = *r.$table.get(arg(a, 0)?).ok_or("no such key")?;
                    r.$table.insert(arg(a, 1)?.to_string(), e);
                    Ok("-".into())
                }
                _ => Err(format!("unknown lms op {}", op)),
            }
        }
    };
}

#[derive(Default)]
pub struct LmsRegs {
    t1: HashMap<String, (crrl::lms::LMS_SHA256_M32_H5_SHA256_N32_W8::PrivateKey, crrl::lms::LMS_SHA256_M32_H5_SHA256_N32_W8::PublicKey)>,
    t2: HashMap<String, (crrl::lms::LMS_SHA256_M24_H5_SHA256_N24_W8::PrivateKey, crrl::lms::LMS_SHA256_M24_H5_SHA256_N24_W8::PublicKey)>,
    t3: HashMap<String, (crrl::lms::LMS_SHAKE_M24_H5_SHAKE_N24_W8::PrivateKey, crrl::lms::LMS_SHAKE_M24_H5_SHAKE_N24_W8::PublicKey)>,
    t4: HashMap<String, (crrl::lms::LMS_SHAKE_M32_H5_SHAKE_N32_W8::PrivateKey, crrl::lms::LMS_SHAKE_M32_H5_SHAKE_N32_W8::PublicKey)>,
}

lms_set!(l_sha256_m32, LMS_SHA256_M32_H5_SHA256_N32_W8, t1);
lms_set!(l_sha256_m24, LMS_SHA256_M24_H5_SHA256_N24_W8, t2);
lms_set!(l_shake_m24, LMS_SHAKE_M24_H5_SHAKE_N24_W8, t3);
lms_set!(l_shake_m32, LMS_SHAKE_M32_H5_SHAKE_N32_W8, t4);

pub fn dispatch(set: &str, op: &str, a: &[&str], r: &mut LmsRegs) -> R {
    match set {
        "sha256_m32" => l_sha256_m32(op, a, r),
        "sha256_m24" => l_sha256_m24(op, a, r),
        "shake_m24" => l_shake_m24(op, a, r),
        "shake_m32" => l_shake_m32(op, a, r),
        _ => Err(format!("unknown lms set {}", set)),
    }
}
