// Small helpers: hex, argument parsing, valgrind client requests.

use std::sync::atomic::{AtomicBool, Ordering};

pub static TAINT: AtomicBool = AtomicBool::new(false);

pub type R = Result<String, String>;

pub fn hex(b: &[u8]) -> String {
    if b.is_empty() {
        return "-".to_string();
    }
    const H: &[u8; 16] = b"0123456789abcdef";
    let mut s = String::with_capacity(2 * b.len());
    for &x in b {
        s.push(H[(x >> 4) as usize] as char);
        s.push(H[(x & 15) as usize] as char);
    }
    s
}

pub fn unhex_raw(s: &str) -> Result<Vec<u8>, String> {
    if s == "-" {
        return Ok(Vec::new());
    }
    let b = s.as_bytes();
    if b.len() & 1 != 0 {
        return Err(format!("odd hex length: {}", s));
    }
    let mut v = Vec::with_capacity(b.len() / 2);
    fn d(c: u8) -> Result<u8, String> {
        match c {
            b'0'..=b'9' => Ok(c - b'0'),
            b'a'..=b'f' => Ok(c - b'a' + 10),
            b'A'..=b'F' => Ok(c - b'A' + 10),
            _ => Err("bad hex digit".to_string()),
        }
    }
    for i in 0..b.len() / 2 {
        v.push((d(b[2 * i])? << 4) | d(b[2 * i + 1])?);
    }
    Ok(v)
}

/// Parse a byte-string argument. A leading '!' marks the bytes as secret:
/// in taint mode they are flagged "undefined" for memcheck.
pub fn bytes(s: &str) -> Result<Vec<u8>, String> {
    // "@off,len@<hex>": only the sub-range [off, off+len) is secret
    if let Some(t) = s.strip_prefix('@') {
        let mut it = t.splitn(2, '@');
        let spec = it.next().ok_or("bad partial-taint spec")?;
        let h = it.next().ok_or("bad partial-taint spec")?;
        let mut sp = spec.split(',');
        let off = sp.next().ok_or("bad spec")?.parse::<usize>().map_err(|e| e.to_string())?;
        let len = sp.next().ok_or("bad spec")?.parse::<usize>().map_err(|e| e.to_string())?;
        let mut v = unhex_raw(h)?;
        if off + len > v.len() {
            return Err("partial-taint range out of bounds".to_string());
        }
        taint(&mut v[off..off + len]);
        return Ok(v);
    }
    if let Some(t) = s.strip_prefix('!') {
        let mut v = unhex_raw(t)?;
        taint(&mut v);
        Ok(v)
    } else {
        unhex_raw(s)
    }
}

pub fn arg<'a>(a: &[&'a str], i: usize) -> Result<&'a str, String> {
    a.get(i).copied().ok_or_else(|| format!("missing arg {}", i))
}

pub fn u64a(s: &str) -> Result<u64, String> {
    let (sec, t) = match s.strip_prefix('!') {
        Some(t) => (true, t),
        None => (false, s),
    };
    let mut v = if let Some(h) = t.strip_prefix("0x") {
        u64::from_str_radix(h, 16).map_err(|e| e.to_string())?
    } else {
        t.parse::<u64>().map_err(|e| e.to_string())?
    };
    if sec {
        taint_val(&mut v);
    }
    Ok(v)
}

pub fn u32a(s: &str) -> Result<u32, String> {
    let (sec, t) = match s.strip_prefix('!') {
        Some(t) => (true, t),
        None => (false, s),
    };
    let mut v = if let Some(h) = t.strip_prefix("0x") {
        u32::from_str_radix(h, 16).map_err(|e| e.to_string())?
    } else {
        t.parse::<u32>().map_err(|e| e.to_string())?
    };
    if sec {
        taint_val(&mut v);
    }
    Ok(v)
}

pub fn i128a(s: &str) -> Result<i128, String> {
    s.parse::<i128>().map_err(|e| e.to_string())
}

pub fn u128a(s: &str) -> Result<u128, String> {
    if let Some(h) = s.strip_prefix("0x") {
        u128::from_str_radix(h, 16).map_err(|e| e.to_string())
    } else {
        s.parse::<u128>().map_err(|e| e.to_string())
    }
}

pub fn usizea(s: &str) -> Result<usize, String> {
    s.parse::<usize>().map_err(|e| e.to_string())
}

/// Limbs (64-bit, little-endian order) from a little-endian byte string.
pub fn limbs(b: &[u8], n: usize) -> Result<Vec<u64>, String> {
    if b.len() != 8 * n {
        return Err(format!("expected {} bytes for {} limbs, got {}", 8 * n, n, b.len()));
    }
    let mut v = Vec::with_capacity(n);
    for i in 0..n {
        let mut w = [0u8; 8];
        w.copy_from_slice(&b[8 * i..8 * i + 8]);
        v.push(u64::from_le_bytes(w));
    }
    Ok(v)
}

// ------------------------------------------------------------------------
// Valgrind client requests (no C, no extra crate).

#[cfg(target_arch = "x86_64")]
#[inline(never)]
fn vg_request(default: u64, req: u64, a1: u64, a2: u64) -> u64 {
    let args: [u64; 6] = [req, a1, a2, 0, 0, 0];
    let mut res = default;
    unsafe {
        core::arch::asm!(
            "rol rdi, 3",
            "rol rdi, 13",
            "rol rdi, 61",
            "rol rdi, 51",
            "xchg rbx, rbx",
            inout("rdx") res,
            in("rax") args.as_ptr(),
            out("rdi") _,
            options(nostack),
        );
    }
    res
}

#[cfg(not(target_arch = "x86_64"))]
fn vg_request(default: u64, _req: u64, _a1: u64, _a2: u64) -> u64 {
    default
}

const VG_MAKE_MEM_UNDEFINED: u64 = 0x4d430001;
const VG_MAKE_MEM_DEFINED: u64 = 0x4d430002;
const VG_RUNNING_ON_VALGRIND: u64 = 0x1001;

pub fn on_valgrind() -> bool {
    vg_request(0, VG_RUNNING_ON_VALGRIND, 0, 0) != 0
}

pub fn taint(b: &mut [u8]) {
    if TAINT.load(Ordering::Relaxed) && !b.is_empty() {
        vg_request(0, VG_MAKE_MEM_UNDEFINED, b.as_mut_ptr() as u64, b.len() as u64);
    }
}

pub fn taint_val<T: Copy>(v: &mut T) {
    if TAINT.load(Ordering::Relaxed) {
        vg_request(0, VG_MAKE_MEM_UNDEFINED, v as *mut T as u64, core::mem::size_of::<T>() as u64);
    }
}

pub fn untaint(b: &mut [u8]) {
    if TAINT.load(Ordering::Relaxed) && !b.is_empty() {
        vg_request(0, VG_MAKE_MEM_DEFINED, b.as_mut_ptr() as u64, b.len() as u64);
    }
}

pub fn untaint_val<T: Copy>(v: &mut T) {
    if TAINT.load(Ordering::Relaxed) {
        vg_request(0, VG_MAKE_MEM_DEFINED, v as *mut T as u64, core::mem::size_of::<T>() as u64);
    }
}

/// Output helpers: results are declassified just before being printed.
pub fn ohex(b: &[u8]) -> String {
    let mut v = b.to_vec();
    untaint(&mut v);
    hex(&v)
}

pub fn ou32(x: u32) -> String {
    let mut y = x;
    untaint_val(&mut y);
    format!("{:08x}", y)
}

pub fn oi32(x: i32) -> String {
    let mut y = x;
    untaint_val(&mut y);
    format!("{}", y)
}

pub fn obool(x: bool) -> String {
    let mut y = x as u8;
    untaint_val(&mut y);
    (if y != 0 { "T" } else { "F" }).to_string()
}
