// FROST: every wire object travels as bytes; each op decodes its inputs with
// the library's decoders and re-encodes its outputs.

use crate::schemes::TapeRng;
use crate::util::*;

macro_rules! frost_suite {
    ($fname:ident, $m:ident) => {
        fn $fname(op: &str, a: &[&str]) -> R {
            use crrl::frost::$m::*;
            macro_rules! dec {
                ($T:ty, $i:expr) => {
                    match <$T>::decode(&bytes(arg(a, $i)?)?) {
                        Some(x) => x,
                        None => return Ok(format!("NODEC {}", $i)),
                    }
                };
            }
            macro_rules! declist {
                ($T:ty, $i:expr) => {
                    match <$T>::decode_list(&bytes(arg(a, $i)?)?) {
                        Some(x) => x,
                        None => return Ok(format!("NODEC {}", $i)),
                    }
                };
            }
            match op {
                "keygen" => {
                    let mut rng = TapeRng::new(bytes(arg(a, 0)?)?);
                    let sk = GroupPrivateKey::generate(&mut rng);
                    Ok(format!("{} {}", ohex(&sk.encode()), ohex(&sk.get_public_key().encode())))
                }
                "gpk" => {
                    let sk = dec!(GroupPrivateKey, 0);
                    Ok(ohex(&sk.get_public_key().encode()))
                }
                "split" => {
                    let mut rng = TapeRng::new(bytes(arg(a, 0)?)?);
                    let sk = dec!(GroupPrivateKey, 1);
                    let t = usizea(arg(a, 2)?)?;
                    let n = usizea(arg(a, 3)?)?;
                    let (shares, vss) = KeySplitter::trusted_split(&mut rng, sk, t, n);
                    let mut s = String::new();
                    for (i, sh) in shares.iter().enumerate() {
                        if i > 0 { s.push(','); }
                        s.push_str(&ohex(&sh.encode()));
                    }
                    Ok(format!("{} {}", s, ohex(&VSSElement::encode_list(&vss))))
                }
                // split with a large n: only print a digest-free summary (count and three shares)
                "split_big" => {
                    let mut rng = TapeRng::new(bytes(arg(a, 0)?)?);
                    let sk = dec!(GroupPrivateKey, 1);
                    let t = usizea(arg(a, 2)?)?;
                    let n = usizea(arg(a, 3)?)?;
                    let (shares, vss) = KeySplitter::trusted_split(&mut rng, sk, t, n);
                    let pick = [0usize, n / 2, n - 1];
                    let mut s = String::new();
                    for (k, &i) in pick.iter().enumerate() {
                        if k > 0 { s.push(','); }
                        s.push_str(&ohex(&shares[i].encode()));
                    }
                    let ok = shares.iter().all(|sh| sh.verify_split(&vss));
                    Ok(format!("{} {} {} {}", shares.len(), s, ohex(&VSSElement::encode_list(&vss)), obool(ok)))
                }
                "verify_split" => {
                    let sh = dec!(SignerPrivateKeyShare, 0);
                    let vss = declist!(VSSElement, 1);
                    Ok(obool(sh.verify_split(&vss)))
                }
                "share_pub" => {
                    let sh = dec!(SignerPrivateKeyShare, 0);
                    Ok(ohex(&sh.get_public_key().encode()))
                }
                "derive_group_info" => {
                    let n = usizea(arg(a, 0)?)?;
                    let vss = declist!(VSSElement, 1);
                    let (pks, gpk) = KeySplitter::derive_group_info(n, vss);
                    let mut s = String::new();
                    for (i, p) in pks.iter().enumerate() {
                        if i > 0 { s.push(','); }
                        s.push_str(&ohex(&p.encode()));
                    }
                    Ok(format!("{} {}", s, ohex(&gpk.encode())))
                }
                "commit" => {
                    let sh = dec!(SignerPrivateKeyShare, 0);
                    let mut rng = TapeRng::new(bytes(arg(a, 1)?)?);
                    let (nonce, comm) = sh.commit(&mut rng);
                    Ok(format!("{} {}", ohex(&nonce.encode()), ohex(&comm.encode())))
                }
                "nonce_comm" => {
                    let nonce = dec!(Nonce, 0);
                    Ok(ohex(&nonce.get_commitment().encode()))
                }
                "choose" => {
                    let t = usizea(arg(a, 0)?)?;
                    let gpk = dec!(GroupPublicKey, 1);
                    let comms = declist!(Commitment, 2);
                    let co = match Coordinator::new(t, gpk) { Some(c) => c, None => return Ok("NOCOORD".into()) };
                    match co.choose(&comms) {
                        Some(l) => Ok(format!("S {}", ohex(&Commitment::encode_list(&l)))),
                        None => Ok("N".into()),
                    }
                }
                "sign" => {
                    let sh = dec!(SignerPrivateKeyShare, 0);
                    let nonce = dec!(Nonce, 1);
                    let comm = dec!(Commitment, 2);
                    let msg = bytes(arg(a, 3)?)?;
                    let cl = declist!(Commitment, 4);
                    match sh.sign(nonce, comm, &msg, &cl) {
                        Some(s) => Ok(format!("S {}", ohex(&s.encode()))),
                        None => Ok("N".into()),
                    }
                }
                // as "sign", but the commitment list is built by the caller entry by entry (Commitment::decode on each
                // chunk), so lists that decode_list would reject (unordered, duplicates, a single entry) reach sign()
                "sign_raw" => {
                    let sh = dec!(SignerPrivateKeyShare, 0);
                    let nonce = dec!(Nonce, 1);
                    let comm = dec!(Commitment, 2);
                    let msg = bytes(arg(a, 3)?)?;
                    let lb = bytes(arg(a, 4)?)?;
                    if lb.len() % Commitment::ENC_LEN != 0 { return Ok("NODEC 4".into()); }
                    let mut cl = Vec::new();
                    for ch in lb.chunks(Commitment::ENC_LEN) {
                        match Commitment::decode(ch) { Some(x) => cl.push(x), None => return Ok("NODEC 4".into()) }
                    }
                    match sh.sign(nonce, comm, &msg, &cl) {
                        Some(s) => Ok(format!("S {}", ohex(&s.encode()))),
                        None => Ok("N".into()),
                    }
                }
                "verify_share" => {
                    let spk = dec!(SignerPublicKey, 0);
                    let ss = dec!(SignatureShare, 1);
                    let cl = declist!(Commitment, 2);
                    let gpk = dec!(GroupPublicKey, 3);
                    let msg = bytes(arg(a, 4)?)?;
                    Ok(obool(spk.verify_signature_share(ss, &cl, gpk, &msg)))
                }
                "assemble" => {
                    let t = usizea(arg(a, 0)?)?;
                    let gpk = dec!(GroupPublicKey, 1);
                    let mut shares = Vec::new();
                    for h in arg(a, 2)?.split(',') {
                        if h == "-" || h.is_empty() { continue; }
                        match SignatureShare::decode(&bytes(h)?) { Some(x) => shares.push(x), None => return Ok("NODEC 2".into()) }
                    }
                    let cl = declist!(Commitment, 3);
                    let mut pks = Vec::new();
                    for h in arg(a, 4)?.split(',') {
                        if h == "-" || h.is_empty() { continue; }
                        match SignerPublicKey::decode(&bytes(h)?) { Some(x) => pks.push(x), None => return Ok("NODEC 4".into()) }
                    }
                    let msg = bytes(arg(a, 5)?)?;
                    let co = match Coordinator::new(t, gpk) { Some(c) => c, None => return Ok("NOCOORD".into()) };
                    match co.assemble_signature(&shares, &cl, &pks, &msg) {
                        Some(s) => Ok(format!("S {}", ohex(&s.encode()))),
                        None => Ok("N".into()),
                    }
                }
                "verify" => {
                    let gpk = dec!(GroupPublicKey, 0);
                    let sig = dec!(Signature, 1);
                    let msg = bytes(arg(a, 2)?)?;
                    Ok(obool(gpk.verify(sig, &msg)))
                }
                "verify_esig" => {
                    let gpk = dec!(GroupPublicKey, 0);
                    let esig = bytes(arg(a, 1)?)?;
                    let msg = bytes(arg(a, 2)?)?;
                    Ok(obool(gpk.verify_esig(&esig, &msg)))
                }
                "gsign" => {
                    let sk = dec!(GroupPrivateKey, 0);
                    let seed = bytes(arg(a, 1)?)?;
                    let msg = bytes(arg(a, 2)?)?;
                    Ok(ohex(&sk.sign_seeded(&seed, &msg).encode()))
                }
                "gsign_rand" => {
                    let sk = dec!(GroupPrivateKey, 0);
                    let mut rng = TapeRng::new(bytes(arg(a, 1)?)?);
                    let msg = bytes(arg(a, 2)?)?;
                    Ok(ohex(&sk.sign(&mut rng, &msg).encode()))
                }
                "dec" => {
                    // decode / re-encode round trip of one wire type
                    let ty = arg(a, 0)?;
                    let b = bytes(arg(a, 1)?)?;
                    macro_rules! rt { ($T:ty) => { match <$T>::decode(&b) { Some(x) => Ok(format!("S {}", ohex(&x.encode()))), None => Ok("N".into()) } } }
                    match ty {
                        "group_sk" => rt!(GroupPrivateKey),
                        "group_pk" => rt!(GroupPublicKey),
                        "share" => rt!(SignerPrivateKeyShare),
                        "signer_pk" => rt!(SignerPublicKey),
                        "nonce" => rt!(Nonce),
                        "commitment" => rt!(Commitment),
                        "sig_share" => rt!(SignatureShare),
                        "signature" => rt!(Signature),
                        "vss_list" => match VSSElement::decode_list(&b) { Some(x) => Ok(format!("S {}", ohex(&VSSElement::encode_list(&x)))), None => Ok("N".into()) },
                        "commitment_list" => match Commitment::decode_list(&b) { Some(x) => Ok(format!("S {}", ohex(&Commitment::encode_list(&x)))), None => Ok("N".into()) },
                        _ => Err("bad wire type".into()),
                    }
                }
                _ => Err(format!("unknown frost op {}", op)),
            }
        }
    };
}

frost_suite!(fr_ed25519, ed25519);
frost_suite!(fr_ristretto255, ristretto255);
frost_suite!(fr_ed448, ed448);
frost_suite!(fr_p256, p256);
frost_suite!(fr_secp256k1, secp256k1);

pub fn dispatch(suite: &str, op: &str, a: &[&str]) -> R {
    match suite {
        "ed25519" => fr_ed25519(op, a),
        "ristretto255" => fr_ristretto255(op, a),
        "ed448" => fr_ed448(op, a),
        "p256" => fr_p256(op, a),
        "secp256k1" => fr_secp256k1(op, a),
        _ => Err(format!("unknown frost suite {}", suite)),
    }
}
