// Hash function contexts, addressable by handle so that call histories
// (update / finalize / reset / clone / extract) can be driven from outside.

use crate::util::*;
use crrl::blake2s::{Blake2s, Blake2s256, KeyedBlake2s};
use crrl::sha2::{Sha224, Sha256, Sha384, Sha512, Sha512_224, Sha512_256};
use crrl::sha3::{SHA3_224, SHA3_256, SHA3_384, SHA3_512, SHAKE128, SHAKE256};
use std::collections::HashMap;

pub enum Ctx {
    S224(Sha224), S256(Sha256), S384(Sha384), S512(Sha512), S512_224(Sha512_224), S512_256(Sha512_256),
    K224(SHA3_224), K256(SHA3_256), K384(SHA3_384), K512(SHA3_512),
    X128(SHAKE128), X256(SHAKE256),
    B2(Blake2s, usize), B2K(KeyedBlake2s, usize), B2_256(Blake2s256),
}

// Hash inputs are handed to the library at every alignment: the data is copied behind a 0..15-byte prefix (derived from the
// data itself, so that replays are deterministic) and the library sees the slice that starts after the prefix.
pub struct Shifted { v: Vec<u8>, off: usize }
impl std::ops::Deref for Shifted {
    type Target = [u8];
    fn deref(&self) -> &[u8] { &self.v[self.off..] }
}
impl AsRef<[u8]> for Shifted {
    fn as_ref(&self) -> &[u8] { &self.v[self.off..] }
}
pub fn ubytes(s: &str) -> Result<Shifted, String> {
    let b = bytes(s)?;
    let off = (b.len() * 7 + (b.len() >> 4)) % 16;
    let mut v = vec![0u8; off];
    v.extend_from_slice(&b);
    Ok(Shifted { v, off })
}

#[derive(Default)]
pub struct HashRegs {
    pub m: HashMap<String, Ctx>,
}

macro_rules! fixed {
    ($c:expr, $op:expr, $a:expr, $self_clone:expr) => {{
        match $op {
            "update" => { let b = ubytes(arg($a, 1)?)?; $c.update(&b); Ok("-".into()) }
            "update_rep" => { let b = ubytes(arg($a, 1)?)?; let n = usizea(arg($a, 2)?)?; for _ in 0..n { $c.update(&b); } Ok("-".into()) }
            "finalize" => Ok(ohex(&$c.finalize())),
            "finalize_reset" => Ok(ohex(&$c.finalize_reset())),
            "digest" => Ok(ohex(&$c.digest())),
            "finalize_write" => { let mut o = [0u8; 64]; let n = $c.finalize_write(&mut o); Ok(ohex(&o[..n])) }
            "finalize_reset_write" => { let mut o = [0u8; 64]; let n = $c.finalize_reset_write(&mut o); Ok(ohex(&o[..n])) }
            "reset" => { $c.reset(); Ok("-".into()) }
            _ => Err(format!("bad hash op {}", $op)),
        }
    }};
}

macro_rules! shake {
    ($c:expr, $op:expr, $a:expr) => {{
        match $op {
            "update" => { let b = ubytes(arg($a, 1)?)?; $c.update(&b); Ok("-".into()) }
            "inject" => { let b = ubytes(arg($a, 1)?)?; $c.inject(&b); Ok("-".into()) }
            "update_rep" => { let b = ubytes(arg($a, 1)?)?; let n = usizea(arg($a, 2)?)?; for _ in 0..n { $c.inject(&b); } Ok("-".into()) }
            "flip" => { $c.flip(); Ok("-".into()) }
            "extract" => { let n = usizea(arg($a, 1)?)?; let mut o = vec![0u8; n]; $c.extract(&mut o); Ok(ohex(&o)) }
            "flip_extract" => { let n = usizea(arg($a, 1)?)?; let mut o = vec![0u8; n]; $c.flip_extract(&mut o); Ok(ohex(&o)) }
            "flip_extract_reset" => { let n = usizea(arg($a, 1)?)?; let mut o = vec![0u8; n]; $c.flip_extract_reset(&mut o); Ok(ohex(&o)) }
            "reset" => { $c.reset(); Ok("-".into()) }
            _ => Err(format!("bad shake op {}", $op)),
        }
    }};
}

fn newctx(kind: &str, a: &[&str]) -> Result<Ctx, String> {
    Ok(match kind {
        "sha224" => Ctx::S224(Sha224::new()),
        "sha256" => Ctx::S256(Sha256::new()),
        "sha384" => Ctx::S384(Sha384::new()),
        "sha512" => Ctx::S512(Sha512::new()),
        "sha512_224" => Ctx::S512_224(Sha512_224::new()),
        "sha512_256" => Ctx::S512_256(Sha512_256::new()),
        "sha3_224" => Ctx::K224(SHA3_224::new()),
        "sha3_256" => Ctx::K256(SHA3_256::new()),
        "sha3_384" => Ctx::K384(SHA3_384::new()),
        "sha3_512" => Ctx::K512(SHA3_512::new()),
        "shake128" => Ctx::X128(SHAKE128::new()),
        "shake256" => Ctx::X256(SHAKE256::new()),
        "blake2s" => { let n = usizea(arg(a, 0)?)?; Ctx::B2(Blake2s::new(n), n) }
        "kblake2s" => { let n = usizea(arg(a, 0)?)?; let k = bytes(arg(a, 1)?)?; Ctx::B2K(KeyedBlake2s::new(n, &k), n) }
        "blake2s256" => Ctx::B2_256(Blake2s256::new()),
        _ => return Err(format!("unknown hash {}", kind)),
    })
}

pub fn dispatch(op: &str, a: &[&str], r: &mut HashRegs) -> R {
    match op {
        "new" => {
            let id = arg(a, 0)?.to_string();
            let c = newctx(arg(a, 1)?, &a[2..])?;
            r.m.insert(id, c);
            Ok("-".into())
        }
        "clone" => {
            let src = arg(a, 0)?;
            let dst = arg(a, 1)?.to_string();
            let c = match r.m.get(src).ok_or("no such handle")? {
                Ctx::S224(c) => Ctx::S224(c.clone()), Ctx::S256(c) => Ctx::S256(c.clone()),
                Ctx::S384(c) => Ctx::S384(c.clone()), Ctx::S512(c) => Ctx::S512(c.clone()),
                Ctx::S512_224(c) => Ctx::S512_224(c.clone()), Ctx::S512_256(c) => Ctx::S512_256(c.clone()),
                Ctx::K224(c) => Ctx::K224(c.clone()), Ctx::K256(c) => Ctx::K256(c.clone()),
                Ctx::K384(c) => Ctx::K384(c.clone()), Ctx::K512(c) => Ctx::K512(c.clone()),
                Ctx::X128(c) => Ctx::X128(c.clone()), Ctx::X256(c) => Ctx::X256(c.clone()),
                _ => return Err("type is not Clone".into()),
            };
            r.m.insert(dst, c);
            Ok("-".into())
        }
        "hash" => {
            // one-call forms
            let kind = arg(a, 0)?;
            let b = ubytes(arg(a, 1)?)?;
            match kind {
                "sha224" => Ok(ohex(&Sha224::hash(&b))), "sha256" => Ok(ohex(&Sha256::hash(&b))),
                "sha384" => Ok(ohex(&Sha384::hash(&b))), "sha512" => Ok(ohex(&Sha512::hash(&b))),
                "sha512_224" => Ok(ohex(&Sha512_224::hash(&b))), "sha512_256" => Ok(ohex(&Sha512_256::hash(&b))),
                "sha3_224" => Ok(ohex(&SHA3_224::hash(&b))), "sha3_256" => Ok(ohex(&SHA3_256::hash(&b))),
                "sha3_384" => Ok(ohex(&SHA3_384::hash(&b))), "sha3_512" => Ok(ohex(&SHA3_512::hash(&b))),
                "blake2s256" => Ok(ohex(&Blake2s256::hash(&b))),
                "blake2s" => {
                    let n = usizea(arg(a, 2)?)?;
                    let mut o = [0u8; 40];
                    Blake2s::hash_into(n, &b, &mut o);
                    Ok(ohex(&o[..n]))
                }
                "kblake2s" => {
                    let n = usizea(arg(a, 2)?)?;
                    let k = bytes(arg(a, 3)?)?;
                    let mut o = [0u8; 40];
                    KeyedBlake2s::hash_into(n, &k, &b, &mut o);
                    Ok(ohex(&o[..n]))
                }
                _ => Err("bad hash kind".into()),
            }
        }
        _ => {
            let id = arg(a, 0)?;
            let c = r.m.get_mut(id).ok_or("no such handle")?;
            match c {
                Ctx::S224(c) => fixed!(c, op, a, 0), Ctx::S256(c) => fixed!(c, op, a, 0),
                Ctx::S384(c) => fixed!(c, op, a, 0), Ctx::S512(c) => fixed!(c, op, a, 0),
                Ctx::S512_224(c) => fixed!(c, op, a, 0), Ctx::S512_256(c) => fixed!(c, op, a, 0),
                Ctx::K224(c) => fixed!(c, op, a, 0), Ctx::K256(c) => fixed!(c, op, a, 0),
                Ctx::K384(c) => fixed!(c, op, a, 0), Ctx::K512(c) => fixed!(c, op, a, 0),
                Ctx::X128(c) => shake!(c, op, a), Ctx::X256(c) => shake!(c, op, a),
                Ctx::B2(c, n) => match op {
                    "update" => { let b = ubytes(arg(a, 1)?)?; c.update(&b); Ok("-".into()) }
                    "update_rep" => { let b = ubytes(arg(a, 1)?)?; let n = usizea(arg(a, 2)?)?; for _ in 0..n { c.update(&b); } Ok("-".into()) }
                    "reset" => { c.reset(); Ok("-".into()) }
                    "finalize_write" => { let mut o = [0u8; 40]; let k = c.finalize_write(&mut o); Ok(format!("{} {}", ohex(&o[..k]), *n)) }
                    "finalize_reset_write" => { let mut o = [0u8; 40]; let k = c.finalize_reset_write(&mut o); Ok(format!("{} {}", ohex(&o[..k]), *n)) }
                    _ => Err("bad blake2s op".into()),
                },
                Ctx::B2K(c, n) => match op {
                    "update" => { let b = ubytes(arg(a, 1)?)?; c.update(&b); Ok("-".into()) }
                    "update_rep" => { let b = ubytes(arg(a, 1)?)?; let n = usizea(arg(a, 2)?)?; for _ in 0..n { c.update(&b); } Ok("-".into()) }
                    "reset" => { c.reset(); Ok("-".into()) }
                    "finalize_write" => { let mut o = [0u8; 40]; let k = c.finalize_write(&mut o); Ok(format!("{} {}", ohex(&o[..k]), *n)) }
                    "finalize_reset_write" => { let mut o = [0u8; 40]; let k = c.finalize_reset_write(&mut o); Ok(format!("{} {}", ohex(&o[..k]), *n)) }
                    _ => Err("bad kblake2s op".into()),
                },
                Ctx::B2_256(c) => match op {
                    "update" => { let b = ubytes(arg(a, 1)?)?; c.update(&b); Ok("-".into()) }
                    "update_rep" => { let b = ubytes(arg(a, 1)?)?; let n = usizea(arg(a, 2)?)?; for _ in 0..n { c.update(&b); } Ok("-".into()) }
                    "finalize" => Ok(ohex(&c.finalize())),
                    "finalize_reset" => Ok(ohex(&c.finalize_reset())),
                    "finalize_write" => { let mut o = [0u8; 40]; let k = c.finalize_write(&mut o); Ok(ohex(&o[..k])) }
                    "finalize_reset_write" => { let mut o = [0u8; 40]; let k = c.finalize_reset_write(&mut o); Ok(ohex(&o[..k])) }
                    _ => Err("bad blake2s256 op".into()),
                },
            }
        }
    }
}
