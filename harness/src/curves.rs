// Dispatch over the curve / group types of crrl.

use crate::util::*;

pub const NREGS: usize = 32;

fn dest<'a, 'b>(a: &'b [&'a str]) -> (Option<usize>, &'b [&'a str]) {
    if let Some(s) = a.first() {
        if let Some(t) = s.strip_prefix('>') {
            if let Ok(k) = t.parse::<usize>() {
                return (Some(k % NREGS), &a[1..]);
            }
        }
    }
    (None, a)
}

// $m: module; $enc: |p| -> bytes expression; $modf: |p, kind, bytes| -> Result<Point> for
// representation modifiers.
macro_rules! curve {
    ($fname:ident, $m:ident,
     enc: |$e:ident| $enc:expr,
     modf: |$mp:ident, $mk:ident, $mb:ident| $modf:expr,
     extra: |$pt:ident, $sc:ident, $a:ident, $rg:ident, $put:ident| { $($op:literal => $body:expr),* $(,)? }) => {

        pub fn $fname(op: &str, a: &[&str], rg: &mut Vec<crrl::$m::Point>) -> R {
            type P = crrl::$m::Point;
            type S = crrl::$m::Scalar;
            if rg.is_empty() {
                rg.resize(NREGS, P::NEUTRAL);
            }
            let (dst, a) = dest(a);
            let enc = |$e: &P| -> String { ohex(&($enc)[..]) };
            fn pmod($mp: P, $mk: u8, $mb: &[u8]) -> Result<crrl::$m::Point, String> {
                $modf
            }
            fn pp(s: &str, rg: &Vec<crrl::$m::Point>) -> Result<crrl::$m::Point, String> {
                type P = crrl::$m::Point;
                if let Some(k) = s.strip_prefix('$') {
                    let k = k.parse::<usize>().map_err(|e| e.to_string())?;
                    return Ok(rg[k % NREGS]);
                }
                let mut parts = s.split('~');
                let head = parts.next().unwrap();
                let mut p = match head {
                    "N" => P::NEUTRAL,
                    "B" => P::BASE,
                    _ => {
                        let (sec, h) = match head.strip_prefix('!') { Some(t) => (true, t), None => (false, head) };
                        if !h.starts_with('e') {
                            return Err(format!("bad point {}", head));
                        }
                        let mut b = unhex_raw(&h[1..])?;
                        if sec { taint(&mut b); }
                        let mut q = P::NEUTRAL;
                        let r = q.set_decode(&b);
                        let mut rr = r; untaint_val(&mut rr);
                        if rr == 0 {
                            return Err("point does not decode".to_string());
                        }
                        q
                    }
                };
                for m in parts {
                    if m.is_empty() { return Err("empty modifier".into()); }
                    let b = unhex_raw(&m[1..])?;
                    p = pmod(p, m.as_bytes()[0], &b)?;
                }
                Ok(p)
            }
            fn ps(s: &str) -> Result<crrl::$m::Scalar, String> {
                let b = bytes(s)?;
                Ok(<crrl::$m::Scalar>::decode_reduce(&b))
            }
            let mut $put = |v: P, rg: &mut Vec<P>| -> R {
                if let Some(k) = dst { rg[k] = v; }
                Ok(enc(&v))
            };
            let pt = |i: usize, rg: &Vec<P>| -> Result<P, String> { pp(arg(a, i)?, rg) };
            let sc = |i: usize| -> Result<S, String> { ps(arg(a, i)?) };
            match op {
                "id" => { let p = pt(0, rg)?; $put(p, rg) }
                "add" => { let p = pt(0, rg)?; let q = pt(1, rg)?; $put(p + q, rg) }
                "sub" => { let p = pt(0, rg)?; let q = pt(1, rg)?; $put(p - q, rg) }
                "add_vr" => { let p = pt(0, rg)?; let q = pt(1, rg)?; $put(p + &q, rg) }
                "add_rv" => { let p = pt(0, rg)?; let q = pt(1, rg)?; $put(&p + q, rg) }
                "sub_vr" => { let p = pt(0, rg)?; let q = pt(1, rg)?; $put(p - &q, rg) }
                "sub_rv" => { let p = pt(0, rg)?; let q = pt(1, rg)?; $put(&p - q, rg) }
                "addav" => { let mut p = pt(0, rg)?; let q = pt(1, rg)?; p += q; $put(p, rg) }
                "subav" => { let mut p = pt(0, rg)?; let q = pt(1, rg)?; p -= q; $put(p, rg) }
                "negr" => { let p = pt(0, rg)?; $put(-&p, rg) }
                "mul_vr" => { let p = pt(0, rg)?; let s = sc(1)?; $put(p * &s, rg) }
                "mul_rv" => { let p = pt(0, rg)?; let s = sc(1)?; $put(&p * s, rg) }
                "mul_rr" => { let p = pt(0, rg)?; let s = sc(1)?; $put(&p * &s, rg) }
                "smul_vv" => { let p = pt(0, rg)?; let s = sc(1)?; $put(s * p, rg) }
                "smul_vr" => { let p = pt(0, rg)?; let s = sc(1)?; $put(s * &p, rg) }
                "smul_rv" => { let p = pt(0, rg)?; let s = sc(1)?; $put(&s * p, rg) }
                "mulav" => { let mut p = pt(0, rg)?; let s = sc(1)?; p *= s; $put(p, rg) }
                "mulu64r" => { let p = pt(0, rg)?; let n = u64a(arg(a, 1)?)?; $put(&p * n, rg) }
                "u64mulr" => { let p = pt(0, rg)?; let n = u64a(arg(a, 1)?)?; $put(n * &p, rg) }
                "addr" => { let p = pt(0, rg)?; let q = pt(1, rg)?; $put(&p + &q, rg) }
                "subr" => { let p = pt(0, rg)?; let q = pt(1, rg)?; $put(&p - &q, rg) }
                "adda" => { let mut p = pt(0, rg)?; let q = pt(1, rg)?; p += &q; $put(p, rg) }
                "suba" => { let mut p = pt(0, rg)?; let q = pt(1, rg)?; p -= &q; $put(p, rg) }
                "neg" => { let p = pt(0, rg)?; $put(-p, rg) }
                "double" => { let p = pt(0, rg)?; $put(p.double(), rg) }
                "xdouble" => { let p = pt(0, rg)?; let n = u32a(arg(a, 1)?)?; $put(p.xdouble(n), rg) }
                "mulu64" => { let p = pt(0, rg)?; let n = u64a(arg(a, 1)?)?; $put(p * n, rg) }
                "u64mul" => { let p = pt(0, rg)?; let n = u64a(arg(a, 1)?)?; $put(n * p, rg) }
                "mulu64a" => { let mut p = pt(0, rg)?; let n = u64a(arg(a, 1)?)?; p *= n; $put(p, rg) }
                "mul" => { let p = pt(0, rg)?; let s = sc(1)?; $put(p * s, rg) }
                "smul" => { let p = pt(0, rg)?; let s = sc(1)?; $put(&s * &p, rg) }
                "mula" => { let mut p = pt(0, rg)?; let s = sc(1)?; p *= &s; $put(p, rg) }
                "mulgen" => { let s = sc(0)?; $put(P::mulgen(&s), rg) }
                // in-place form on a receiver that already holds a value (which must be ignored)
                "set_mulgen" => { let mut p = pt(0, rg)?; let s = sc(1)?; p.set_mulgen(&s); $put(p, rg) }
                "mamv" => { let p = pt(0, rg)?; let u = sc(1)?; let v = sc(2)?; $put(p.mul_add_mulgen_vartime(&u, &v), rg) }
                // same expression through the constant-time operations
                "mamv_ref" => { let p = pt(0, rg)?; let u = sc(1)?; let v = sc(2)?; $put(p * u + P::mulgen(&v), rg) }
                "equals" => { let p = pt(0, rg)?; let q = pt(1, rg)?; Ok(ou32(p.equals(q))) }
                "isneutral" => { let p = pt(0, rg)?; Ok(ou32(p.isneutral())) }
                "set_cond" => { let mut p = pt(0, rg)?; let q = pt(1, rg)?; let c = u32a(arg(a, 2)?)?; p.set_cond(&q, c); $put(p, rg) }
                "select" => { let p = pt(0, rg)?; let q = pt(1, rg)?; let c = u32a(arg(a, 2)?)?; $put(P::select(&p, &q, c), rg) }
                "condneg" => { let mut p = pt(0, rg)?; let c = u32a(arg(a, 1)?)?; p.set_condneg(c); $put(p, rg) }
                "enc" => { let p = pt(0, rg)?; Ok(enc(&p)) }
                "decode" => {
                    let b = bytes(arg(a, 0)?)?;
                    match P::decode(&b) {
                        Some(p) => { if let Some(k) = dst { rg[k] = p; } Ok(format!("S {}", enc(&p))) }
                        None => Ok("N".to_string()),
                    }
                }
                "set_decode" => {
                    let b = bytes(arg(a, 0)?)?;
                    let mut p = P::BASE;
                    let r = p.set_decode(&b);
                    if let Some(k) = dst { rg[k] = p; }
                    Ok(format!("{} {} {}", ou32(r), enc(&p), ou32(p.isneutral())))
                }
                $( $op => {
                    let $a = a;
                    let $rg = rg;
                    #[allow(unused_variables)]
                    let $pt = |i: usize, rg: &Vec<P>| -> Result<P, String> { pp(arg($a, i)?, rg) };
                    #[allow(unused_variables)]
                    let $sc = |i: usize| -> Result<S, String> { ps(arg($a, i)?) };
                    $body
                } )*
                _ => Err(format!("unknown curve op {}", op)),
            }
        }
    };
}

fn nz<T>(ok: u32, v: T) -> Result<T, String> {
    let mut o = ok;
    untaint_val(&mut o);
    if o != 0 { Err("lambda is zero".into()) } else { Ok(v) }
}

use crrl::field::{GF25519, GF255e, GF255s, GF448, GFb254, GFp256, GFsecp256k1};

curve!(g_ed25519, ed25519,
    enc: |p| p.encode(),
    modf: |p, k, b| match k {
        b'l' => {
            let l = GF25519::decode_reduce(b);
            let c = p.verif_coords();
            nz(l.iszero(), crrl::ed25519::Point::verif_from_coords(&[c[0] * l, c[1] * l, c[2] * l, c[3] * l]))
        }
        _ => Err("bad modifier".into()),
    },
    extra: |pt, sc, a, rg, put| {
        "vh" => { let p = pt(0, rg)?; let r = pt(1, rg)?; let s = sc(2)?; let k = sc(3)?; Ok(obool(p.verify_helper_vartime(&r, &s, &k))) },
        "pkfp" => { let p = pt(0, rg)?; let sig = bytes(arg(a, 1)?)?; let msg = bytes(arg(a, 2)?)?;
            let pk = crrl::ed25519::PublicKey::from_point(&p);
            Ok(format!("{} {}", ohex(&pk.encode()), obool(pk.verify_raw(&sig, &msg)))) },
        "has_low_order" => { let p = pt(0, rg)?; Ok(ou32(p.has_low_order())) },
        "is_in_subgroup" => { let p = pt(0, rg)?; Ok(ou32(p.is_in_subgroup())) },
        "mont_u" => { let p = pt(0, rg)?; Ok(ohex(&p.to_montgomery_u().encode())) },
        "coords" => { let p = pt(0, rg)?; let c = p.verif_coords();
            Ok(format!("{} {} {} {}", ohex(&c[0].encode()), ohex(&c[1].encode()), ohex(&c[2].encode()), ohex(&c[3].encode()))) },
    });

curve!(g_ed448, ed448,
    enc: |p| p.encode(),
    modf: |p, k, b| match k {
        b'l' => {
            let l = GF448::decode_reduce(b);
            let c = p.verif_coords();
            nz(l.iszero(), crrl::ed448::Point::verif_from_coords(&[c[0] * l, c[1] * l, c[2] * l]))
        }
        _ => Err("bad modifier".into()),
    },
    extra: |pt, sc, a, rg, put| {
        "vh" => { let p = pt(0, rg)?; let r = pt(1, rg)?; let s = sc(2)?; let k = sc(3)?; Ok(obool(p.verify_helper_vartime(&r, &s, &k))) },
        "pkfp" => { let p = pt(0, rg)?; let sig = bytes(arg(a, 1)?)?; let msg = bytes(arg(a, 2)?)?;
            let pk = crrl::ed448::PublicKey::from_point(&p);
            Ok(format!("{} {}", ohex(&pk.encode()), obool(pk.verify_raw(&sig, &msg)))) },
        "has_low_order" => { let p = pt(0, rg)?; Ok(ou32(p.has_low_order())) },
        "is_in_subgroup" => { let p = pt(0, rg)?; Ok(ou32(p.is_in_subgroup())) },
        "mont_u" => { let p = pt(0, rg)?; Ok(ohex(&p.to_montgomery_u().encode())) },
    });

curve!(g_ristretto255, ristretto255,
    enc: |p| p.encode(),
    modf: |p, k, b| match k {
        b'l' => {
            let l = GF25519::decode_reduce(b);
            let c = p.verif_inner().verif_coords();
            nz(l.iszero(), crrl::ristretto255::Point::verif_from_inner(
                &crrl::ed25519::Point::verif_from_coords(&[c[0] * l, c[1] * l, c[2] * l, c[3] * l])))
        }
        // add a (torsion) edwards25519 point, given by its encoding, to the representative
        b't' => {
            match crrl::ed25519::Point::decode(b) {
                Some(t) => Ok(crrl::ristretto255::Point::verif_from_inner(&(p.verif_inner() + t))),
                None => Err("torsion point does not decode".into()),
            }
        }
        _ => Err("bad modifier".into()),
    },
    extra: |pt, sc, a, rg, put| {
        "vh" => { let p = pt(0, rg)?; let r = pt(1, rg)?; let s = sc(2)?; let k = sc(3)?; Ok(obool(p.verify_helper_vartime(&r, &s, &k))) },
        "one_way_map" => { let b = bytes(arg(a, 0)?)?; put(crrl::ristretto255::Point::one_way_map(&b), rg) },
        "inner" => { let p = pt(0, rg)?; Ok(ohex(&p.verif_inner().encode())) },
    });

curve!(g_decaf448, decaf448,
    enc: |p| p.encode(),
    modf: |p, k, b| match k {
        b'l' => {
            let l = GF448::decode_reduce(b);
            let c = p.verif_inner().verif_coords();
            nz(l.iszero(), crrl::decaf448::Point::verif_from_inner(
                &crrl::ed448::Point::verif_from_coords(&[c[0] * l, c[1] * l, c[2] * l])))
        }
        b't' => {
            match crrl::ed448::Point::decode(b) {
                Some(t) => Ok(crrl::decaf448::Point::verif_from_inner(&(p.verif_inner() + t))),
                None => Err("torsion point does not decode".into()),
            }
        }
        _ => Err("bad modifier".into()),
    },
    extra: |pt, sc, a, rg, put| {
        "vh" => { let p = pt(0, rg)?; let r = pt(1, rg)?; let s = sc(2)?; let k = sc(3)?; Ok(obool(p.verify_helper_vartime(&r, &s, &k))) },
        "one_way_map" => { let b = bytes(arg(a, 0)?)?; put(crrl::decaf448::Point::one_way_map(&b), rg) },
        "inner" => { let p = pt(0, rg)?; Ok(ohex(&p.verif_inner().encode())) },
    });

macro_rules! weier_curve {
    ($fname:ident, $m:ident, $F:ty, $xf:path) => {
        curve!($fname, $m,
            enc: |p| p.encode_uncompressed(),
            modf: |p, k, b| match k {
                b'l' => {
                    let l = <$F>::decode_reduce(b);
                    let (x, y, z) = p.to_projective();
                    match crrl::$m::Point::from_projective(x * l, y * l, z * l) {
                        Some(q) => nz(l.iszero(), q),
                        None => Err("from_projective rejected a rescaled point".into()),
                    }
                }
                _ => Err("bad modifier".into()),
            },
            extra: |pt, sc, a, rg, put| {
                "vh" => { let p = pt(0, rg)?; let r = pt(1, rg)?; let s = sc(2)?; let k = sc(3)?; Ok(obool(p.verify_helper_vartime(&r, &s, &k))) },
                "encc" => { let p = pt(0, rg)?; Ok(ohex(&p.encode_compressed())) },
                "to_affine" => {
                    let p = pt(0, rg)?;
                    let (x, y, r) = p.to_affine();
                    Ok(format!("{} {} {}", ohex(&x.encode()), ohex(&y.encode()), ou32(r)))
                },
                "from_affine" => {
                    let x = <$F>::decode_reduce(&bytes(arg(a, 0)?)?);
                    let y = <$F>::decode_reduce(&bytes(arg(a, 1)?)?);
                    let mut p = crrl::$m::Point::BASE;
                    let r = p.set_affine(x, y);
                    Ok(format!("{} {}", ou32(r), ohex(&p.encode_uncompressed())))
                },
                "from_projective" => {
                    let x = <$F>::decode_reduce(&bytes(arg(a, 0)?)?);
                    let y = <$F>::decode_reduce(&bytes(arg(a, 1)?)?);
                    let z = <$F>::decode_reduce(&bytes(arg(a, 2)?)?);
                    let mut p = crrl::$m::Point::BASE;
                    let r = p.set_projective(x, y, z);
                    Ok(format!("{} {}", ou32(r), ohex(&p.encode_uncompressed())))
                },
                // the same constructors, result kept in the destination register (dirty receiver), status prepended
                "set_projective" => {
                    let x = <$F>::decode_reduce(&bytes(arg(a, 0)?)?);
                    let y = <$F>::decode_reduce(&bytes(arg(a, 1)?)?);
                    let z = <$F>::decode_reduce(&bytes(arg(a, 2)?)?);
                    let mut p = crrl::$m::Point::BASE.double();
                    let r = p.set_projective(x, y, z);
                    let o = crrl::$m::Point::from_projective(x, y, z);
                    if o.is_some() != (r != 0) { return Err("from_projective and set_projective disagree".into()); }
                    let e = put(p, rg)?;
                    Ok(format!("{} {}", ou32(r), e))
                },
                "set_affine" => {
                    let x = <$F>::decode_reduce(&bytes(arg(a, 0)?)?);
                    let y = <$F>::decode_reduce(&bytes(arg(a, 1)?)?);
                    let mut p = crrl::$m::Point::BASE.double();
                    let r = p.set_affine(x, y);
                    let o = crrl::$m::Point::from_affine(x, y);
                    if o.is_some() != (r != 0) { return Err("from_affine and set_affine disagree".into()); }
                    let e = put(p, rg)?;
                    Ok(format!("{} {}", ou32(r), e))
                },
                "to_projective" => {
                    let p = pt(0, rg)?;
                    let (x, y, z) = p.to_projective();
                    Ok(format!("{} {} {}", ohex(&x.encode()), ohex(&y.encode()), ohex(&z.encode())))
                },
                "wextra" => { $xf(a, rg) },
            });
    };
}

#[allow(non_snake_case)]
fn weier_extra_p256(a: &[&str], _rg: &mut Vec<crrl::p256::Point>) -> R {
    // xseq <k0> <k1> <n>: x-only sequence P_i = P0 + i*(P1 - P0), P0 = k0*G, P1 = k1*G (public helpers of the truncated
    // signature verification)
    use crrl::p256::{Point, Scalar};
    use crrl::field::GFp256;
    if arg(a, 0)? != "xseq" { return Err("unknown wextra".into()); }
    let k0 = Scalar::decode_reduce(&bytes(arg(a, 1)?)?);
    let k1 = Scalar::decode_reduce(&bytes(arg(a, 2)?)?);
    let n = usizea(arg(a, 3)?)?;
    let p0 = Point::mulgen(&k0);
    let p1 = Point::mulgen(&k1);
    let (x0, x1, xq) = Point::to_x_affine_diff(p0, p1);
    let mut xx = vec![GFp256::ZERO; n];
    let (xn, xn1) = Point::x_sequence_vartime(x0, x1, xq, &mut xx[..]);
    let mut o = String::new();
    for v in [x0, x1, xq, xn, xn1].iter() { o.push_str(&ohex(&v.encode())); o.push(' '); }
    let mut all = Vec::with_capacity(32 * n);
    for v in xx.iter() { all.extend_from_slice(&v.encode()); }
    o.push_str(&ohex(&all));
    Ok(o)
}
#[allow(non_snake_case)]
fn weier_extra_secp256k1(a: &[&str], _rg: &mut Vec<crrl::secp256k1::Point>) -> R {
    // split_theta <scalar>
    let s = crrl::secp256k1::Scalar::decode_reduce(&bytes(arg(a, 0)?)?);
    let (k0, s0, k1, s1) = crrl::secp256k1::Point::verif_split_theta(&s);
    Ok(format!("{} {} {} {}", k0, ou32(s0), k1, ou32(s1)))
}

weier_curve!(g_p256, p256, GFp256, weier_extra_p256);
weier_curve!(g_secp256k1, secp256k1, GFsecp256k1, weier_extra_secp256k1);

macro_rules! jq_curve {
    ($fname:ident, $m:ident, $F:ty, $xf:path) => {
        curve!($fname, $m,
            enc: |p| p.encode(),
            modf: |p, k, b| match k {
                b'l' => {
                    let l = <$F>::decode_reduce(b);
                    let c = p.verif_coords();
                    nz(l.iszero(), crrl::$m::Point::verif_from_coords(&[c[0] * l, c[1] * l, c[2] * l, c[3] * l]))
                }
                // (e,u) and (-e,-u) represent the same group element
                b'n' => {
                    let c = p.verif_coords();
                    Ok(crrl::$m::Point::verif_from_coords(&[-c[0], -c[1], c[2], c[3]]))
                }
                _ => Err("bad modifier".into()),
            },
            extra: |pt, sc, a, rg, put| {
                "mul128" => {
                    let p = pt(0, rg)?; let u = u128a(arg(a, 1)?)?; let v = sc(2)?;
                    put(p.mul128_add_mulgen_vartime(u, &v), rg)
                },
                "mul128_ref" => {
                    let p = pt(0, rg)?; let u = u128a(arg(a, 1)?)?; let v = sc(2)?;
                    put(p * crrl::$m::Scalar::from_u128(u) + crrl::$m::Point::mulgen(&v), rg)
                },
                "hash_to_curve" => {
                    let name = arg(a, 0)?; let name = if name == "-" { "" } else { name };
                    let d = bytes(arg(a, 1)?)?;
                    put(crrl::$m::Point::hash_to_curve(name, &d), rg)
                },
                "map_to_curve" => {
                    let f = <$F>::decode_reduce(&bytes(arg(a, 0)?)?);
                    put(crrl::$m::Point::verif_map_to_curve(&f), rg)
                },
                "coords" => { let p = pt(0, rg)?; let c = p.verif_coords();
                    Ok(format!("{} {} {} {}", ohex(&c[0].encode()), ohex(&c[1].encode()), ohex(&c[2].encode()), ohex(&c[3].encode()))) },
                "pkfp" => { let p = pt(0, rg)?; let sig = bytes(arg(a, 1)?)?; let msg = bytes(arg(a, 2)?)?;
                    let pk = crrl::$m::PublicKey::from_point(&p);
                    Ok(format!("{} {}", ohex(&pk.encode()), obool(pk.verify(&sig, "", &msg)))) },
                "skfs" => { let s = sc(0)?; let sk = crrl::$m::PrivateKey::from_scalar(&s);
                    Ok(format!("{} {}", ohex(&sk.encode()), ohex(&sk.public_key.encode()))) },
                "jextra" => { $xf(a) },
            });
    };
}

fn jextra_jq255e(a: &[&str]) -> R {
    // split_mu <scalar>
    let s = crrl::jq255e::Scalar::decode_reduce(&bytes(arg(a, 0)?)?);
    let (k0, s0, k1, s1) = crrl::jq255e::Point::verif_split_mu(&s);
    Ok(format!("{} {} {} {}", k0, ou32(s0), k1, ou32(s1)))
}
fn jextra_jq255s(_a: &[&str]) -> R { Err("none".into()) }
jq_curve!(g_jq255e, jq255e, GF255e, jextra_jq255e);
jq_curve!(g_jq255s, jq255s, GF255s, jextra_jq255s);

curve!(g_gls254, gls254,
    enc: |p| p.encode(),
    modf: |p, k, b| match k {
        b'l' => {
            let (l, ok) = GFb254::decode_ct(b);
            let mut okk = ok; untaint_val(&mut okk);
            if okk == 0 { return Err("lambda does not decode".into()); }
            let c = p.verif_coords();
            let l2 = l.square();
            nz(l.iszero(), crrl::gls254::Point::verif_from_coords(&[c[0] * l, c[1] * l2, c[2] * l, c[3] * l2]))
        }
        _ => Err("bad modifier".into()),
    },
    extra: |pt, sc, a, rg, put| {
        "mul64mu" => {
            let p = pt(0, rg)?; let u0 = u64a(arg(a, 1)?)?; let u1 = u64a(arg(a, 2)?)?; let v = sc(3)?;
            put(p.mul64mu_add_mulgen_vartime(u0, u1, &v), rg)
        },
        "mul64mu_ref" => {
            let p = pt(0, rg)?; let u0 = u64a(arg(a, 1)?)?; let u1 = u64a(arg(a, 2)?)?; let v = sc(3)?;
            let u = crrl::gls254::Scalar::from_u64(u0) + crrl::gls254::Scalar::from_u64(u1) * crrl::gls254::Scalar::MU;
            put(p * u + crrl::gls254::Point::mulgen(&v), rg)
        },
        "pkfp" => { let p = pt(0, rg)?; let sig = bytes(arg(a, 1)?)?; let msg = bytes(arg(a, 2)?)?;
            let pk = crrl::gls254::PublicKey::from_point(&p);
            Ok(format!("{} {}", ohex(&pk.encode()), obool(pk.verify(&sig, "", &msg)))) },
        "skfs" => { let s = sc(0)?; let sk = crrl::gls254::PrivateKey::from_scalar(&s);
            Ok(format!("{} {}", ohex(&sk.encode()), ohex(&sk.public_key.encode()))) },
        "set_zeta" => { let mut p = pt(0, rg)?; let n = u32a(arg(a, 1)?)?; p.set_zeta(n); put(p, rg) },
        "zeta" => { let p = pt(0, rg)?; let n = u32a(arg(a, 1)?)?; put(p.zeta(n), rg) },
        "split_mu" => {
            let s = sc(0)?;
            let (k0, s0, k1, s1) = crrl::gls254::Point::split_mu(&s);
            Ok(format!("{} {} {} {}", k0, ou32(s0), k1, ou32(s1)))
        },
        "split_mu_odd" => {
            let s = sc(0)?;
            let (k0, s0, k1, s1) = crrl::gls254::Point::split_mu_odd(&s);
            Ok(format!("{} {} {} {}", k0, ou32(s0), k1, ou32(s1)))
        },
        "hash_to_curve" => {
            let name = arg(a, 0)?; let name = if name == "-" { "" } else { name };
            let d = bytes(arg(a, 1)?)?;
            put(crrl::gls254::Point::hash_to_curve(name, &d), rg)
        },
        "map_to_curve" => {
            let (f, ok) = GFb254::decode_ct(&bytes(arg(a, 0)?)?);
            let mut okk = ok; untaint_val(&mut okk);
            if okk == 0 { return Err("field element does not decode".into()); }
            put(crrl::gls254::Point::verif_map_to_curve(&f), rg)
        },
    });

#[derive(Default)]
pub struct CurveRegs {
    ed25519: Vec<crrl::ed25519::Point>, ed448: Vec<crrl::ed448::Point>,
    ristretto255: Vec<crrl::ristretto255::Point>, decaf448: Vec<crrl::decaf448::Point>,
    p256: Vec<crrl::p256::Point>, secp256k1: Vec<crrl::secp256k1::Point>,
    jq255e: Vec<crrl::jq255e::Point>, jq255s: Vec<crrl::jq255s::Point>, gls254: Vec<crrl::gls254::Point>,
}

pub fn dispatch(cv: &str, op: &str, a: &[&str], r: &mut CurveRegs) -> R {
    match cv {
        "ed25519" => g_ed25519(op, a, &mut r.ed25519),
        "ed448" => g_ed448(op, a, &mut r.ed448),
        "ristretto255" => g_ristretto255(op, a, &mut r.ristretto255),
        "decaf448" => g_decaf448(op, a, &mut r.decaf448),
        "p256" => g_p256(op, a, &mut r.p256),
        "secp256k1" => g_secp256k1(op, a, &mut r.secp256k1),
        "jq255e" => g_jq255e(op, a, &mut r.jq255e),
        "jq255s" => g_jq255s(op, a, &mut r.jq255s),
        "gls254" => g_gls254(op, a, &mut r.gls254),
        _ => Err(format!("unknown curve {}", cv)),
    }
}
