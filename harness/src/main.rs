// crrl-exec: thin request executor over the crrl API.
//
// Reads one request per line on stdin:   <family> <args...>
// Writes one response per line on stdout:
//     OK <outputs...> [S<steps>]     normal return
//     PANIC <message>                the library panicked (an observable event)
//     ERR <message>                  malformed/unsupported request (harness-level)
//
// The executor contains no expectations about results: all judgement is made
// by the oracles (Python), which are independent code.

mod util;
mod fields;
mod curves;
mod schemes;
mod hashes;
mod lms;
mod frost;

use std::io::{BufRead, Write};
use std::panic::{catch_unwind, AssertUnwindSafe};
use std::sync::atomic::Ordering;
use std::sync::Mutex;

static LAST_PANIC: Mutex<String> = Mutex::new(String::new());

pub struct State {
    pub fields: fields::FieldRegs,
    pub curves: curves::CurveRegs,
    pub hashes: hashes::HashRegs,
    pub lms: lms::LmsRegs,
}

fn handle(line: &str, st: &mut State) -> util::R {
    let toks: Vec<&str> = line.split_ascii_whitespace().collect();
    if toks.is_empty() {
        return Err("empty request".into());
    }
    match toks[0] {
        "f" => {
            if toks.len() < 3 {
                return Err("f <type> <op> ...".into());
            }
            fields::dispatch(toks[1], toks[2], &toks[3..], &mut st.fields)
        }
        "g" => {
            if toks.len() < 3 {
                return Err("g <curve> <op> ...".into());
            }
            curves::dispatch(toks[1], toks[2], &toks[3..], &mut st.curves)
        }
        "s" => {
            if toks.len() < 3 {
                return Err("s <scheme> <op> ...".into());
            }
            schemes::dispatch(toks[1], toks[2], &toks[3..])
        }
        "l" => {
            if toks.len() < 3 {
                return Err("l <set> <op> ...".into());
            }
            lms::dispatch(toks[1], toks[2], &toks[3..], &mut st.lms)
        }
        "fr" => {
            if toks.len() < 3 {
                return Err("fr <suite> <op> ...".into());
            }
            frost::dispatch(toks[1], toks[2], &toks[3..])
        }
        "h" => {
            if toks.len() < 2 {
                return Err("h <op> ...".into());
            }
            hashes::dispatch(toks[1], &toks[2..], &mut st.hashes)
        }
        "selftest" => {
            // deliberately leaky operations: used to check that the taint
            // instrument is alive (a run that does not flag these is inconclusive)
            let b = util::bytes(util::arg(&toks, 2)?)?;
            if b.is_empty() {
                return Err("need a byte".into());
            }
            static TABLE: [u32; 16] = [3, 1, 4, 1, 5, 9, 2, 6, 5, 3, 5, 8, 9, 7, 9, 3];
            let x = std::hint::black_box(b[0]);
            let mut acc = 0u32;
            match toks[1] {
                "leak_branch" => {
                    if x & 1 == 1 {
                        acc = std::hint::black_box(acc + 17);
                    }
                }
                "leak_index" => {
                    acc = std::hint::black_box(TABLE[(x & 15) as usize]);
                }
                "noleak" => {
                    acc = std::hint::black_box((x as u32).wrapping_mul(2654435761));
                }
                _ => return Err("bad selftest".into()),
            }
            Ok(util::ou32(acc))
        }
        "ping" => Ok("pong".into()),
        "cfg" => {
            let mut s = String::new();
            s.push_str(if cfg!(feature = "m51") { "m51=1 " } else { "m51=0 " });
            s.push_str(if cfg!(feature = "w32") { "w32=1 " } else { "w32=0 " });
            s.push_str(if cfg!(feature = "zz32") { "zz32=1 " } else { "zz32=0 " });
            s.push_str(if cfg!(feature = "clmul") { "clmul=1 " } else { "clmul=0 " });
            s.push_str(if cfg!(target_feature = "avx2") { "avx2=1 " } else { "avx2=0 " });
            s.push_str(if cfg!(debug_assertions) { "dbg=1 " } else { "dbg=0 " });
            s.push_str(if util::on_valgrind() { "vg=1" } else { "vg=0" });
            Ok(s)
        }
        _ => Err(format!("unknown family {}", toks[0])),
    }
}

fn main() {
    let args: Vec<String> = std::env::args().collect();
    for a in &args[1..] {
        if a == "--taint" {
            util::TAINT.store(true, Ordering::Relaxed);
        }
    }
    std::panic::set_hook(Box::new(|info| {
        let msg = if let Some(s) = info.payload().downcast_ref::<&str>() {
            s.to_string()
        } else if let Some(s) = info.payload().downcast_ref::<String>() {
            s.clone()
        } else {
            "?".to_string()
        };
        let loc = info.location().map(|l| format!("{}:{}", l.file(), l.line())).unwrap_or_default();
        *LAST_PANIC.lock().unwrap() = format!("{} @ {}", msg.replace('\n', " "), loc);
    }));
    let stdin = std::io::stdin();
    let stdout = std::io::stdout();
    let mut out = std::io::BufWriter::with_capacity(1 << 16, stdout.lock());
    let mut st = State { fields: Default::default(), curves: Default::default(), hashes: Default::default(), lms: Default::default() };
    for line in stdin.lock().lines() {
        let line = match line {
            Ok(l) => l,
            Err(_) => break,
        };
        if line.is_empty() || line.starts_with('#') {
            // comments are echoed so that request/response files stay aligned
            let _ = writeln!(out, "#");
            continue;
        }
        let r = catch_unwind(AssertUnwindSafe(|| handle(&line, &mut st)));
        let steps = crrl::verif::steps_take();
        match r {
            Ok(Ok(s)) => {
                if steps > 0 {
                    let _ = writeln!(out, "OK {} S{}", s, steps);
                } else {
                    let _ = writeln!(out, "OK {}", s);
                }
            }
            Ok(Err(e)) => {
                let _ = writeln!(out, "ERR {}", e);
            }
            Err(_) => {
                let m = LAST_PANIC.lock().unwrap().clone();
                let _ = writeln!(out, "PANIC {}", m);
            }
        }
    }
    let _ = out.flush();
}
