// Signature / key-exchange entry points.

use crate::util::*;
use crrl::{CryptoRng, RngCore, RngError};

/// A scripted RNG: returns bytes from a tape (cyclically), counts calls, and
/// can be told to panic on its k-th call (fault injection).
pub struct TapeRng {
    pub tape: Vec<u8>,
    pub pos: usize,
    pub calls: usize,
    pub panic_at: Option<usize>,
}

impl TapeRng {
    pub fn new(tape: Vec<u8>) -> Self {
        Self { tape, pos: 0, calls: 0, panic_at: None }
    }
    fn next_byte(&mut self) -> u8 {
        if self.tape.is_empty() {
            return 0;
        }
        let b = self.tape[self.pos % self.tape.len()];
        self.pos += 1;
        b
    }
}

impl RngCore for TapeRng {
    fn next_u32(&mut self) -> u32 {
        let mut b = [0u8; 4];
        self.fill_bytes(&mut b);
        u32::from_le_bytes(b)
    }
    fn next_u64(&mut self) -> u64 {
        let mut b = [0u8; 8];
        self.fill_bytes(&mut b);
        u64::from_le_bytes(b)
    }
    fn fill_bytes(&mut self, dest: &mut [u8]) {
        self.calls += 1;
        if let Some(k) = self.panic_at {
            if self.calls == k {
                panic!("verif: injected RNG fault at call {}", k);
            }
        }
        for d in dest.iter_mut() {
            *d = self.next_byte();
        }
    }
    fn try_fill_bytes(&mut self, dest: &mut [u8]) -> Result<(), RngError> {
        self.fill_bytes(dest);
        Ok(())
    }
}

impl CryptoRng for TapeRng {}

fn name(s: &str) -> &str {
    if s == "-" { "" } else { s }
}

macro_rules! eddsa {
    ($fname:ident, $m:ident, $seedlen:expr, { $($xop:literal => |$xa:ident| $xbody:expr),* $(,)? }) => {
        fn $fname(op: &str, a: &[&str]) -> R {
            use crrl::$m::{PrivateKey, PublicKey};
            match op {
                "pub" => {
                    let seed = bytes(arg(a, 0)?)?;
                    let sk = PrivateKey::from_seed(&seed);
                    Ok(ohex(&sk.public_key.encoded))
                }
                "skdec" => {
                    let b = bytes(arg(a, 0)?)?;
                    match PrivateKey::decode(&b) {
                        Some(sk) => Ok(format!("S {} {}", ohex(&sk.encode()), ohex(&sk.public_key.encode()))),
                        None => Ok("N".into()),
                    }
                }
                "gen" => {
                    let mut rng = TapeRng::new(bytes(arg(a, 0)?)?);
                    let sk = PrivateKey::generate(&mut rng);
                    Ok(format!("{} {}", ohex(&sk.encode()), ohex(&sk.public_key.encode())))
                }
                "sign" => {
                    let seed = bytes(arg(a, 0)?)?;
                    let mode = arg(a, 1)?;
                    let ctx = bytes(arg(a, 2)?)?;
                    let msg = bytes(arg(a, 3)?)?;
                    let sk = PrivateKey::from_seed(&seed);
                    let sig = match mode {
                        "raw" => sk.sign_raw(&msg),
                        "ctx" => sk.sign_ctx(&ctx, &msg),
                        "ph" => sk.sign_ph(&ctx, &msg),
                        _ => return Err("bad mode".into()),
                    };
                    Ok(ohex(&sig))
                }
                "pkdec" => {
                    let b = bytes(arg(a, 0)?)?;
                    match PublicKey::decode(&b) {
                        Some(pk) => Ok(format!("S {}", ohex(&pk.encode()))),
                        None => Ok("N".into()),
                    }
                }
                "verify" => {
                    let pkb = bytes(arg(a, 0)?)?;
                    let sig = bytes(arg(a, 1)?)?;
                    let mode = arg(a, 2)?;
                    let ctx = bytes(arg(a, 3)?)?;
                    let msg = bytes(arg(a, 4)?)?;
                    let pk = match PublicKey::decode(&pkb) {
                        Some(pk) => pk,
                        None => return Ok("NOPK".into()),
                    };
                    let r = match mode {
                        "raw" => pk.verify_raw(&sig, &msg),
                        "ctx" => pk.verify_ctx(&sig, &ctx, &msg),
                        "ph" => pk.verify_ph(&sig, &ctx, &msg),
                        _ => return Err("bad mode".into()),
                    };
                    Ok(obool(r))
                }
                $( $xop => { let $xa = a; $xbody } )*
                _ => Err(format!("unknown op {}", op)),
            }
        }
    };
}

eddsa!(s_ed25519, ed25519, 32, {
    "vtrunc" => |a| {
        use crrl::ed25519::PublicKey;
        let pkb = bytes(arg(a, 0)?)?;
        let sig = bytes(arg(a, 1)?)?;
        let rm = usizea(arg(a, 2)?)?;
        let mode = arg(a, 3)?;
        let ctx = bytes(arg(a, 4)?)?;
        let msg = bytes(arg(a, 5)?)?;
        let pk = match PublicKey::decode(&pkb) {
            Some(pk) => pk,
            None => return Ok("NOPK".into()),
        };
        let r = match mode {
            "raw" => pk.verify_trunc_raw(&sig, rm, &msg),
            "ctx" => pk.verify_trunc_ctx(&sig, rm, &ctx, &msg),
            "ph" => pk.verify_trunc_ph(&sig, rm, &ctx, &msg),
            _ => return Err("bad mode".into()),
        };
        match r {
            Some(s) => Ok(format!("S {}", ohex(&s))),
            None => Ok("N".into()),
        }
    },
    "ux_comp" => |a| {
        // dump a slice [i, j) of the UX_COMP table (hook)
        let i = usizea(arg(a, 0)?)?;
        let j = usizea(arg(a, 1)?)?;
        let t = crrl::ed25519::Point::verif_ux_comp();
        let mut s = String::new();
        for k in i..j.min(t.len()) {
            s.push_str(&format!("{:016x}", t[k]));
        }
        Ok(format!("{} {}", t.len(), s))
    },
});
eddsa!(s_ed448, ed448, 57, {});

macro_rules! ecdsa {
    ($fname:ident, $m:ident, { $($xop:literal => |$xa:ident| $xbody:expr),* $(,)? }) => {
        fn $fname(op: &str, a: &[&str]) -> R {
            use crrl::$m::{PrivateKey, PublicKey};
            match op {
                "skdec" => {
                    let b = bytes(arg(a, 0)?)?;
                    match PrivateKey::decode(&b) {
                        Some(sk) => Ok(format!("S {} {}", ohex(&sk.encode()), ohex(&sk.to_public_key().encode_uncompressed()))),
                        None => Ok("N".into()),
                    }
                }
                "from_seed" => {
                    let b = bytes(arg(a, 0)?)?;
                    let sk = PrivateKey::from_seed(&b);
                    Ok(format!("{} {}", ohex(&sk.encode()), ohex(&sk.to_public_key().encode_compressed())))
                }
                "gen" => {
                    let mut rng = TapeRng::new(bytes(arg(a, 0)?)?);
                    let sk = PrivateKey::generate(&mut rng);
                    Ok(format!("{} {}", ohex(&sk.encode()), ohex(&sk.to_public_key().encode_compressed())))
                }
                "sign" => {
                    let skb = bytes(arg(a, 0)?)?;
                    let hv = bytes(arg(a, 1)?)?;
                    let extra = bytes(arg(a, 2)?)?;
                    let sk = match PrivateKey::decode(&skb) { Some(k) => k, None => return Ok("NOSK".into()) };
                    Ok(ohex(&sk.sign_hash(&hv, &extra)))
                }
                "pkdec" => {
                    let b = bytes(arg(a, 0)?)?;
                    match PublicKey::decode(&b) {
                        Some(pk) => Ok(format!("S {} {}", ohex(&pk.encode_compressed()), ohex(&pk.encode_uncompressed()))),
                        None => Ok("N".into()),
                    }
                }
                "verify" => {
                    let pkb = bytes(arg(a, 0)?)?;
                    let sig = bytes(arg(a, 1)?)?;
                    let hv = bytes(arg(a, 2)?)?;
                    let pk = match PublicKey::decode(&pkb) { Some(k) => k, None => return Ok("NOPK".into()) };
                    Ok(obool(pk.verify_hash(&sig, &hv)))
                }
                $( $xop => { let $xa = a; $xbody } )*
                _ => Err(format!("unknown op {}", op)),
            }
        }
    };
}

ecdsa!(s_p256, p256, {
    "prep" => |a| {
        let sig = bytes(arg(a, 0)?)?;
        match crrl::p256::PrivateKey::prepare_truncate(&sig) {
            Some(s) => Ok(format!("S {}", ohex(&s))),
            None => Ok("N".into()),
        }
    },
    "vtrunc" => |a| {
        let pkb = bytes(arg(a, 0)?)?;
        let sig = bytes(arg(a, 1)?)?;
        let rm = usizea(arg(a, 2)?)?;
        let hv = bytes(arg(a, 3)?)?;
        let pk = match crrl::p256::PublicKey::decode(&pkb) { Some(k) => k, None => return Ok("NOPK".into()) };
        match pk.verify_trunc_hash(&sig, rm, &hv) {
            Some(s) => Ok(format!("S {}", ohex(&s))),
            None => Ok("N".into()),
        }
    },
});
ecdsa!(s_secp256k1, secp256k1, {});

macro_rules! schnorr {
    ($fname:ident, $m:ident) => {
        fn $fname(op: &str, a: &[&str]) -> R {
            use crrl::$m::{PrivateKey, PublicKey};
            match op {
                "skdec" => {
                    let b = bytes(arg(a, 0)?)?;
                    match PrivateKey::decode(&b) {
                        Some(sk) => Ok(format!("S {} {}", ohex(&sk.encode()), ohex(&sk.public_key.encode()))),
                        None => Ok("N".into()),
                    }
                }
                "gen" => {
                    let mut rng = TapeRng::new(bytes(arg(a, 0)?)?);
                    let sk = PrivateKey::generate(&mut rng);
                    Ok(format!("{} {}", ohex(&sk.encode()), ohex(&sk.public_key.encode())))
                }
                "sign" | "sign_seeded" | "sign_rand" => {
                    let skb = bytes(arg(a, 0)?)?;
                    let sk = match PrivateKey::decode(&skb) { Some(k) => k, None => return Ok("NOSK".into()) };
                    if op == "sign" {
                        let d = bytes(arg(a, 2)?)?;
                        Ok(ohex(&sk.sign(name(arg(a, 1)?), &d)))
                    } else if op == "sign_seeded" {
                        let seed = bytes(arg(a, 1)?)?;
                        let d = bytes(arg(a, 3)?)?;
                        Ok(ohex(&sk.sign_seeded(&seed, name(arg(a, 2)?), &d)))
                    } else {
                        let mut rng = TapeRng::new(bytes(arg(a, 1)?)?);
                        let d = bytes(arg(a, 3)?)?;
                        Ok(ohex(&sk.sign_randomized(&mut rng, name(arg(a, 2)?), &d)))
                    }
                }
                "pkdec" => {
                    let b = bytes(arg(a, 0)?)?;
                    match PublicKey::decode(&b) {
                        Some(pk) => Ok(format!("S {}", ohex(&pk.encode()))),
                        None => Ok("N".into()),
                    }
                }
                "verify" => {
                    let pkb = bytes(arg(a, 0)?)?;
                    let sig = bytes(arg(a, 1)?)?;
                    let d = bytes(arg(a, 3)?)?;
                    let pk = match PublicKey::decode(&pkb) { Some(k) => k, None => return Ok("NOPK".into()) };
                    Ok(obool(pk.verify(&sig, name(arg(a, 2)?), &d)))
                }
                "ecdh" => {
                    let skb = bytes(arg(a, 0)?)?;
                    let peer = bytes(arg(a, 1)?)?;
                    let sk = match PrivateKey::decode(&skb) { Some(k) => k, None => return Ok("NOSK".into()) };
                    let (key, ok) = sk.ECDH(&peer);
                    Ok(format!("{} {}", ohex(&key), ou32(ok)))
                }
                _ => Err(format!("unknown op {}", op)),
            }
        }
    };
}

schnorr!(s_jq255e, jq255e);
schnorr!(s_jq255s, jq255s);
schnorr!(s_gls254, gls254);

fn arr<const N: usize>(b: &[u8]) -> Result<[u8; N], String> {
    if b.len() != N {
        return Err(format!("expected {} bytes", N));
    }
    let mut r = [0u8; N];
    r.copy_from_slice(b);
    Ok(r)
}

pub fn dispatch(sch: &str, op: &str, a: &[&str]) -> R {
    match sch {
        "ed25519" => s_ed25519(op, a),
        "ed448" => s_ed448(op, a),
        "p256" => s_p256(op, a),
        "secp256k1" => s_secp256k1(op, a),
        "jq255e" => s_jq255e(op, a),
        "jq255s" => s_jq255s(op, a),
        "gls254" => s_gls254(op, a),
        "x25519" => {
            let mut p = arr::<32>(&bytes(op)?)?;
            let mut s = arr::<32>(&bytes(arg(a, 0)?)?)?;
            // arrays are copies: re-taint if the source was secret
            if op.starts_with('!') { taint(&mut p); }
            if arg(a, 0)?.starts_with('!') { taint(&mut s); }
            Ok(ohex(&crrl::x25519::x25519(&p, &s)))
        }
        "x25519_base" => {
            let mut s = arr::<32>(&bytes(op)?)?;
            if op.starts_with('!') { taint(&mut s); }
            Ok(ohex(&crrl::x25519::x25519_base(&s)))
        }
        "x448" => {
            let mut p = arr::<56>(&bytes(op)?)?;
            let mut s = arr::<56>(&bytes(arg(a, 0)?)?)?;
            if op.starts_with('!') { taint(&mut p); }
            if arg(a, 0)?.starts_with('!') { taint(&mut s); }
            Ok(ohex(&crrl::x448::x448(&p, &s)))
        }
        "x448_base" => {
            let mut s = arr::<56>(&bytes(op)?)?;
            if op.starts_with('!') { taint(&mut s); }
            Ok(ohex(&crrl::x448::x448_base(&s)))
        }
        _ => Err(format!("unknown scheme {}", sch)),
    }
}
