#!/usr/bin/env python3
"""
Independent pure-Python reference model (oracle) for crrl's GLS254 module.

Subject: GF(2^127) = GF(2)[z]/(1 + z^63 + z^127), GF(2^254) = GF(2^127)[u]/(1 + u + u^2)
and the prime-order group GLS254 (crrl src/gls254.rs, fields in
src/backend/w64/gfb254_m64.rs).

Independence notes
------------------
* Field elements are Python ints used as GF(2)[z] polynomials (bit i = coefficient
  of z^i).  Products are carry-less multiplications (bit-spreading trick on big
  ints) followed by reduction modulo z^127 + z^63 + 1.  sqrt / trace / halftrace /
  Frobenius powers are obtained from their *definitions* (x^(2^126), sum x^(2^i),
  sum x^(4^i)) tabulated as GF(2)-linear maps at import time.
* The curve is handled as a general Weierstrass curve in characteristic 2,
     y^2 + x*y = x^3 + a*x^2 + b*x      (a1 = 1, a2 = a = u, a4 = b = 1 + z^54, a6 = 0)
  with the textbook affine chord/tangent law, None = point at infinity.
  A group element is the affine curve point Q = P + N (P of order dividing r,
  N = (0,0) the 2-torsion point); the group neutral is N itself, i.e. ((0,0),(0,0)).
  Group addition is  Q1 (+) Q2 = Q1 + Q2 + N  (two affine curve additions).
  crrl's (X:S:Z:T) formulas are NOT used anywhere; (x,s) / w only appear at the
  boundary (to_xs / from_xs / encode / decode).
* mul() is a faster scalar multiplication (own Lopez-Dahab style projective
  formulas derived from the affine law, GLV split with the endomorphism, wNAF);
  mul_slow() is plain affine double-and-add on group elements.  The self-test
  cross-checks them.

Representation
--------------
  GF(2^127): int in [0, 2^127)
  GF(2^254): tuple (x0, x1) meaning x0 + x1*u
  group element: ((x0,x1),(y0,y1)) affine point of the curve with Tr(x) = 0;
                 GLS254.neutral = ((0,0),(0,0)); decode() returns None on failure.
  scalars: Python ints (reduced mod r where it matters)

Run `python3 ref_gls.py` for the self-test (all KATs of crrl's gls254.rs test module,
field identities of gfb254_m64.rs tests, cross-checks).  `--quick` skips the
1000-iteration multiplication chain.
"""

import hashlib
import json
import os
import sys
import time

# ======================================================================
# GF(2^127)
# ======================================================================

M127 = (1 << 127) - 1

_T01 = bytes.maketrans(b'01', b'\x00\x01')
_TPAR = bytes(0x30 + (i & 1) for i in range(256))
_int_from_bytes = int.from_bytes


def _spread(a):
    """bit i of a -> byte slot i (value 0/1) of the result."""
    return _int_from_bytes(format(a, 'b').encode().translate(_T01), 'big')


def _unspread(p, nslots):
    """parity of each byte slot -> bit."""
    return int(p.to_bytes(nslots, 'big').translate(_TPAR), 2)


def _red(c):
    """Reduce a polynomial of degree <= 253 modulo z^127 + z^63 + 1."""
    h = c >> 127
    c = (c & M127) ^ h ^ (h << 63)
    h = c >> 127
    return (c & M127) ^ h ^ (h << 63)


def _red_any(c):
    """Reduce a polynomial of any degree."""
    while c >> 127:
        h = c >> 127
        c = (c & M127) ^ h ^ (h << 63)
    return c


def clmul(a, b):
    """Carry-less product of two polynomials of degree <= 127 (ints < 2^128)."""
    return _unspread(_spread(a) * _spread(b), 255)


def clmul_slow(a, b):
    """Bit-by-bit carry-less product (reference for the spreading trick)."""
    r = 0
    while b:
        if b & 1:
            r ^= a
        a <<= 1
        b >>= 1
    return r


def b127_mul(a, b):
    return _red(int((_spread(a) * _spread(b)).to_bytes(253, 'big').translate(_TPAR), 2))


def b127_mul_slow(a, b):
    return _red_any(clmul_slow(a, b))


def b127_sq_def(a):
    # reading the binary digits of a in base 4 inserts a zero between bits: a(z^2)
    return _red(int(format(a, 'b'), 4))


def _lin_table(images):
    """Build byte-indexed tables for the GF(2)-linear map z^i -> images[i], i < 128."""
    images = list(images) + [0] * (128 - len(images))
    tabs = []
    for j in range(16):
        t = [0] * 256
        for v in range(1, 256):
            low = v & -v
            t[v] = t[v ^ low] ^ images[8 * j + low.bit_length() - 1]
        tabs.append(t)
    return tabs


def _lin_apply(tabs, a):
    b = a.to_bytes(16, 'little')
    return (tabs[0][b[0]] ^ tabs[1][b[1]] ^ tabs[2][b[2]] ^ tabs[3][b[3]]
            ^ tabs[4][b[4]] ^ tabs[5][b[5]] ^ tabs[6][b[6]] ^ tabs[7][b[7]]
            ^ tabs[8][b[8]] ^ tabs[9][b[9]] ^ tabs[10][b[10]] ^ tabs[11][b[11]]
            ^ tabs[12][b[12]] ^ tabs[13][b[13]] ^ tabs[14][b[14]] ^ tabs[15][b[15]])


def _compose_basis(tabs, times):
    out = []
    for i in range(127):
        v = 1 << i
        for _ in range(times):
            v = _lin_apply(tabs, v)
        out.append(v)
    return out


# x -> x^(2^k) tables, built from the squaring map only.
_SQ1 = _lin_table([b127_sq_def(1 << i) for i in range(127)])


def b127_sq(a):
    """a^2 (squaring is GF(2)-linear: table of the images of z^i)."""
    return _lin_apply(_SQ1, a)


_SQ3 = _lin_table(_compose_basis(_SQ1, 3))
_SQ6 = _lin_table(_compose_basis(_SQ3, 2))
_SQ12 = _lin_table(_compose_basis(_SQ6, 2))
_SQ24 = _lin_table(_compose_basis(_SQ12, 2))
_SQ48 = _lin_table(_compose_basis(_SQ24, 2))


def _sqrt_basis():
    out = []
    for i in range(127):
        v = 1 << i                       # x^(2^126), 126 = 48 + 48 + 24 + 6
        v = _lin_apply(_SQ48, v)
        v = _lin_apply(_SQ48, v)
        v = _lin_apply(_SQ24, v)
        v = _lin_apply(_SQ6, v)
        out.append(v)
    return out


_SQRT = _lin_table(_sqrt_basis())


def b127_sqrt(a):
    """Unique square root: a^(2^126)."""
    return _lin_apply(_SQRT, a)


def b127_inv(a):
    """a^(2^127 - 2) (Itoh-Tsujii chain 1,2,3,6,12,24,48,96,120,126); inv(0) = 0."""
    x1 = a
    x2 = b127_mul(_lin_apply(_SQ1, x1), x1)
    x3 = b127_mul(_lin_apply(_SQ1, x2), x1)
    x6 = b127_mul(_lin_apply(_SQ3, x3), x3)
    x12 = b127_mul(_lin_apply(_SQ6, x6), x6)
    x24 = b127_mul(_lin_apply(_SQ12, x12), x12)
    x48 = b127_mul(_lin_apply(_SQ24, x24), x24)
    x96 = b127_mul(_lin_apply(_SQ48, x48), x48)
    x120 = b127_mul(_lin_apply(_SQ24, x96), x24)
    x126 = b127_mul(_lin_apply(_SQ6, x120), x6)
    return _lin_apply(_SQ1, x126)


def b127_inv_slow(a):
    """a^(2^127-2) by plain square-and-multiply (reference)."""
    r = 1
    x = a
    for _ in range(126):
        x = b127_sq(x)
        r = b127_mul_slow(r, x)
    return r


def b127_div(a, b):
    return b127_mul(a, b127_inv(b))


def b127_trace_def(a):
    """Trace by definition: sum_{i=0}^{126} a^(2^i) (an element of {0,1})."""
    t = 0
    x = a
    for _ in range(127):
        t ^= x
        x = b127_sq(x)
    return t


def b127_halftrace_def(a):
    """Half-trace by definition: sum_{i=0}^{63} a^(4^i)."""
    t = 0
    x = a
    for _ in range(64):
        t ^= x
        x = b127_sq(b127_sq(x))
    return t


def _trace_mask():
    m = 0
    for i in range(127):
        t = b127_trace_def(1 << i)
        assert t in (0, 1)
        m |= t << i
    return m


_TRMASK = _trace_mask()
_HALFTRACE = _lin_table([b127_halftrace_def(1 << i) for i in range(127)])


def b127_trace(a):
    return bin(a & _TRMASK).count('1') & 1


def b127_halftrace(a):
    """H(a) = sum_{i=0}^{63} a^(4^i); H(a)^2 + H(a) = a + Tr(a)."""
    return _lin_apply(_HALFTRACE, a)


SB127 = 1 | (1 << 27)      # sqrt(b) = 1 + z^27
B127 = 1 | (1 << 54)       # b = 1 + z^54
_INV_Z = b127_inv(2)
_INV_Z2 = b127_inv(4)


def b127_mul_sb(a):
    return _red(a ^ (a << 27))


def b127_mul_b(a):
    return _red(a ^ (a << 54))


def b127_div_z(a):
    return b127_mul(a, _INV_Z)


def b127_div_z2(a):
    return b127_mul(a, _INV_Z2)


def b127_encode(a):
    assert 0 <= a <= M127
    return a.to_bytes(16, 'little')


def b127_decode(b):
    b = bytes(b)
    if len(b) != 16 or (b[15] & 0x80):
        return None
    return int.from_bytes(b, 'little')


def b127_decode_reduce(b):
    """16 bytes, bit 127 accepted and reduced (z^127 = 1 + z^63) -- crrl's internal
    set_decode16_reduce semantics; handy for replaying the Rust field tests."""
    assert len(b) == 16
    return _red_any(int.from_bytes(b, 'little'))


# ======================================================================
# GF(2^254) = GF(2^127)[u]/(u^2 + u + 1); elements are tuples (x0, x1)
# ======================================================================

B254_ZERO = (0, 0)
B254_ONE = (1, 0)
B254_U = (0, 1)


def b254_add(a, b):
    return (a[0] ^ b[0], a[1] ^ b[1])


def b254_mul(a, b):
    a0, a1 = a
    b0, b1 = b
    # (a0 + a1 u)(b0 + b1 u) = (a0b0 + a1b1) + (a0b1 + a1b0 + a1b1) u
    # Karatsuba in the spread domain: slot values stay < 256 (<= 127 + 127).
    sa0 = _spread(a0)
    sa1 = _spread(a1)
    sb0 = _spread(b0)
    sb1 = _spread(b1)
    p00 = sa0 * sb0
    p11 = sa1 * sb1
    pss = (sa0 ^ sa1) * (sb0 ^ sb1)
    c0 = int((p00 + p11).to_bytes(253, 'big').translate(_TPAR), 2)
    c1 = int((pss + p00).to_bytes(253, 'big').translate(_TPAR), 2)
    return (_red(c0), _red(c1))


def b254_mul_slow(a, b):
    a0, a1 = a
    b0, b1 = b
    m = b127_mul_slow
    return (m(a0, b0) ^ m(a1, b1), m(a0, b1) ^ m(a1, b0) ^ m(a1, b1))


def b254_sq(a):
    t = b127_sq(a[1])
    return (b127_sq(a[0]) ^ t, t)


def b254_phi(a):
    """Frobenius of GF(2^254)/GF(2^127): a^(2^127) = a0 + a1*(u+1)."""
    return (a[0] ^ a[1], a[1])


def b254_inv(a):
    """1/a = phi(a)/N(a), N(a) = a*phi(a) = a0^2 + a0 a1 + a1^2 in GF(2^127). inv(0)=0."""
    a0, a1 = a
    n = b127_sq(a0 ^ a1) ^ b127_mul(a0, a1)
    ni = b127_inv(n)
    return (b127_mul(a0 ^ a1, ni), b127_mul(a1, ni))


def b254_div(a, b):
    return b254_mul(a, b254_inv(b))


def b254_sqrt(a):
    # sqrt is additive and sqrt(u) = u + 1 (since (u+1)^2 = u^2 + 1 = u)
    d0 = b127_sqrt(a[0])
    d1 = b127_sqrt(a[1])
    return (d0 ^ d1, d1)


def b254_trace(a):
    """Absolute trace of GF(2^254) = Tr_127(a + phi(a)) = Tr_127(a1)."""
    return b127_trace(a[1])


def b254_trace_def(a):
    t = B254_ZERO
    x = a
    for _ in range(254):
        t = b254_add(t, x)
        x = b254_sq(x)
    assert t in ((0, 0), (1, 0))
    return t[0]


def b254_qsolve(a):
    """Documented semantics of GFb254::qsolve: a solution x of
           x^2 + x = a + u*Tr(a)
    (always solvable; when Tr(a) = 0 this is x^2 + x = a, when Tr(a) = 1 it is
    x^2 + x = a + u).  The doc comment leaves unspecified which of the two solutions
    (x, x+1) is returned.  This function returns the one the commented algorithm of
    crrl produces:  x1 = H(a1) (+1 if Tr(H(a1)) != Tr(a0)),  x0 = H(a0 + x1^2)
    with H the half-trace sum_{i<64} t^(4^i).  Use b254_qsolve_ok() to check a
    candidate against the documented (looser) contract."""
    a0, a1 = a
    x1 = b127_halftrace(a1)
    x1 ^= b127_trace(x1) ^ b127_trace(a0)
    x0 = b127_halftrace(a0 ^ b127_sq(x1))
    return (x0, x1)


def b254_qsolve_ok(a, x):
    """True iff x satisfies the documented contract x^2 + x = a + u*Tr(a)."""
    lhs = b254_add(b254_sq(x), x)
    return lhs == (a[0], a[1] ^ b254_trace(a))


def b254_mul_b127(a, c):
    return (b127_mul(a[0], c), b127_mul(a[1], c))


def b254_mul_sb(a):
    return (b127_mul_sb(a[0]), b127_mul_sb(a[1]))


def b254_mul_b(a):
    return (b127_mul_b(a[0]), b127_mul_b(a[1]))


def b254_div_z(a):
    return (b127_div_z(a[0]), b127_div_z(a[1]))


def b254_div_z2(a):
    return (b127_div_z2(a[0]), b127_div_z2(a[1]))


def b254_mul_u(a):
    # (a0 + a1 u) u = a1 + (a0 + a1) u
    return (a[1], a[0] ^ a[1])


def b254_mul_u1(a):
    # (a0 + a1 u)(u + 1) = (a0 + a1) + a0 u
    return (a[0] ^ a[1], a[0])


def b254_mul_selfphi(a):
    """a * a^(2^127) (the norm down to GF(2^127)); returns a GF(2^127) int."""
    p = b254_mul(a, b254_phi(a))
    assert p[1] == 0
    return p[0]


def b254_encode(a):
    return b127_encode(a[0]) + b127_encode(a[1])


def b254_decode(b):
    b = bytes(b)
    if len(b) != 32:
        return None
    x0 = b127_decode(b[:16])
    x1 = b127_decode(b[16:])
    if x0 is None or x1 is None:
        return None
    return (x0, x1)


def b254_decode_reduce(b):
    assert len(b) == 32
    return (b127_decode_reduce(b[:16]), b127_decode_reduce(b[16:]))


# ======================================================================
# GLS254 group
# ======================================================================

_add = b254_add
_mul = b254_mul
_sq = b254_sq


def _blake2s(*parts):
    h = hashlib.blake2s(digest_size=32)
    for p in parts:
        h.update(p)
    return h.digest()


class GLS254Group:
    enc_len = 32

    def __init__(self):
        self.r = 2**253 + 83877821160623817322862211711964450037
        # Scalar::MU copied from crrl (verified in the self-test: mu^2 = -1 mod r,
        # mu = s/t with s^2 + t^2 = r, and zeta(P) = mu*P with this model's zeta).
        self.mu = 0x17E6D0D00F54BC939F58BDDA363FE4991EEFADF1FAE163FC1B8487FC89A1F614
        # s, t from the split_mu comment: s^2 + t^2 = r, mu = s/t mod r
        self.es = 85070591730234615854573802599387326102
        self.et = 85070591730234615877113501116496779625
        self.a = (0, 1)                 # a = u
        self.b = (B127, 0)              # b = 1 + z^54
        self.sb = (SB127, 0)            # sqrt(b) = 1 + z^27
        self.N = (B254_ZERO, B254_ZERO)  # curve point (0,0), the group neutral
        self.neutral = self.N
        # Conventional generator: taken from its encoding (test vector in `mul`),
        # cross-checked in the self-test against the Point::BASE X,S constants.
        self.base = self.decode(bytes.fromhex(
            '797d4a56f3e74d615aad09b2f7dd600af7f64865a867c511262181889b6cc133'))
        assert self.base is not None

    # ------------------------------------------------------------------
    # Plain curve arithmetic on E: y^2 + xy = x^3 + a x^2 + b x (None = infinity)
    # ------------------------------------------------------------------

    def on_curve(self, P):
        if P is None:
            return True
        x, y = P
        lhs = _add(_sq(y), _mul(x, y))
        x2 = _sq(x)
        rhs = _add(_add(_mul(x2, x), _mul(self.a, x2)), _mul(self.b, x))
        return lhs == rhs

    def cneg(self, P):
        if P is None:
            return None
        x, y = P
        return (x, _add(y, x))

    def cdbl(self, P):
        if P is None:
            return None
        x, y = P
        if x == B254_ZERO:
            return None                       # 2*(0,0) = infinity
        lam = b254_div(_add(_add(_sq(x), self.b), y), x)
        x3 = _add(_add(_sq(lam), lam), self.a)
        y3 = _add(_add(_mul(lam, _add(x, x3)), x3), y)
        return (x3, y3)

    def cadd(self, P, Q):
        if P is None:
            return Q
        if Q is None:
            return P
        x1, y1 = P
        x2, y2 = Q
        if x1 == x2:
            if y1 == y2:
                return self.cdbl(P)
            return None                       # Q = -P = (x1, y1 + x1)
        lam = b254_div(_add(y1, y2), _add(x1, x2))
        x3 = _add(_add(_add(_add(_sq(lam), lam), self.a), x1), x2)
        y3 = _add(_add(_mul(lam, _add(x1, x3)), x3), y1)
        return (x3, y3)

    def cmul(self, k, P):
        """Plain affine double-and-add on the curve, k >= 0."""
        R = None
        for i in range(k.bit_length() - 1, -1, -1):
            R = self.cdbl(R)
            if (k >> i) & 1:
                R = self.cadd(R, P)
        return R

    # ------------------------------------------------------------------
    # Group elements: affine points of the coset E[r] + N
    # ------------------------------------------------------------------

    def is_valid(self, P):
        """On the curve and in the coset E[r]+N.  E has order 2r and 2E = E[r];
        (x,y) is in 2E iff Tr(x) = Tr(a) = 1, hence the coset is Tr(x) = 0."""
        if P is None:
            return False
        return self.on_curve(P) and b254_trace(P[0]) == 0

    def _tors(self, P):
        """group element -> r-torsion curve point (None for the neutral)."""
        return self.cadd(P, self.N)

    def _untors(self, T):
        return self.cadd(T, self.N)

    def add(self, P, Q):
        return self.cadd(self.cadd(P, Q), self.N)

    def neg(self, P):
        return self.cneg(P)

    def sub(self, P, Q):
        return self.add(P, self.cneg(Q))

    def dbl(self, P):
        return self.cadd(self.cdbl(P), self.N)

    def eq(self, P, Q):
        return P == Q

    def is_neutral(self, P):
        return P == self.N

    def mul_slow(self, k, P):
        """Affine double-and-add on group elements (k reduced mod r)."""
        k %= self.r
        R = self.neutral
        for i in range(k.bit_length() - 1, -1, -1):
            R = self.dbl(R)
            if (k >> i) & 1:
                R = self.add(R, P)
        return R

    # ---- (x, s) coordinates and the w encoding ------------------------

    def to_xs(self, P):
        """(x, s) with s = y + x^2 + a x + b; the neutral is (0, b)."""
        x, y = P
        s = _add(_add(_add(y, _sq(x)), _mul(self.a, x)), self.b)
        return (x, s)

    def from_xs(self, x, s):
        y = _add(_add(_add(s, _sq(x)), _mul(self.a, x)), self.b)
        P = (x, y)
        return P if self.is_valid(P) else None

    def to_w(self, P):
        x, s = self.to_xs(P)
        if x == B254_ZERO:
            return B254_ZERO
        return b254_sqrt(b254_div(s, x))

    def encode(self, P):
        return b254_encode(self.to_w(P))

    def from_w(self, w):
        """Inverse of to_w, derived from w^2 = s/x and the curve equation:
        substituting y = x^2 + (a + w^2) x + b into the curve equation gives
        (x^2 + d x + b)^2 = 0 with d = w^2 + w + a, so x = d*f with
        f^2 + f = b/d^2 (needs Tr(b/d^2) = 0); of the two roots x, x + d exactly
        one has Tr(x) = 0 (Tr(d) = 1), i.e. lies in the coset E[r]+N."""
        if w == B254_ZERO:
            return self.neutral
        d = _add(_add(_sq(w), w), self.a)          # never 0: Tr(d) = Tr(a) = 1
        e = b254_div(self.b, _sq(d))
        if b254_trace(e) != 0:
            return None
        f = b254_qsolve(e)
        assert _add(_sq(f), f) == e
        x = _mul(d, f)
        if b254_trace(x) == 1:
            x = _add(x, d)
        s = _mul(x, _sq(w))
        P = self.from_xs(x, s)
        assert P is not None
        return P

    def decode(self, b):
        w = b254_decode(b)
        if w is None:
            return None
        return self.from_w(w)

    # ---- endomorphism ---------------------------------------------------

    def cpsi(self, P):
        """psi(x,y) = (phi(x), phi(y) + u*phi(x)), phi = Frobenius over GF(2^127)."""
        if P is None:
            return None
        x, y = P
        px = b254_phi(x)
        return (px, _add(b254_phi(y), b254_mul_u(px)))

    def zeta(self, P, neg=False):
        """Point::zeta(neg): multiplication by mu, then negation if neg.
        psi(N) = N so psi maps the coset E[r]+N to itself."""
        Q = self.cpsi(P)
        return self.cneg(Q) if neg else Q

    # ---- scalar splitting (k = k0 + k1*mu) ------------------------------

    def split_mu(self, k):
        """Signed (k0, k1) with k = k0 + k1*mu mod r, as described in the crrl
        comment: c = round(k*t/r), d = round(k*s/r), k0 = k - d*s - c*t,
        k1 = d*t - c*s  (round(x/r) = floor((x + (r-1)/2)/r))."""
        r, s, t = self.r, self.es, self.et
        k %= r
        hr = (r - 1) // 2
        c = (k * t + hr) // r
        d = (k * s + hr) // r
        return (k - d * s - c * t, d * t - c * s)

    def split_mu_odd(self, k):
        """Signed odd (k0, k1) with k = k0 + k1*mu mod r (Point::split_mu_odd)."""
        r = self.r
        m = ((k - (self.mu + 1)) * pow(2, -1, r)) % r
        c0, c1 = self.split_mu(m)
        return (2 * c0 + 1, 2 * c1 + 1)

    # ---- faster scalar multiplication ------------------------------------
    # Lopez-Dahab style projective points (X, Y, Z): x = X/Z, y = Y/Z^2,
    # formulas derived from the affine law above for this curve shape.

    def _ld_dbl(self, P):
        if P is None:
            return None
        X, Y, Z = P
        if X == B254_ZERO:
            return None
        X2 = _sq(X)
        bZ2 = b254_mul_b(_sq(Z))
        L = _add(_add(X2, bZ2), Y)               # lambda = L / D
        D = _mul(X, Z)
        Z3 = _sq(D)
        LD = _mul(L, D)
        X3 = _add(_add(_sq(L), LD), b254_mul_u(Z3))
        Y3 = _add(_mul(_mul(Z3, X2), _add(X2, bZ2)), _mul(X3, _add(LD, Z3)))
        return (X3, Y3, Z3)

    def _ld_madd(self, P, Q):
        """P projective + Q affine (Q not None)."""
        if P is None:
            return (Q[0], Q[1], B254_ONE)
        X1, Y1, Z1 = P
        x2, y2 = Q
        Z1s = _sq(Z1)
        A = _add(Y1, _mul(y2, Z1s))
        Bv = _add(X1, _mul(x2, Z1))
        if Bv == B254_ZERO:
            if A == B254_ZERO:
                return self._ld_dbl((x2, y2, B254_ONE))
            return None
        C = _mul(Z1, Bv)
        Z3 = _sq(C)
        AC = _mul(A, C)
        X3 = _add(_add(_add(_sq(A), AC), b254_mul_u(Z3)), _mul(_sq(Bv), C))
        Y3 = _add(_mul(_add(AC, Z3), _add(X3, _mul(x2, Z3))),
                  _mul(_add(x2, y2), _sq(Z3)))
        return (X3, Y3, Z3)

    def _ld_affine(self, P):
        if P is None:
            return None
        X, Y, Z = P
        zi = b254_inv(Z)
        return (_mul(X, zi), _mul(Y, _sq(zi)))

    @staticmethod
    def _wnaf(n, w=4):
        """Signed odd digits (|d| < 2^(w-1)), least significant first; n >= 0."""
        out = []
        m = 1 << w
        while n:
            if n & 1:
                d = n & (m - 1)
                if d >= m >> 1:
                    d -= m
                n -= d
            else:
                d = 0
            out.append(d)
            n >>= 1
        return out

    def _tmul(self, k, T):
        """k*T for T in E[r] (affine or None): GLV split + interleaved wNAF."""
        k %= self.r
        if T is None or k == 0:
            return None
        k0, k1 = self.split_mu(k)
        # odd multiples T, 3T, 5T, 7T (affine)
        T2 = self.cdbl(T)
        tab = [T]
        for _ in range(3):
            tab.append(self.cadd(tab[-1], T2))
        ztab = [self.cpsi(Q) for Q in tab]
        if k0 < 0:
            k0 = -k0
            tab = [self.cneg(Q) for Q in tab]
        if k1 < 0:
            k1 = -k1
            ztab = [self.cneg(Q) for Q in ztab]
        ntab = [self.cneg(Q) for Q in tab]
        nztab = [self.cneg(Q) for Q in ztab]
        d0 = self._wnaf(k0)
        d1 = self._wnaf(k1)
        n = max(len(d0), len(d1))
        d0 += [0] * (n - len(d0))
        d1 += [0] * (n - len(d1))
        R = None
        for i in range(n - 1, -1, -1):
            R = self._ld_dbl(R)
            e = d0[i]
            if e > 0:
                R = self._ld_madd(R, tab[e >> 1])
            elif e < 0:
                R = self._ld_madd(R, ntab[(-e) >> 1])
            e = d1[i]
            if e > 0:
                R = self._ld_madd(R, ztab[e >> 1])
            elif e < 0:
                R = self._ld_madd(R, nztab[(-e) >> 1])
        return self._ld_affine(R)

    def mul(self, k, P):
        """k*P in the group (k any int, reduced mod r)."""
        return self._untors(self._tmul(k, self._tors(P)))

    def mulgen(self, k):
        return self.mul(k, self.base)

    # ---- map_to_curve / hash_to_curve -------------------------------------

    def map_to_curve(self, c):
        """Point::map_to_curve (algorithm taken from the commentary inside the Rust
        function body; it is a private function with a non-descriptive doc comment)."""
        c0, c1 = c
        orig_trace = c1 & 1
        c1 = (c1 | 1) & ~2                      # Tr(c) = 1, Tr(c/z) = 0
        c = (c0, c1)
        m1 = c
        m2 = _add(c, (4, 0))                    # c + z^2
        m3 = _add(c, b254_div_z2(_sq(c)))       # c + c^2/z^2
        m = e = None
        for mi in (m1, m2, m3):
            ei = b254_div(self.b, mi)
            if b254_trace(ei) == 0:
                m, e = mi, ei
                break
        assert m is not None                    # e1 + e2 + e3 = 0
        d = b254_sqrt(m)
        # w^2 + w = d + a ; select the solution whose w0 has lsb = orig_trace
        w = b254_qsolve(d)
        assert _add(_add(_sq(w), w), self.a) == d
        w = ((w[0] & ~1) | orig_trace, w[1])
        # now finish like a decoding of w (d = w^2 + w + a, e = b/d^2 = b/m)
        f = b254_qsolve(e)
        assert _add(_sq(f), f) == e
        x = _mul(d, f)
        if b254_trace(x) == 1:
            x = _add(x, d)
        s = _mul(x, _sq(w))
        P = self.from_xs(x, s)
        assert P is not None
        return P

    @staticmethod
    def _h2c_blobs(hash_name, data):
        hn = hash_name.encode() if isinstance(hash_name, str) else bytes(hash_name)
        if len(hn) == 0:
            return (_blake2s(b'\x01\x52', data), _blake2s(b'\x02\x52', data))
        return (_blake2s(b'\x01\x48', hn, b'\x00', data),
                _blake2s(b'\x02\x48', hn, b'\x00', data))

    @staticmethod
    def _decode_trunc(buf):
        t = bytearray(buf)
        t[15] &= 0x7F
        t[31] &= 0x7F
        return b254_decode(bytes(t))

    def hash_to_curve(self, hash_name, data):
        b1, b2 = self._h2c_blobs(hash_name, data)
        return self.add(self.map_to_curve(self._decode_trunc(b1)),
                        self.map_to_curve(self._decode_trunc(b2)))

    # ---- scalars ---------------------------------------------------------

    def scalar_encode(self, k):
        return (k % self.r).to_bytes(32, 'little')

    def scalar_decode(self, b):
        """Canonical decoding (exactly 32 bytes, value < r), else None."""
        b = bytes(b)
        if len(b) != 32:
            return None
        v = int.from_bytes(b, 'little')
        return v if v < self.r else None

    def scalar_decode_reduce(self, b):
        return int.from_bytes(bytes(b), 'little') % self.r

    # ---- keys, signatures, ECDH -------------------------------------------

    def private_decode(self, b):
        d = self.scalar_decode(b)
        if d is None or d == 0:
            return None
        return d

    def public_from_private(self, d):
        d %= self.r
        assert d != 0
        return self.mulgen(d)

    def public_decode(self, b):
        """PublicKey::decode: valid, canonical and not the neutral; else None."""
        P = self.decode(b)
        if P is None or P == self.neutral:
            return None
        return P

    @staticmethod
    def _hash_prefix(hash_name):
        hn = hash_name.encode() if isinstance(hash_name, str) else bytes(hash_name)
        if len(hn) == 0:
            return b'\x52'
        return b'\x48' + hn + b'\x00'

    def challenge(self, R_point, pk_bytes, hash_name, data):
        return _blake2s(self.encode(R_point), bytes(pk_bytes),
                        self._hash_prefix(hash_name), bytes(data))[:16]

    def challenge_scalar(self, cb):
        c0 = int.from_bytes(cb[:8], 'little')
        c1 = int.from_bytes(cb[8:16], 'little')
        return (c0 + c1 * self.mu) % self.r

    def sign_k(self, d, pk_bytes, hash_name, data, seed=b''):
        """Per-signature scalar k (derandomized)."""
        seed = bytes(seed)
        h = _blake2s(self.scalar_encode(d), bytes(pk_bytes),
                     len(seed).to_bytes(8, 'little'), seed,
                     self._hash_prefix(hash_name), bytes(data))
        return int.from_bytes(h, 'little') % self.r

    def sign(self, d, hash_name, data, seed=b'', pk_bytes=None):
        d %= self.r
        if pk_bytes is None:
            pk_bytes = self.encode(self.public_from_private(d))
        k = self.sign_k(d, pk_bytes, hash_name, data, seed)
        R = self.mulgen(k)
        cb = self.challenge(R, pk_bytes, hash_name, data)
        s = (k + d * self.challenge_scalar(cb)) % self.r
        return cb + self.scalar_encode(s)

    def verify(self, Q_bytes, sig, hash_name, data):
        Q = self.public_decode(Q_bytes)
        if Q is None:
            return False
        sig = bytes(sig)
        if len(sig) != 48:
            return False
        s = self.scalar_decode(sig[16:48])
        if s is None:
            return False
        cb = sig[:16]
        c = self.challenge_scalar(cb)
        R = self.sub(self.mulgen(s), self.mul(c, Q))
        return self.challenge(R, bytes(Q_bytes), hash_name, data) == cb

    def ecdh(self, d, own_pub_bytes, peer_bytes):
        """PrivateKey::ECDH.  Returns (key, ok).  On failure (bad length, invalid
        encoding, or neutral) the shared secret is replaced with the encoded private
        scalar and the marker byte is 0x46 instead of 0x53."""
        d %= self.r
        own = bytes(own_pub_bytes)
        peer = bytes(peer_bytes)
        Q = self.decode(peer)
        ok = Q is not None and Q != self.neutral
        shared = self.encode(self.mul(d, Q)) if ok else self.scalar_encode(d)
        if len(peer) == 32:
            if own < peer:                      # lexicographic, lowest first
                pk1, pk2 = own, peer
            else:
                pk1, pk2 = peer, own
        else:
            pk1, pk2 = own, peer
        key = _blake2s(pk1, pk2, b'\x53' if ok else b'\x46', shared)
        return (key, ok)


GLS254 = GLS254Group()


# ======================================================================
# Self-test
# ======================================================================

def _load_kats():
    path = os.path.join(os.path.dirname(os.path.abspath(__file__)), 'ref_gls_kats.json')
    with open(path) as f:
        return json.load(f)


class _Counter:
    def __init__(self):
        self.cat = {}
        self.order = []
        self.fail = 0

    def ok(self, cat, cond, msg=''):
        if cat not in self.cat:
            self.cat[cat] = [0, 0]
            self.order.append(cat)
        self.cat[cat][0] += 1
        if not cond:
            self.cat[cat][1] += 1
            self.fail += 1
            if self.cat[cat][1] <= 5:
                print('  FAIL [%s] %s' % (cat, msg))

    def report(self):
        for c in self.order:
            n, f = self.cat[c]
            print('%-34s %6d checks  %s' % (c, n, 'ok' if f == 0 else '%d FAILED' % f))


def _sha256_stream():
    """Mimics the tests' `sh.update(i as u64 LE); sh.finalize_reset()` (fresh hash
    each time since finalize_reset() resets the state)."""
    def f(i):
        return hashlib.sha256(i.to_bytes(8, 'little')).digest()
    return f


def selftest(quick=False, verbose=True):
    G = GLS254
    K = _load_kats()
    C = _Counter()
    ok = C.ok
    sh = _sha256_stream()
    H = bytes.fromhex
    t_start = time.time()

    # ---------------- GF(2^127) --------------------------------------
    def norm16(v):
        w = bytearray(v)
        hw = (w[15] >> 7) & 1
        w[0] ^= hw
        w[7] ^= hw << 7
        w[15] ^= hw << 7
        return bytes(w)

    def check127(va, vb):
        a = b127_decode_reduce(va)
        b = b127_decode_reduce(vb)
        cat = 'gf127 ops'
        ok(cat, b127_encode(a) == norm16(va), 'norm a')
        ok(cat, b127_encode(b) == norm16(vb), 'norm b')
        ia = int.from_bytes(va, 'little')
        ib = int.from_bytes(vb, 'little')
        # raw 128-bit products reduced, as in the Rust test's schoolbook mul()
        ok(cat, b127_mul(a, b) == _red_any(clmul_slow(ia, ib)), 'mul vs schoolbook')
        ok(cat, clmul(ia, ib) == clmul_slow(ia, ib), 'clmul 128x128')
        ok(cat, b127_sq(a) == _red_any(clmul_slow(ia, ia)), 'sq')
        ok(cat, b127_sq_def(a) == b127_sq(a), 'sq_def')
        ok(cat, b127_mul_sb(a) == _red_any(clmul_slow(ia, SB127)), 'mul_sb')
        ok(cat, b127_mul_b(a) == _red_any(clmul_slow(ia, B127)), 'mul_b')
        ok(cat, b127_mul(a, b) == b127_mul(b, a), 'commut')
        c = b127_div(a, b)
        if b == 0:
            ok(cat, c == 0, 'div by zero -> 0')
        else:
            ok(cat, b127_mul(c, b) == a, 'div')
            ok(cat, b127_mul(b, b127_inv(b)) == 1, 'x*inv(x)=1')
        ok(cat, b127_sq(b127_sqrt(a)) == a, 'sqrt^2')
        ok(cat, b127_sqrt(b127_sq(a)) == a, 'sqrt(sq)')
        tr = b127_trace(a)
        ok(cat, tr == (norm16(va)[0] & 1), 'trace = bit 0')
        h = b127_halftrace(a)
        ok(cat, b127_sq(h) ^ h == a ^ tr, 'halftrace eq')
        ok(cat, b127_mul(b127_div_z(a), 2) == a, 'div_z')
        ok(cat, b127_mul(b127_div_z2(a), 4) == a, 'div_z2')
        ok(cat, b127_decode(b127_encode(a)) == a, 'enc/dec')

    va = bytearray(16)
    vb = bytearray(16)
    check127(va, vb)
    va[0] = 0x01
    va[7] = 0x80
    va[15] = 0x80
    check127(va, vb)
    ok('gf127 ops', b127_decode_reduce(va) == 0, '1+z^63+z^127 == 0')
    vb[15] = 0x80
    check127(va, vb)
    ok('gf127 ops', b127_decode_reduce(vb) == (1 | (1 << 63)), 'z^127 = 1+z^63')
    va = bytearray(b'\xff' * 16)
    vb = bytearray(b'\xff' * 16)
    check127(va, vb)
    va[15] &= 0x7F
    vb[15] &= 0x7F
    check127(va, vb)
    for i in range(300):
        vh = sh(i)
        check127(vh[0:16], vh[16:32])

    # definitions vs tables (slow references) on a few values
    cat = 'gf127 definitions'
    for i in range(12):
        a = b127_decode_reduce(sh(1000 + i)[:16])
        ok(cat, b127_trace(a) == b127_trace_def(a), 'trace def')
        ok(cat, b127_halftrace(a) == b127_halftrace_def(a), 'halftrace def')
        x = a
        for _ in range(126):
            x = b127_sq(x)
        ok(cat, b127_sqrt(a) == x, 'sqrt = a^(2^126)')
        ok(cat, b127_sq(x) == a, 'a^(2^127) = a')
        if i < 4:
            ok(cat, b127_inv(a) == b127_inv_slow(a), 'inv vs slow')
        ok(cat, b127_mul(a, a ^ 5) == b127_mul_slow(a, a ^ 5), 'mul vs slow')
    ok(cat, b127_inv(0) == 0, 'inv(0)=0')
    ok(cat, b127_inv(1) == 1, 'inv(1)=1')
    ok(cat, _TRMASK == 1, 'only z^0 has trace 1 among z^0..z^126')
    ok(cat, b127_sqrt(2) == (1 << 64) | (1 << 32), 'sqrt(z) = z^64 + z^32')
    ok(cat, b127_sq(SB127) == B127, 'sb^2 = b')
    ok(cat, b127_decode(b'\x00' * 15) is None and b127_decode(b'\x00' * 17) is None, 'len')
    ok(cat, b127_decode(b'\x00' * 15 + b'\x80') is None, 'top bit')
    ok(cat, b127_decode(b'\xff' * 15 + b'\x7f') == M127, 'max')

    # crrl's HALFTRACE table (code constants): H(z^(2i+1)), i = 0..63
    cat = 'gf127 halftrace table (crrl)'
    for i, hx in enumerate(K['halftrace_odd_table']):
        v = int(hx, 16)
        # table entries are not all normalized (bit 127 may be set): reduce
        ok(cat, b127_halftrace(_red_any(1 << (2 * i + 1))) == _red_any(v), 'H(z^%d)' % (2 * i + 1))

    # ---------------- GF(2^254) --------------------------------------
    def norm32(v):
        return norm16(v[:16]) + norm16(v[16:])

    def check254(va, vb, full=True):
        cat = 'gf254 ops'
        a = b254_decode_reduce(va)
        b = b254_decode_reduce(vb)
        ok(cat, b254_encode(a) == norm32(va), 'norm a')
        ok(cat, b254_encode(b) == norm32(vb), 'norm b')
        ok(cat, b254_add(a, b) == (a[0] ^ b[0], a[1] ^ b[1]), 'add')
        ok(cat, b254_mul(a, b) == b254_mul_slow(a, b), 'mul vs schoolbook')
        ok(cat, b254_sq(a) == b254_mul_slow(a, a), 'sq')
        c = b254_div(a, b)
        if b == B254_ZERO:
            ok(cat, c == B254_ZERO, 'div by zero -> 0')
            ok(cat, b254_inv(b) == B254_ZERO, 'inv(0)=0')
        else:
            ok(cat, b254_mul(c, b) == a, 'div')
            ok(cat, b254_mul(b, b254_inv(b)) == B254_ONE, 'x*inv(x)=1')
        ok(cat, b254_sq(b254_sqrt(a)) == a, 'sqrt^2')
        tr = b254_trace(a)
        ok(cat, tr == (norm32(va)[16] & 1), 'trace = bit 0 of a1')
        q = b254_qsolve(a)
        d = b254_add(b254_sq(q), q)
        if tr == 0:
            ok(cat, d == a, 'qsolve tr0')
        else:
            ok(cat, b254_add(b254_add(d, a), B254_U) == B254_ZERO, 'qsolve tr1')
        ok(cat, b254_qsolve_ok(a, q) and b254_qsolve_ok(a, (q[0] ^ 1, q[1])), 'qsolve_ok')
        ok(cat, not b254_qsolve_ok(a, (q[0] ^ 2, q[1])), 'qsolve_ok neg')
        ok(cat, b254_div_z(a) == b254_div(a, (2, 0)), 'div_z')
        ok(cat, b254_div_z2(a) == b254_div(a, (4, 0)), 'div_z2')
        ok(cat, b254_mul_u(a) == b254_mul_slow(a, B254_U), 'mul_u')
        ok(cat, b254_mul_u1(a) == b254_mul_slow(a, (1, 1)), 'mul_u1')
        ok(cat, b254_mul_sb(a) == b254_mul_slow(a, (SB127, 0)), 'mul_sb')
        ok(cat, b254_mul_b(a) == b254_mul_slow(a, (B127, 0)), 'mul_b')
        n = b254_mul_selfphi(a)
        ok(cat, n == b127_sq(a[0] ^ a[1]) ^ b127_mul(a[0], a[1]), 'mul_selfphi')
        ok(cat, b254_decode(b254_encode(a)) == a, 'enc/dec')

    va = bytearray(32)
    vb = bytearray(32)
    check254(va, vb)
    va[16] = 1
    check254(va, vb)
    vb[23] = 0x80
    vb[31] = 0x80
    check254(va, vb)
    ok('gf254 ops', b254_decode_reduce(va) == b254_decode_reduce(vb), 'u == u (unreduced)')
    for i in range(300):
        check254(sh(2 * i), sh(2 * i + 1))

    cat = 'gf254 definitions'
    for i in range(6):
        a = b254_decode_reduce(sh(2000 + i))
        ok(cat, b254_trace(a) == b254_trace_def(a), 'trace def')
        x = a
        for _ in range(127):
            x = b254_sq(x)
        ok(cat, x == b254_phi(a), 'phi = x^(2^127)')
        for _ in range(126):
            x = b254_sq(x)
        ok(cat, x == b254_sqrt(a), 'sqrt = x^(2^253)')
    ok(cat, b254_mul(B254_U, B254_U) == (1, 1), 'u^2 = u + 1')
    ok(cat, b254_decode(b'\x00' * 31) is None and b254_decode(b'\x00' * 33) is None, 'len')
    ok(cat, b254_decode(b'\x00' * 15 + b'\x80' + b'\x00' * 16) is None, 'top bit byte 15')
    ok(cat, b254_decode(b'\x00' * 31 + b'\x80') is None, 'top bit byte 31')

    # outputs captured from a real crrl build (see _note in the JSON file): this pins
    # the behaviours the doc comments leave open (which qsolve root, inv(0), ...)
    cat = 'gf observed crrl outputs'
    for d in K.get('observed_field', []):
        a = b254_decode(H(d['in']))
        a0, a1 = a
        ok(cat, b127_encode(b127_halftrace(a0)).hex() == d['ht0'], 'halftrace a0')
        ok(cat, b127_encode(b127_halftrace(a1)).hex() == d['ht1'], 'halftrace a1')
        ok(cat, b127_encode(b127_sqrt(a0)).hex() == d['sqrt0'], 'sqrt127')
        ok(cat, b127_encode(b127_inv(a0)).hex() == d['inv0'], 'inv127')
        ok(cat, b127_trace(a0) == int(d['tr0']), 'trace127')
        ok(cat, b127_encode(b127_mul_sb(a0)).hex() == d['msb0'], 'mul_sb127')
        ok(cat, b127_encode(b127_mul_b(a0)).hex() == d['mb0'], 'mul_b127')
        ok(cat, b127_encode(b127_div_z(a0)).hex() == d['dz0'], 'div_z127')
        ok(cat, b127_encode(b127_div_z2(a0)).hex() == d['dzz0'], 'div_z2_127')
        ok(cat, b254_encode(b254_qsolve(a)).hex() == d['qs'], 'qsolve (exact root)')
        ok(cat, b254_encode(b254_sqrt(a)).hex() == d['sqrt'], 'sqrt254')
        ok(cat, b254_encode(b254_inv(a)).hex() == d['inv'], 'inv254')
        ok(cat, b254_trace(a) == int(d['tr']), 'trace254')
        ok(cat, b254_encode(b254_mul_u(a)).hex() == d['mu'], 'mul_u')
        ok(cat, b254_encode(b254_mul_u1(a)).hex() == d['mu1'], 'mul_u1')
        ok(cat, b127_encode(b254_mul_selfphi(a)).hex() == d['msp'], 'mul_selfphi')
        ok(cat, b254_encode(b254_mul_sb(a)).hex() == d['msb'], 'mul_sb254')
        ok(cat, b254_encode(b254_mul_b(a)).hex() == d['mb'], 'mul_b254')
        ok(cat, b254_encode(b254_div_z(a)).hex() == d['dz'], 'div_z254')
        ok(cat, b254_encode(b254_div_z2(a)).hex() == d['dzz'], 'div_z2_254')

    # ---------------- constants ---------------------------------------
    cat = 'constants'
    r = G.r
    ok(cat, r == (0x2000000000000000 << 192) | (0x3F1A47DEDC1A1DAD << 64) | 0x3CBDE37CF43A8CF5,
       'r limbs')
    ok(cat, all(pow(b, r - 1, r) == 1 for b in (2, 3, 5, 7, 11)), 'r probable prime')
    ok(cat, (G.mu * G.mu + 1) % r == 0, 'mu^2 = -1')
    ok(cat, G.es * G.es + G.et * G.et == r, 's^2+t^2 = r')
    ok(cat, (G.mu * G.et - G.es) % r == 0, 'mu = s/t')
    ok(cat, G.scalar_encode(G.mu) == H(K['mu_enc']), 'mu encoding (mul64mu test)')
    ok(cat, G.es == 0x3FFFFFFFFFFFFFFF639973CF3FA56696, 'ES limbs')
    ok(cat, G.et == 0x40000000000000009C668C30C05A9969, 'ET limbs')
    ok(cat, G.on_curve(G.N) and G.is_valid(G.N), 'N valid')
    ok(cat, G.cdbl(G.N) is None, '2N = inf')
    ok(cat, G.is_valid(G.base), 'base valid')
    ok(cat, G.encode(G.base) == H(K['base_enc']), 'base encoding')
    # Point::BASE constants (scaled by 1/sqrt(b)): x = sb*X, s = sb*S
    BX = (0xB6412F20326B8675 | (0x657CB9F79AE29894 << 64),
          0x3932450FF66DD010 | (0x14C6F62CB2E3915E << 64))
    BS = (0x5FADCA04023DC896 | (0x763522ADA04300F1 << 64),
          0x206E4C1E9E07345A | (0x4F69A66A2381CA6D << 64))
    ok(cat, G.to_xs(G.base) == (b254_mul_sb(BX), b254_mul_sb(BS)), 'base = Point::BASE')
    ok(cat, G.to_xs(G.neutral) == (B254_ZERO, G.b), 'neutral = (0,b) in (x,s)')
    T = G._tors(G.base)
    ok(cat, G.on_curve(T) and b254_trace(T[0]) == 1, 'B+N in 2E')
    ok(cat, G.cmul(r, T) is None, 'r*(B+N) = inf (affine)')
    ok(cat, G.cmul(2 * r, G.base) is None and G.cmul(r, G.base) == G.N, 'ord(B) = 2r on E')
    ok(cat, G.mul(r, G.base) == G.neutral and G.mul(r - 1, G.base) == G.neg(G.base),
       'r*B = neutral (fast)')

    # ---------------- encode / decode KATs ------------------------------
    cat = 'KAT encode_decode'
    for hx in K['decode_ok']:
        buf = H(hx)
        Q = G.decode(buf)
        ok(cat, Q is not None and G.is_valid(Q), 'decode ok ' + hx[:8])
        if Q is None:
            continue
        ok(cat, G.encode(Q) == buf, 'reencode')
        b2 = bytearray(buf)
        b2[15] |= 0x80
        ok(cat, G.decode(b2) is None, 'bit15')
        b2[31] |= 0x80
        ok(cat, G.decode(b2) is None, 'bit15+31')
        b2[15] &= 0x7F
        ok(cat, G.decode(b2) is None, 'bit31')
        b2[31] &= 0x7F
        ok(cat, G.decode(b2) == Q, 'restored')
        ok(cat, G.decode(buf[:31]) is None and G.decode(buf + b'\x00') is None, 'length')
    ok(cat, G.decode(H(K['decode_ok'][0])) == G.neutral, 'zero -> neutral')
    for hx in K['decode_bad']:
        ok(cat, G.decode(H(hx)) is None, 'decode bad ' + hx[:8])
    # r-torsion sanity on a few decoded points (independent of the trace criterion)
    for hx in K['decode_ok'][1:4]:
        Q = G.decode(H(hx))
        ok(cat, G.cmul(r, G._tors(Q)) is None, 'r*(Q+N) = inf')
    # the rejected root x+d is a curve point outside the coset
    for hx in K['decode_ok'][1:4]:
        w = b254_decode(H(hx))
        ok(cat, G.decode(b254_encode((w[0] ^ 1, w[1]))) == G.neg(G.decode(H(hx))),
           'w+1 -> -P')

    # ---------------- base_arith KATs ----------------------------------
    cat = 'KAT base_arith'
    for g in K['add']:
        bufs = [H(x) for x in g]
        P = [G.decode(b) for b in bufs]
        ok(cat, all(p is not None for p in P), 'decode')
        P1, P2, P3, P4, P5, P6 = P
        for p in P:
            ok(cat, G.eq(p, p), 'eq self')
        for p in P[1:]:
            ok(cat, not G.eq(P1, p), 'neq')
        Q3 = G.add(P1, P2)
        ok(cat, Q3 == P3 and G.encode(Q3) == bufs[2], 'P1+P2')
        Q4 = G.dbl(P1)
        ok(cat, Q4 == P4 and G.encode(Q4) == bufs[3], '2*P1')
        ok(cat, G.add(P1, P1) == P4, 'P1+P1')
        Q5 = G.add(P4, P2)
        ok(cat, Q5 == P5 and G.encode(Q5) == bufs[4], '2*P1+P2')
        ok(cat, G.add(P1, Q3) == P5, 'P1+(P1+P2)')
        Q6 = G.dbl(Q3)
        ok(cat, Q6 == P6 and G.encode(Q6) == bufs[5], '2*(P1+P2)')
        ok(cat, G.add(Q4, G.dbl(P2)) == P6, '2P1+2P2')
        ok(cat, G.add(Q5, P2) == P6, '(2P1+P2)+P2')
        ok(cat, G.sub(P6, P5) == P2 and G.encode(G.sub(P6, P5)) == bufs[1], 'P6-P5')
        Tt = Q6
        for j in range(10):
            ok(cat, G.mul(1 << j, P6) == Tt, 'xdouble(%d)' % j)
            Tt = G.dbl(Tt)
        ok(cat, G.add(P6, G.neutral) == P6 and G.add(G.neutral, P6) == P6, '+neutral')
        ok(cat, G.add(P6, G.neg(P6)) == G.neutral, 'P-P')
        ok(cat, G.add(P6, G.neg(P1)) == G.sub(P6, P1), 'add_sub')
        ok(cat, G.mul(2, P1) == P4 and G.mul_slow(2, P1) == P4, 'mul 2')
        ok(cat, G.mul(2, P3) == P6, 'mul 2 (P3)')
    ok(cat, G.dbl(G.neutral) == G.neutral and G.neg(G.neutral) == G.neutral, 'neutral ops')
    ok(cat, G.encode(G.neutral) == bytes(32), 'neutral encoding')

    # ---------------- mulgen / mul KATs ---------------------------------
    cat = 'KAT mulgen'
    s = G.scalar_decode(H(K['mulgen_scalar']))
    ok(cat, s is not None, 'scalar canonical')
    Rk = G.decode(H(K['mulgen_point']))
    Pm = G.mul(s, G.base)
    ok(cat, Pm == Rk and G.encode(Pm) == H(K['mulgen_point']), 'mul')
    ok(cat, G.mul_slow(s, G.base) == Rk, 'mul_slow')
    ok(cat, G.mulgen(s) == Rk, 'mulgen')

    cat = 'split_mu (100 sha256 scalars)'
    for i in range(100):
        k = G.scalar_decode_reduce(sh(i))
        k0, k1 = G.split_mu(k)
        ok(cat, (k0 + k1 * G.mu - k) % r == 0, 'recombine')
        ok(cat, k0 * k0 + k1 * k1 <= r and max(abs(k0), abs(k1)) < 2**127, 'size')
        k0, k1 = G.split_mu_odd(k)
        ok(cat, (k0 + k1 * G.mu - k) % r == 0, 'recombine odd')
        ok(cat, (k0 & 1) == 1 and (k1 & 1) == 1 and max(abs(k0), abs(k1)) < 2**128, 'odd')

    cat = 'split_mu / zeta observed crrl'
    for d in K.get('observed_split_zeta', []):
        k = G.scalar_decode(H(d['k']))
        n0, s0, n1, s1 = d['split']
        ok(cat, G.split_mu(k) == (-n0 if s0 else n0, -n1 if s1 else n1), 'split_mu exact')
        n0, s0, n1, s1 = d['split_odd']
        ok(cat, G.split_mu_odd(k) == (-n0 if s0 else n0, -n1 if s1 else n1), 'split_mu_odd exact')
        P = G.mulgen(k)
        ok(cat, G.encode(P).hex() == d['P'], 'mulgen')
        ok(cat, G.encode(G.zeta(P)).hex() == d['Z0'], 'zeta(0)')
        ok(cat, G.encode(G.zeta(P, True)).hex() == d['Z1'], 'zeta(neg)')

    cat = 'KAT mul'
    for i in range(20):
        s1 = G.scalar_decode_reduce(sh(2 * i))
        s2 = G.scalar_decode_reduce(sh(2 * i + 1))
        s3 = (s1 * s2) % r
        P1 = G.mulgen(s1)
        P2 = G.mulgen(s3)
        Q2 = G.mul(s2, P1)
        ok(cat, P2 == Q2, 's2*(s1*B) == (s1*s2)*B')
        if i < 4:
            ok(cat, G.mul_slow(s2, P1) == Q2, 'mul_slow agrees')
    Tt = G.mul(1 << 120, G.base)
    ok(cat, G.encode(Tt) == H(K['base_xdouble120']), 'BASE.xdouble(120)')
    Td = G.base
    for _ in range(120):
        Td = G.dbl(Td)
    ok(cat, Td == Tt, '120 affine doublings')
    if not quick:
        for _ in range(1000):
            n = G.scalar_decode_reduce(G.encode(Tt))
            Tt = G.mul(n, Tt)
        ok(cat, G.encode(Tt) == H(K['mul_chain1000']), '1000-iteration chain')

    # mul_add_mulgen / mul64mu_add_mulgen tests have no vectors (they compare two
    # Rust code paths); replay them as linearity checks of this model.
    cat = 'mul_add_mulgen (model linearity)'
    for i in range(6):
        A = G.mulgen(G.scalar_decode_reduce(sh(3 * i)))
        v2 = sh(3 * i + 1)
        uu = G.scalar_decode_reduce(v2)
        vv = G.scalar_decode_reduce(sh(3 * i + 2))
        a_log = G.scalar_decode_reduce(sh(3 * i))
        R1 = G.add(G.mul(uu, A), G.mulgen(vv))
        ok(cat, R1 == G.mulgen((uu * a_log + vv) % r), 'u*A + v*B')
        u0 = int.from_bytes(v2[0:8], 'little')
        u1 = int.from_bytes(v2[8:16], 'little')
        R2 = G.add(G.add(G.mul(u0, A), G.mul(u1, G.zeta(A))), G.mulgen(vv))
        ok(cat, R2 == G.mulgen(((u0 + u1 * G.mu) * a_log + vv) % r), 'u0*A + u1*zeta(A) + v*B')

    # ---------------- zeta / mu ----------------------------------------
    cat = 'zeta / mu consistency'
    pts = [G.base] + [G.decode(H(x)) for x in K['decode_ok'][1:8]]
    for i, P in enumerate(pts):
        Z = G.zeta(P)
        ok(cat, G.is_valid(Z), 'zeta(P) valid')
        if i < 3:
            ok(cat, Z == G.mul_slow(G.mu, P), 'zeta(P) = mu*P (affine)')
        ok(cat, Z == G.mul(G.mu, P), 'zeta(P) = mu*P (fast)')
        ok(cat, G.zeta(P, True) == G.neg(Z), 'zeta(P, neg)')
        ok(cat, G.zeta(Z) == G.neg(P), 'zeta^2 = -1')
        # documented (x,s) formulas: x' = phi(x), s' = phi(s) + (u+1)*phi(x)
        x, s_ = G.to_xs(P)
        x0, x1 = x
        s0, s1 = s_
        ok(cat, G.to_xs(Z) == ((x0 ^ x1, x1), (s0 ^ s1 ^ x0, s1 ^ x0 ^ x1)), '(x,s) formulas')
    ok(cat, G.zeta(G.neutral) == G.neutral and G.zeta(G.neutral, True) == G.neutral,
       'zeta(neutral)')

    # ---------------- affine vs fast ------------------------------------
    cat = 'affine vs fast mul'
    P = G.decode(H(K['decode_ok'][5]))
    edge = [0, 1, 2, 3, r - 1, r, r + 1, r - 2, 2**253, 2**256 - 1, -1, -5,
            G.mu, r - G.mu, G.es, G.et, 2**127, 2**126 - 1]
    for k in edge:
        ok(cat, G.mul(k, P) == G.mul_slow(k, P), 'edge k=%d' % k)
    for i in range(12):
        k = int.from_bytes(sh(5000 + i), 'little')
        Pi = G.decode(H(K['decode_ok'][1 + i]))
        ok(cat, G.mul(k, Pi) == G.mul_slow(k, Pi), 'random %d' % i)
    ok(cat, G.mul(12345, G.neutral) == G.neutral and G.mul_slow(12345, G.neutral) == G.neutral,
       'k*neutral')
    # projective formulas vs affine on single operations
    Tp = G._tors(P)
    Tq = G._tors(G.base)
    ok(cat, G._ld_affine(G._ld_dbl((Tp[0], Tp[1], B254_ONE))) == G.cdbl(Tp), 'ld_dbl')
    J = G._ld_dbl(G._ld_dbl((Tp[0], Tp[1], B254_ONE)))
    ok(cat, G._ld_affine(G._ld_madd(J, Tq)) == G.cadd(G.cmul(4, Tp), Tq), 'ld_madd')
    ok(cat, G._ld_affine(G._ld_dbl(J)) == G.cmul(8, Tp), 'ld_dbl (Z != 1)')
    J1 = G._ld_dbl((Tq[0], Tq[1], B254_ONE))
    J1 = G._ld_madd(J1, G.cneg(Tq))          # = Tq with Z != 1
    ok(cat, G._ld_affine(J1) == Tq, 'ld 2T - T')
    ok(cat, G._ld_affine(G._ld_madd(J1, Tq)) == G.cdbl(Tq), 'ld_madd doubling case')
    ok(cat, G._ld_madd(J1, G.cneg(Tq)) is None, 'ld_madd inverse case')

    # ---------------- map_to_curve / hash_to_curve ----------------------
    cat = 'KAT map_to_curve'
    for a_hex, p_hex in K['map_to_curve']:
        f = b254_decode(H(a_hex))
        ok(cat, f is not None, 'input decodes')
        Q = G.map_to_curve(f)
        ok(cat, G.encode(Q) == H(p_hex), 'map ' + a_hex[:8])

    cat = 'KAT hash_to_curve'
    data = bytes(range(100))
    for i, hx in enumerate(K['hash1']):
        ok(cat, G.encode(G.hash_to_curve('', data[:i])) == H(hx), 'raw len %d' % i)
    for i, hx in enumerate(K['hash2']):
        hv = hashlib.blake2s(bytes([i])).digest()
        ok(cat, G.encode(G.hash_to_curve('blake2s', hv)) == H(hx), 'blake2s %d' % i)

    # ---------------- signatures ----------------------------------------
    cat = 'KAT signature'
    for sk_hex, pk_hex, seed_hex, hv_hex, sig_hex in K['sign']:
        d = G.private_decode(H(sk_hex))
        ok(cat, d is not None, 'sk decodes')
        pk = G.encode(G.public_from_private(d))
        ok(cat, pk == H(pk_hex), 'public key')
        ok(cat, G.public_decode(H(pk_hex)) is not None, 'pk decodes')
        hv = bytearray(H(hv_hex))
        sig = G.sign(d, 'blake2s', hv, H(seed_hex))
        ok(cat, sig == H(sig_hex), 'signature bytes')
        ok(cat, G.verify(pk, sig, 'blake2s', hv) is True, 'verify')
        hv[31] ^= 0x80
        ok(cat, G.verify(pk, sig, 'blake2s', hv) is False, 'verify tampered data')
        hv[31] ^= 0x80
        ok(cat, G.verify(pk, sig, '', hv) is False, 'verify wrong hash name')
        ok(cat, G.verify(pk, sig[:47], 'blake2s', hv) is False, 'short sig')
    # non-canonical s must be rejected; raw-data mode round trip
    d = 0x1234567890ABCDEF
    pk = G.encode(G.public_from_private(d))
    sig = G.sign(d, '', b'hello')
    ok(cat, G.verify(pk, sig, '', b'hello'), 'raw sign/verify')
    sv = int.from_bytes(sig[16:], 'little')
    ok(cat, sv + r < 2**256 and not G.verify(pk, sig[:16] + (sv + r).to_bytes(32, 'little'),
                                             '', b'hello'), 's + r rejected')
    ok(cat, not G.verify(bytes(32), sig, '', b'hello'), 'neutral public key rejected')
    ok(cat, G.sign(d, '', b'hello', b'seed') != sig, 'seed changes signature')

    # ---------------- ECDH ---------------------------------------------
    cat = 'KAT ECDH'
    for sk_hex, p1_hex, k1_hex, p2_hex, k2_hex in K['ecdh']:
        d = G.private_decode(H(sk_hex))
        own = G.encode(G.public_from_private(d))
        key1, ok1 = G.ecdh(d, own, H(p1_hex))
        ok(cat, ok1 is True and key1 == H(k1_hex), 'valid peer')
        key2, ok2 = G.ecdh(d, own, H(p2_hex))
        ok(cat, ok2 is False and key2 == H(k2_hex), 'invalid peer')
    d1 = G.scalar_decode_reduce(sh(7001)) or 1
    d2 = G.scalar_decode_reduce(sh(7002)) or 1
    pk1 = G.encode(G.public_from_private(d1))
    pk2 = G.encode(G.public_from_private(d2))
    ka, oa = G.ecdh(d1, pk1, pk2)
    kb, ob = G.ecdh(d2, pk2, pk1)
    ok(cat, oa and ob and ka == kb, 'symmetry')
    kz, oz = G.ecdh(d1, pk1, bytes(32))
    ok(cat, oz is False and kz == _blake2s(bytes(32), pk1, b'\x46', G.scalar_encode(d1)),
       'neutral peer fails')
    ks, os_ = G.ecdh(d1, pk1, pk2[:31])
    ok(cat, os_ is False and ks == _blake2s(pk1, pk2[:31], b'\x46', G.scalar_encode(d1)),
       'short peer fails, unsorted')

    if verbose:
        C.report()
        print('total: %d checks, %d failed, %.1f s' %
              (sum(v[0] for v in C.cat.values()), C.fail, time.time() - t_start))
    return C.fail == 0


def _bench():
    import timeit
    G = GLS254
    a = b127_decode_reduce(hashlib.sha256(b'a').digest()[:16])
    b = b127_decode_reduce(hashlib.sha256(b'b').digest()[:16])
    A = b254_decode_reduce(hashlib.sha256(b'A').digest())
    Bv = b254_decode_reduce(hashlib.sha256(b'B').digest())
    n = 20000
    for name, f in [('b127_mul', lambda: b127_mul(a, b)), ('b127_sq', lambda: b127_sq(a)),
                    ('b127_inv', lambda: b127_inv(a)), ('b127_sqrt', lambda: b127_sqrt(a)),
                    ('b127_halftrace', lambda: b127_halftrace(a)),
                    ('b254_mul', lambda: b254_mul(A, Bv)), ('b254_sq', lambda: b254_sq(A)),
                    ('b254_inv', lambda: b254_inv(A)), ('b254_qsolve', lambda: b254_qsolve(A))]:
        t = timeit.timeit(f, number=n) / n
        print('%-16s %8.2f us' % (name, t * 1e6))
    k = int.from_bytes(hashlib.sha256(b'k').digest(), 'little') % G.r
    P = G.mulgen(12345)
    for name, f, n in [('group add', lambda: G.add(P, G.base), 500),
                       ('encode', lambda: G.encode(P), 500),
                       ('decode', lambda: G.decode(G.encode(G.base)), 200),
                       ('mul', lambda: G.mul(k, P), 20), ('mul_slow', lambda: G.mul_slow(k, P), 3),
                       ('hash_to_curve', lambda: G.hash_to_curve('', b'abc'), 50)]:
        t = timeit.timeit(f, number=n) / n
        print('%-16s %8.3f ms' % (name, t * 1e3))


if __name__ == '__main__':
    if '--bench' in sys.argv:
        _bench()
        sys.exit(0)
    sys.exit(0 if selftest(quick='--quick' in sys.argv) else 1)
