"""C18 -- all selectable backends are observationally identical.

One seeded request stream (a slice of every other property's hostile workload)
is executed by all six native builds; the per-request responses -- not a final
digest -- are compared, so the first divergence is the witness. Results that
the documentation allows to differ (split pairs, substitute roots, either root
of the quadratic solver) are compared through their contract instead of bytes.
Every response is also judged by the reference oracle of its home property."""

import sys
import os
import random
import hashlib
import multiprocessing as mp
import traceback

sys.path.insert(0, os.path.dirname(os.path.abspath(__file__)))

from common import *          # noqa
from common import _shard_worker  # noqa
import fieldmodel


def build_cases(rng, shard, nshards, scale):
    import c01, c05, c12, c20, c03, c04, c06, c10, c11, c07, c08, c09, c14, c17
    names = list(fieldmodel.FIELDS)
    S = scale
    cases = []
    cases += c01.gen(rng, shard, nshards, names, int(1200 * S), int(800 * S))
    cases += c05.gen(rng, shard, nshards, names, int(80 * S), int(200 * S))
    cases += c12.gen(rng, shard, nshards, [n for n in names if "ringonly" not in fieldmodel.FIELDS[n].caps], int(60 * S), int(120 * S))
    cases += c20.gen(rng, shard, nshards, names, int(30 * S), int(150 * S), int(12 * S))
    cases += c11.gen(rng, shard, nshards, int(40 * S), int(60 * S))
    import groups
    cases += c03.gen(rng, shard, nshards, groups.ALL_CURVES, int(16 * S))
    cases += c04.gen(rng, shard, nshards, groups.ALL_CURVES, int(10 * S), False)
    cases += c06.gen(rng, shard, nshards, groups.ALL_CURVES, int(40 * S))
    cases += c10.gen(rng, shard, nshards, groups.ALL_CURVES, int(12 * S))
    cases += c07.gen(rng, shard, nshards, int(40 * S), int(12 * S))
    cases += c08.gen(rng, shard, nshards, int(30 * S))
    cases += c09.gen(rng, shard, nshards, int(20 * S))
    cases += c14.gen(rng, shard, nshards, int(60 * S))
    cases += c17.gen(rng, shard, nshards, max(1, int(4 * S)), False)
    try:
        import c13
        cases += c13.gen(rng, shard, nshards, int(6 * S), int(2 * S), False, list(range(8, 20)))
    except ImportError:
        pass
    # only requests that every configuration implements
    return [c for c in cases if c.only is None]


def worker(argt):
    (shard, nshards, seed, exes, scale) = argt
    try:
        rng = random.Random((seed << 20) ^ (shard * 7919 + 13))
        cases = build_cases(rng, shard, nshards, scale)
        lines = []
        for c in cases:
            lines.extend(c.lines)
        outs = {}
        res = {"events": 0, "viol": [], "incon": [], "distinct": set(), "classes": {}, "samples": [], "per_config": {}, "diverging_allowed": 0}
        for cfg, exe in exes:
            try:
                out, rc = run_exec(exe, lines, timeout=3000)
            except ExecDied as d:
                res["viol"].append(dict(config=cfg, lines=lines[max(0, d.answered - 3):d.answered + 1], got="PROCESS DIED rc=%s" % d.rc,
                                        why="executor process died inside a library call"))
                continue
            except Inconclusive as e:
                res["incon"].append("%s: %s" % (cfg, e))
                continue
            outs[cfg] = out
        ref_cfg = exes[0][0]
        if ref_cfg not in outs:
            res["incon"].append("reference configuration produced no output")
            return res
        pos = 0
        for c in cases:
            k = len(c.lines)
            base = outs[ref_cfg][pos:pos + k]
            # 1. every configuration against the reference oracle
            for cfg in outs:
                rs = outs[cfg][pos:pos + k]
                for (i, got, why) in check_case(c, rs):
                    if len(res["viol"]) < 40:
                        res["viol"].append(dict(config=cfg, lines=c.lines, index=i, got=got, why="oracle: " + why, desc=c.desc))
            # 2. cross-build comparison, response by response
            for cfg in outs:
                if cfg == ref_cfg:
                    continue
                rs = outs[cfg][pos:pos + k]
                for i in range(k):
                    a_, b_ = strip_steps(base[i])[0], strip_steps(rs[i])[0]
                    if a_ != b_:
                        e = c.expect[i]
                        if e is not None and not isinstance(e, str):
                            # documented "one of several admissible values": both already passed their contract above
                            res["diverging_allowed"] += 1
                            continue
                        if len(res["viol"]) < 40:
                            res["viol"].append(dict(config="%s-vs-%s" % (ref_cfg, cfg), lines=c.lines, index=i, got="%s: %s | %s: %s" % (ref_cfg, a_[:160], cfg, b_[:160]),
                                                    why="backends disagree on a specified result", desc=c.desc))
            pos += k
            res["events"] += k * len(outs)
            for cl in c.classes[:3]:
                res["classes"][cl] = res["classes"].get(cl, 0) + 1
            if c.classes:
                res["distinct"].add(hashlib.blake2s(("\n".join(c.lines)).encode(), digest_size=8).digest())
        for cfg in outs:
            res["per_config"][cfg] = len(lines)
        res["samples"] = [dict(lines=c.lines[:3], classes=list(c.classes)[:4]) for c in cases[:2]]
        res["distinct"] = list(res["distinct"])
        return res
    except Exception:
        return {"fatal": traceback.format_exc()}


def miri_cross_target(target, seed, nreq, rep, features=None):
    """Interpret the executor for another architecture under Miri (code paths that do not compile natively on this host:
    aarch64 -> modint32.rs as ModInt256ct, zz32 by default, portable BLAKE2s and carry primitives; riscv64 -> gf255_m51 by
    default). The responses are judged by the reference oracles and compared with the native default build."""
    import subprocess
    import c01, c05, c12, c17, c04, c11
    import groups
    rng = random.Random(seed * 31 + 5)
    cases = []
    names = ["gf25519", "gf255e", "scgls254", "sc25519", "gf448", "gfsecp256k1", "sc448"]
    cases += c01.gen(rng, 0, 1, names, 6, 12)
    cases += c05.gen(rng, 0, 1, names, 3, 4)
    cases += c12.gen(rng, 0, 1, ["scgls254", "gf25519", "gf255e"], 4, 4)
    cases += c11.gen(rng, 0, 1, 1, 2)
    cases += c17.gen(rng, 0, 1, 1, False)
    cases += c04.gen(rng, 0, 1, ["gls254", "jq255e", "ed25519"], 2, False)
    cases = [c for c in cases if c.only is None]
    rng.shuffle(cases)
    lines = []
    keep = []
    for c in cases:
        if len(lines) + len(c.lines) > nreq:
            continue
        keep.append(c)
        lines.extend(c.lines)
    env = cargo_env("")
    env["MIRIFLAGS"] = "-Zmiri-disable-isolation -Zmiri-disable-stacked-borrows"
    cmd = ["cargo", "+nightly", "miri", "run", "--offline", "--target", target, "--manifest-path", os.path.join(HARNESS, "Cargo.toml"),
           "--target-dir", os.path.join(TARGET, "miri-" + target.split("-")[0])]
    if features:
        cmd += ["--features", features]
    label = "miri/" + target.split("-")[0]
    try:
        p = subprocess.run(cmd, input=("\n".join(lines) + "\n").encode(), stdout=subprocess.PIPE, stderr=subprocess.PIPE, env=env, timeout=5400)
    except subprocess.TimeoutExpired:
        rep.incon.append(label + ": watchdog fired")
        return
    out = p.stdout.decode(errors="replace").split("\n")
    if out and out[-1] == "":
        out.pop()
    err = p.stderr.decode(errors="replace")
    if "Undefined Behavior" in err:
        rep.viol.append(dict(config=label, lines=lines[max(0, len(out) - 2):len(out) + 1], got=err[-1500:], why="Miri reported undefined behaviour"))
    if len(out) != len(lines):
        rep.incon.append("%s: %d of %d responses (rc=%s): %s" % (label, len(out), len(lines), p.returncode, err[-400:]))
        return
    exe = build("default")
    nat, _ = run_exec(exe, lines)
    pos = 0
    for c in keep:
        k = len(c.lines)
        rs = out[pos:pos + k]
        for (i, got, why) in check_case(c, rs):
            rep.viol.append(dict(config=label, lines=c.lines, index=i, got=got, why="oracle: " + why))
        for i in range(k):
            a_, b_ = strip_steps(nat[pos + i])[0], strip_steps(rs[i])[0]
            if a_ != b_ and (c.expect[i] is None or isinstance(c.expect[i], str)):
                rep.viol.append(dict(config="default-vs-" + label, lines=c.lines, index=i, got="native: %s | %s: %s" % (a_[:150], label, b_[:150]),
                                     why="cross-target interpretation disagrees with the native build"))
        pos += k
    rep.events += len(lines)
    rep.per_config[label] = len(lines)


def main(argv):
    a = parse_args(argv)
    if a.replay:
        return do_replay(a.replay)
    rep = Report("C18", a.tier, a.seed)
    rep.rule = ("one seeded stream made of slices of the C01,C03-C14,C17,C20 workloads (only requests every backend implements) executed by the six "
                "native builds (default, m51, w32, zz32, clmul, avx2); each response compared with the default build's response and with the "
                "reference oracle; outputs documented as one of several admissible values (split_vartime pairs, sqrt_ext substitutes, qsolve "
                "roots, randomized signatures) are compared through their contract. distinct_nontrivial = distinct request transcripts in a "
                "boundary class; evaluations = responses compared (requests x builds)")
    rep.assumptions = ["the host CPU implements AVX2/PCLMUL/BMI2/ADX as the avx2 build expects", "gfb254_arm64pmull, modint32 (aarch64) are not executed here"]
    try:
        cfgs = (a.configs.split(",") if a.configs else ALL_CONFIGS)
        scale = (1.0 if a.tier == "quick" else 25.0) * a.scale
        exes = build_many(cfgs)
        tasks = [(s, NCPU, a.seed, [(c, exes[c]) for c in cfgs], scale) for s in range(NCPU)]
        results = pmap(worker, tasks, NCPU)
        allowed = 0
        for r in results:
            if "fatal" in r:
                rep.incon.append("worker crashed: " + r["fatal"][-1200:])
                continue
            rep.events += r["events"]
            rep.viol.extend(r["viol"])
            rep.incon.extend(r["incon"])
            rep.distinct.update(bytes(x) for x in r["distinct"])
            for k, v in r["classes"].items():
                rep.classes[k] = rep.classes.get(k, 0) + v
            rep.samples.extend(r["samples"][:1])
            for k, v in r["per_config"].items():
                rep.per_config[k] = rep.per_config.get(k, 0) + v
            allowed += r["diverging_allowed"]
        if a.tier == "thorough":
            for tgt in ("aarch64-unknown-linux-gnu", "riscv64gc-unknown-linux-gnu"):
                try:
                    miri_cross_target(tgt, a.seed, int(500 * a.scale), rep)
                except Inconclusive as e:
                    rep.incon.append("miri %s: %s" % (tgt, e))
        rep.extra["responses_differing_within_documented_freedom"] = allowed
        rep.extra["configurations"] = cfgs
        if len([k for k in rep.per_config if not k.startswith("miri/")]) < len(cfgs):
            rep.incon.append("not every configuration produced output")
    except Inconclusive as e:
        rep.incon.append(str(e))
    return rep.finish()


if __name__ == "__main__":
    sys.exit(main(sys.argv[1:]))
