"""C10 -- variable-time fast paths agree with the constant-time reference.

Events: mul_add_mulgen_vartime, mul128_add_mulgen_vartime (jq255e/s),
mul64mu_add_mulgen_vartime (GLS254) and verify_helper_vartime; each fast
result is compared (a) with the same expression computed by the library's own
constant-time operations in the same process and (b) with the independent
reference model. A panic or an exceeded step budget is a violation."""

import sys
import os

sys.path.insert(0, os.path.dirname(os.path.abspath(__file__)))

from common import *          # noqa
from groups import *          # noqa
import c04
import c11
import ref_gls

U128_HOSTILE = [(1 << 128) - i for i in range(1, 66)] + [(1 << 127) + i for i in range(-17, 18)] + [0, 1, 2, 3, 15, 16, 17, 31, 32, 33]


def hostile_u128(rng):
    t = rng.randrange(8)
    if t < 2:
        return rng.choice(U128_HOSTILE), "u128-extreme"
    if t == 2:
        k = rng.randrange(129)
        return ((1 << k) - rng.randrange(2)) % (1 << 128), "u128-pow2"
    if t == 3:
        v = 0
        for i in range(26):
            v |= rng.choice([15, 16, 17, 31, 0, 1]) << (5 * i)
        return v % (1 << 128), "u128-digits"
    if t == 4:
        k = rng.randrange(1, 128)
        return (((1 << 128) - 1) >> k) << rng.randrange(k + 1), "u128-shifted-ones"
    return rng.getrandbits(128), "u128-random"


def hostile_u64(rng):
    t = rng.randrange(6)
    if t == 0:
        return rng.choice([0, 1, 2, (1 << 64) - 1, (1 << 64) - 2, 1 << 63, (1 << 63) - 1, (1 << 63) + 1, 15, 16, 17])
    if t == 1:
        v = 0
        for i in range(13):
            v |= rng.choice([15, 16, 17, 31, 0, 1]) << (5 * i)
        return v % (1 << 64)
    if t == 2:
        return (1 << rng.randrange(65)) % (1 << 64)
    return rng.getrandbits(64)


def wnaf_len(c, w=5):
    n = 0
    i = 0
    while c:
        if c & 1:
            d = c & ((1 << w) - 1)
            if d >= (1 << (w - 1)):
                d -= 1 << w
            c -= d
            n = i + 1
        c >>= 1
        i += 1
    return n


def topcarry_k(rng, nn):
    """k = c0/c1 mod n where one of |c0|, |c1| has the largest size a reduced pair can have *and* a width-5 NAF one digit longer
    than its binary length (carry out of the top window); the other one is short so that the pair is (very likely) the
    shortest vector. The interleaved multi-scalar loops must process that extra column."""
    import math
    maxc = math.isqrt(nn + (nn >> 3))
    bl = maxc.bit_length()
    for _ in range(2000):
        c = rng.randrange(1 << (bl - 1), maxc + 1) | 1
        if rng.randrange(2):
            # force the pattern: top window 1xxx1 aligned on a position where the recoding is odd
            c = (c & ~(0x1f << (bl - 5))) | (rng.choice([17, 19, 21, 23, 25, 27, 29, 31]) << (bl - 5))
            if c > maxc:
                continue
        if wnaf_len(c) == c.bit_length() + 1:
            break
    else:
        return None
    small = rng.getrandbits(rng.choice([1, 20, 64, bl // 2, bl - 40])) | 1
    sg = rng.choice([1, -1])
    if rng.randrange(2):
        c0, c1 = sg * small, c
    else:
        c0, c1 = sg * c, small
    if math.gcd(c1, nn) != 1:
        return None
    return c0 * pow(c1, -1, nn) % nn


def vh_pred(g, A, R, s, k):
    """the documented predicate of verify_helper_vartime"""
    if isinstance(g, EdG):
        lhs = g.C.mul(g.cofactor * s, g.base)
        rhs = g.C.add(g.C.mul(g.cofactor, R), g.C.mul(g.cofactor * k, A))
        return g.C.eq(lhs, rhs)
    lhs = g.mulgen(s)
    rhs = g.add(R, g.mul(k, A))
    return g.eq(lhs, rhs)


def pdesc(g, P, rng):
    return (g.desc(P, rng) if isinstance(g, WeierG) else g.desc(P)) + g.mods(P, rng)


def gen_curve(rng, g, n):
    out = []
    T = "g %s " % g.name
    nn = g.n
    for _ in range(n):
        kinds = ["mamv", "mamv"]
        if g.has_vh:
            kinds += ["vh", "vh"]
        if g.name in ("jq255e", "jq255s"):
            kinds += ["mul128", "mul128"]
        if g.name == "gls254":
            kinds += ["mul64mu", "mul64mu"]
        kind = rng.choice(kinds)
        cl = set()
        if kind == "mamv":
            u, uc = c04.hostile_scalar(rng, g) if rng.randrange(2) else c11.hostile_k(rng, nn)
            v, vc = c04.hostile_scalar(rng, g) if rng.randrange(2) else c11.hostile_k(rng, nn)
            if rng.randrange(8) == 0: u = 0; uc = "zero"
            if rng.randrange(8) == 0: v = 0; vc = "zero"
            mu_ = c04.endo_mu(g)
            if mu_ is not None and rng.randrange(5) == 0:
                # multipliers whose endomorphism halves are degenerate: pure multiples of the eigenvalue (first half zero), equal
                # halves, opposite halves
                h = rng.choice([1, 2, 3, rng.getrandbits(64), rng.getrandbits(120)])
                rel = rng.randrange(4)
                u = [h * mu_, h + h * mu_, h - h * mu_, -h * mu_][rel] % nn
                uc = ["endo-half0-zero", "endo-equal-halves", "endo-opposite-halves", "endo-half0-zero"][rel]
            P = g.rand_point(rng)
            d = pdesc(g, P, rng)
            exp = g.add(g.mul(u % nn, P), g.mulgen(v))
            e = "OK " + g.enc(exp)
            lines = [T + "mamv %s %s %s" % (d, g.sc(u, rng), g.sc(v, rng)), T + "mamv_ref %s %s %s" % (d, g.sc(u), g.sc(v))]
            cl |= {"mamv", "mamv:u=" + uc.split("(")[0], "mamv:v=" + vc.split("(")[0]}
            if g.is_neutral(P): cl.add("mamv:point-neutral")
            if isinstance(g, EdG) and not g.C.in_subgroup(P): cl.add("mamv:point-not-in-subgroup")
            if g.is_neutral(exp): cl.add("mamv:result-neutral")
            out.append(Case(lines, [e, e], ["%s:%s" % (g.name, c) for c in cl] + sorted(cl), "mul_add_mulgen_vartime"))
        elif kind == "mul128":
            u, uc = hostile_u128(rng)
            v, vc = c04.hostile_scalar(rng, g)
            P = g.rand_point(rng)
            d = pdesc(g, P, rng)
            exp = g.add(g.mul(u % nn, P), g.mulgen(v))
            e = "OK " + g.enc(exp)
            lines = [T + "mul128 %s %d %s" % (d, u, g.sc(v, rng)), T + "mul128_ref %s %d %s" % (d, u, g.sc(v))]
            cl |= {"mul128", "mul128:" + uc}
            if u >= (1 << 128) - 64: cl.add("mul128:u>=2^128-64")
            out.append(Case(lines, [e, e], ["%s:%s" % (g.name, c) for c in cl] + sorted(cl), "mul128_add_mulgen_vartime"))
        elif kind == "mul64mu":
            u0, u1 = hostile_u64(rng), hostile_u64(rng)
            rel = rng.randrange(8)
            if rel == 0:
                u1 = u0; cl.add("mul64mu:equal-halves")
            elif rel == 1:
                u1 = 0; cl.add("mul64mu:u1=0")
            elif rel == 2:
                u0 = 0; cl.add("mul64mu:u0=0")
            elif rel == 3:
                u1 = (-u0) % (1 << 64); cl.add("mul64mu:opposite-halves")
            v, vc = c04.hostile_scalar(rng, g)
            if rel in (4, 5):
                # tiny multipliers with a sparse v: whole digit columns are zero in every operand but one
                u0, u1 = rng.choice([0, 1, 2, 3, 32]), rng.choice([0, 0, 1, 2, 32])
                v = ((1 << rng.randrange(0, nn.bit_length() - 1)) + rng.choice([0, 1, 3, 32, 1 << rng.randrange(0, 64)])) % nn
                if rng.randrange(3) == 0:
                    v = (v + (1 << rng.randrange(0, nn.bit_length() - 1))) % nn
                cl.add("mul64mu:sparse-v-tiny-u")
            P = g.rand_point(rng)
            d = pdesc(g, P, rng)
            mu = ref_gls.GLS254.mu
            exp = g.add(g.mul((u0 + u1 * mu) % nn, P), g.mulgen(v))
            e = "OK " + g.enc(exp)
            lines = [T + "mul64mu %s %d %d %s" % (d, u0, u1, g.sc(v, rng)), T + "mul64mu_ref %s %d %d %s" % (d, u0, u1, g.sc(v))]
            cl |= {"mul64mu"}
            if u0 in (0, (1 << 64) - 1) or u1 in (0, (1 << 64) - 1): cl.add("mul64mu:extreme-half")
            out.append(Case(lines, [e, e], ["%s:%s" % (g.name, c) for c in cl] + sorted(cl), "mul64mu_add_mulgen_vartime"))
        else:
            # verify helper: s*B = R + k*A (times the cofactor on Edwards curves)
            a = rng.randrange(nn)
            r = rng.randrange(nn)
            k, kc = c11.hostile_k(rng, nn) if rng.randrange(3) else c04.hostile_scalar(rng, g)
            if rng.randrange(5) == 0:
                tk = topcarry_k(rng, nn)
                if tk is not None:
                    k, kc = tk, "naf-carry-out-of-top-window"
            elif rng.randrange(5) == 0:
                k, kc = c11.norm_boundary_k(rng, nn)
            A = g.mulgen(a)
            R = g.mulgen(r)
            s = (r + k * a) % nn
            t = rng.randrange(10)
            cl |= {"vh", "vh:k=" + kc.split("(")[0]}
            if isinstance(g, EdG) and t in (0, 1, 2):
                # torsion components: accepted by the cofactored rule
                A = g.add(A, rng.choice(g.low)); R = g.add(R, rng.choice(g.low)); cl.add("vh:torsion-A-R")
            elif t == 3:
                s = (s + rng.choice([1, nn - 1, 2])) % nn; cl.add("vh:s-off-by-one")
            elif t == 4:
                R = g.add(R, g.base); cl.add("vh:R-shifted")
            elif t == 5:
                A = g.neutral; s = r % nn; cl.add("vh:A-neutral")
            elif t == 6:
                R = g.neutral; s = (k * a) % nn; cl.add("vh:R-neutral")
            elif t == 7:
                k = 0; s = r; cl.add("vh:k-zero")
            elif t == 8 and isinstance(g, EdG):
                # R differs by a low-order point only: still accepted; by a non-torsion amount: rejected
                A = rng.choice(g.low); R = rng.choice(g.low); s = 0; cl.add("vh:low-order-only")
            ok = vh_pred(g, A, R, s, k)
            cl.add("vh:" + ("true" if ok else "false"))
            line = T + "vh %s %s %s %s" % (pdesc(g, A, rng), pdesc(g, R, rng), g.sc(s, rng), g.sc(k, rng))
            out.append(Case([line], ["OK " + ("T" if ok else "F")], ["%s:%s" % (g.name, c) for c in cl] + sorted(cl), "verify_helper_vartime"))
    return out


COST = {"ed25519": 1, "ed448": 3, "ristretto255": 1, "decaf448": 3, "p256": 1, "secp256k1": 1, "jq255e": 1.5, "jq255s": 1.5, "gls254": 10}


def gen_directed_wnaf(rng, g, shard, nshards, stride):
    """every single wNAF digit (odd d in 1..15, both signs) at every bit position, on the generator side (selects each entry of
    the precomputed wNAF tables of u*P + v*G once) and on the point side"""
    out = []
    T = "g %s " % g.name
    nn = g.n
    bits = nn.bit_length()
    idx = 0
    P = g.mulgen(rng.randrange(1, nn))
    d_ = (g.desc(P, rng) if isinstance(g, WeierG) else g.desc(P))
    for i in range(0, bits):
        for d in range(1, 16, 2):
            for sgn in (1, -1):
                idx += 1
                if idx % nshards != shard or (idx // nshards) % stride:
                    continue
                k = (sgn * d << i) % nn
                side = (idx // nshards) % 2
                if side == 0:
                    u, v = rng.choice([0, 1, 3]), k
                else:
                    u, v = k, rng.choice([0, 1, 5])
                exp = g.add(g.mul(u, P), g.mulgen(v))
                out.append(case1(T + "mamv %s %s %s" % (d_, g.sc(u), g.sc(v)), "OK " + g.enc(exp),
                                 ["wnaf-single-digit", g.name + ":wnaf-single-digit", "wnaf-digit-side=%s" % ("G" if side == 0 else "P")], "single wNAF digit"))
    return out


def gen(rng, shard, nshards, curves, n_cases, wnaf_stride=0):
    cases = []
    for c in curves:
        g = GROUPS[c]
        if wnaf_stride:
            cases.extend(gen_directed_wnaf(rng, g, shard, nshards, wnaf_stride if c not in ("gls254", "ed448", "decaf448") else 4 * wnaf_stride))
        cases.extend(gen_curve(rng, g, max(1, int(n_cases / COST[c]))))
    return cases


def main(argv):
    a = parse_args(argv)
    if a.replay:
        return do_replay(a.replay)
    rep = Report("C10", a.tier, a.seed)
    rep.rule = ("u*P+v*G with hostile scalars (wNAF digit strings, endomorphism-extreme halves, rationals a/b on the bit-length grid, 0, n-1), "
                "128-bit multipliers in [2^128-65, 2^128) and digit patterns, (u0,u1) 64-bit halves at extremes, and verification-helper "
                "triples (valid by construction incl. torsion components; s off by one; shifted R; neutral A/R; k = 0) on all groups that "
                "provide the routine; compared with the library's own constant-time expression (same process) and with the independent "
                "reference; distinct_nontrivial = distinct requests in a boundary class")
    rep.assumptions = ["reference group laws (validated on repository KATs)"]
    try:
        curves = ALL_CURVES
        if a.tier == "quick":
            cfgs = (a.configs.split(",") if a.configs else ["default", "w32", "zz32"])
            n = int(2500 * a.scale)
        else:
            cfgs = (a.configs.split(",") if a.configs else ALL_CONFIGS)
            n = int(200000 * a.scale)
        exes = build_many(cfgs)
        m = run_sharded("c10", "gen", (curves, n // NCPU + 1, 2 if a.tier == "quick" else 1), [(c, exes[c]) for c in cfgs], a.seed, timeout=3600)
        rep.merge(m)
        req = []
        for c in curves:
            req += [c + ":mamv", c + ":mamv:u=rational", c + ":mamv:u=zero", c + ":wnaf-single-digit"]
        for c in ("ed25519", "ed448", "p256", "secp256k1", "ristretto255", "decaf448"):
            req += [c + ":vh:true", c + ":vh:false", c + ":vh:k=rational", c + ":vh:s-off-by-one", c + ":vh:k=naf-carry-out-of-top-window", c + ":vh:k=norm-at-power-of-two"]
        req += ["ed25519:vh:torsion-A-R", "ed448:vh:torsion-A-R", "jq255e:mul128:u>=2^128-64", "jq255s:mul128:u>=2^128-64",
                "gls254:mul64mu:extreme-half", "gls254:mul64mu:equal-halves", "gls254:mul64mu:sparse-v-tiny-u", "gls254:mul64mu:u0=0", "gls254:mamv:u=endo-half0-zero", "jq255e:mamv:u=endo-half0-zero",
                "secp256k1:mamv:u=endo-half0-zero", "gls254:mamv:u=endo-equal-halves"]
        rep.require(*req)
    except Inconclusive as e:
        rep.incon.append(str(e))
    return rep.finish()


if __name__ == "__main__":
    sys.exit(main(sys.argv[1:]))
