"""Uniform adapter over the independent reference models (ref_ed, ref_weier,
ref_do, ref_gls) for the nine groups of crrl. Used by C03/C04/C06/C10/C11/C20."""

import os
import sys

sys.path.insert(0, os.path.dirname(os.path.abspath(__file__)))

import ref_ed
import ref_weier
import ref_do
import ref_gls
from fieldmodel import (P25519, P448, PP256, PSECP, P255E, P255S, L25519, L448, NP256, NSECP, RJQ255E, RJQ255S, RGLS254)


class G:
    """name: executor curve name; n: order of the scalar field."""
    name = None
    n = None
    slen = 32          # canonical scalar length
    lam_bytes = 32     # length of a lambda for the ~l modifier
    has_vh = False
    cofactor = 1
    prime_order = True

    # -- to be provided --
    def add(self, P, Q): ...
    def neg(self, P): ...
    def mul(self, k, P): ...
    def eq(self, P, Q): ...
    def enc(self, P): ...          # hex string as printed by the executor
    def desc(self, P): ...         # executor operand descriptor

    def sub(self, P, Q):
        return self.add(P, self.neg(Q))

    def dbl(self, P):
        return self.add(P, P)

    def mulgen(self, k):
        return self.mul(k, self.base)

    def is_neutral(self, P):
        return self.eq(P, self.neutral)

    def sc(self, k, rng=None):
        """scalar argument (hex, little-endian); optionally a non-canonical
        longer representation (decode_reduce is applied by the executor)."""
        k %= self.n
        if rng is not None and rng.randrange(4) == 0:
            k += self.n * rng.randrange(1, 1 << 64)
            return k.to_bytes((k.bit_length() + 7) // 8, "little").hex()
        return k.to_bytes(self.slen, "little").hex()

    def rand_scalar(self, rng):
        t = rng.randrange(8)
        n = self.n
        if t == 0:
            return rng.choice([0, 1, 2, n - 1, n - 2, (n + 1) // 2, (n - 1) // 2, 3])
        if t == 1:
            return (1 << rng.randrange(n.bit_length())) + rng.choice([0, 1, -1])
        if t == 2:
            return rng.getrandbits(rng.randrange(1, 130))
        return rng.randrange(n)

    def lam(self, rng):
        """a non-zero field element (bytes hex) for the ~l rescaling modifier"""
        v = rng.choice([1, 2, self.p - 1, rng.randrange(1, self.p), rng.randrange(1, self.p)])
        return v.to_bytes(self.lam_bytes, "little").hex()

    def mods(self, P, rng):
        """a random re-representation modifier string (possibly empty) that
        does not change the element"""
        if rng.randrange(3) == 0:
            return "~l" + self.lam(rng)
        return ""

    def special_points(self):
        return [self.neutral, self.base, self.neg(self.base), self.dbl(self.base)]

    def _try_decode(self, c, sign):
        """group element whose encoded coordinate is the integer c (None if there is none)"""
        return None

    def structured_points(self):
        """Elements whose encoded coordinate is 0 / q plus or minus one unit of some limb (2^(W*i) for the limb widths the
        backends use): the carry propagation of iszero / equals / normalisation sees exactly these."""
        if getattr(self, "_stp", None) is None:
            out = []
            p = getattr(self, "p", None)
            if p is None:
                self._stp = []
                return self._stp
            bits = p.bit_length()
            seen = set()
            cands = []
            for W in (51, 64, 32, 56, 28, 52):
                for i in range(0, bits // W + 1):
                    for d in (0, 1, -1):
                        j = W * i + d
                        if not (0 < j < bits):
                            continue
                        cands += [(1 << j), p - (1 << j), (1 - (1 << j)) % p, (1 << j) - 1, (1 << j) + 1]
            # all limbs but one at the values they have in 0 / 1 / p / p+1, the remaining limb small: t * 2^(W*f) + {0, 1} and
            # their negatives
            for W in ((51, 64, 32) if bits < 300 else (56, 64, 28)):
                for f_ in range(1, bits // W + 1):
                    for t_ in range(2, 18):
                        u = t_ << (W * f_)
                        if u >= p:
                            continue
                        cands += [u, u + 1, p - u, (1 - u) % p]
                        # low limbs equal to those of p (what "x - 0" or "y - z" looks like just before the final reduction)
                        lowp = p & ((1 << (W * f_)) - 1)
                        cands += [(lowp + u) % p, (lowp + u + 1) % p]
            for c in cands:
                if c in seen or not (0 <= c < p):
                    continue
                seen.add(c)
                for sign in (0, 1):
                    try:
                        P = self._try_decode(c, sign)
                    except Exception:
                        P = None
                    if P is not None and not self.is_neutral(P):
                        out.append(P)
            self._stp = out
        return self._stp

    def rand_point(self, rng):
        t = rng.randrange(10)
        if t == 0:
            return rng.choice(self.special_points())
        if rng.randrange(12) == 0 and self.structured_points():
            return rng.choice(self.structured_points())
        return self.mulgen(self.rand_scalar(rng) if t < 3 else rng.randrange(self.n))


class EdG(G):
    has_vh = True
    prime_order = False

    def __init__(self, name, C, p):
        self.name = name
        self.C = C
        self.p = p
        self.n = C.L
        self.cofactor = C.h
        self.neutral = C.neutral
        self.base = C.B
        self.slen = 32 if name == "ed25519" else 56
        self.lam_bytes = 32 if name == "ed25519" else 56
        self.low = C.low_order_points()

    def add(self, P, Q): return self.C.add(P, Q)
    def neg(self, P): return self.C.neg(P)
    def mul(self, k, P): return self.C.mul(k, P)
    def mulgen(self, k): return self.C.mul_base(k % self.n)
    def eq(self, P, Q): return self.C.eq(P, Q)
    def enc(self, P): return self.C.encode(P).hex()
    def desc(self, P): return "e" + self.enc(P)

    def _try_decode(self, c, sign):
        n = 32 if self.name == "ed25519" else 57
        return self.C.decode((c | (sign << (8 * n - 1))).to_bytes(n, "little"))

    def special_points(self):
        B = self.base
        out = [self.neutral, B, self.neg(B), self.dbl(B)] + list(self.low)
        out += [self.add(B, T) for T in self.low]
        return out

    def rand_point(self, rng):
        t = rng.randrange(10)
        if t == 0:
            return rng.choice(self.special_points())
        if rng.randrange(12) == 0 and self.structured_points():
            return rng.choice(self.structured_points())
        P = self.mulgen(rng.randrange(self.n) if t > 2 else self.rand_scalar(rng))
        if t in (1, 4, 5):
            P = self.add(P, rng.choice(self.low))   # mixed-order point
        return P


class QuotG(G):
    """ristretto255 / decaf448: elements represented by edwards points."""
    has_vh = True

    def _try_decode(self, c, sign):
        return self.Q.decode(c.to_bytes(self.slen, "little"))

    def __init__(self, name, Q, C, p, tors_order):
        self.name = name
        self.Q = Q
        self.C = C
        self.p = p
        self.n = C.L
        self.neutral = C.neutral
        self.base = Q.base
        self.slen = 32 if name == "ristretto255" else 56
        self.lam_bytes = self.slen
        # torsion subgroup that is quotiented out: E[4] for ristretto255, E[2] for decaf448
        self.tors = [T for T in C.low_order_points() if C.eq(C.mul(tors_order, T), C.neutral)]

    def add(self, P, Q): return self.Q.add(P, Q)
    def neg(self, P): return self.Q.neg(P)
    def mul(self, k, P): return self.Q.mul(k % self.n, P)
    def mulgen(self, k): return self.Q.mul_base(k % self.n)
    def eq(self, P, Q): return self.Q.eq(P, Q)
    def enc(self, P): return self.Q.encode(P).hex()
    def desc(self, P): return "e" + self.enc(P)

    def mods(self, P, rng):
        m = ""
        if rng.randrange(2):
            T = rng.choice(self.tors)
            m += "~t" + self.C.encode(T).hex()
        if rng.randrange(3) == 0:
            m += "~l" + self.lam(rng)
        return m


class WeierG(G):
    has_vh = True

    def _try_decode(self, c, sign):
        return self.C.lift_x(c, sign)

    def __init__(self, name, C):
        self.name = name
        self.C = C
        self.p = C.p
        self.n = C.n
        self.neutral = None
        self.base = C.G

    def add(self, P, Q): return self.C.norm(self.C.add(P, Q))
    def neg(self, P): return self.C.norm(self.C.neg(P))
    def mul(self, k, P): return self.C.norm(self.C.mul(k % self.n, P))
    def mulgen(self, k): return self.C.norm(self.C.mulgen(k % self.n))
    def eq(self, P, Q): return self.C.eq(P, Q)
    def enc(self, P): return self.C.encode_uncompressed(P).hex()

    def special_points(self):
        if getattr(self, "_sp", None) is None:
            B = self.base
            out = [self.neutral, B, self.neg(B), self.dbl(B)]
            # points with a zero coordinate (x = 0 exists on P-256), and the points whose repeated doubling lands on them
            T0 = self.C.lift_x(0, 0)
            if T0 is not None:
                for T in (T0, self.neg(T0)):
                    out.append(T)
                    for k in range(1, 8):
                        out.append(self.mul(pow(2, -k, self.n), T))
                    out.append(self.add(T, B))
                    out.append(self.mul(pow(3, -1, self.n), T))
            self._sp = out
        return self._sp

    def desc(self, P, rng=None):
        if P is None:
            return "e00"
        if rng is not None and rng.randrange(2):
            return "e" + self.C.encode_compressed(P).hex()
        return "e" + self.C.encode_uncompressed(P).hex()

    def mods(self, P, rng):
        if P is None:
            return ""
        return G.mods(self, P, rng)


class DoG(G):
    def _try_decode(self, c, sign):
        return self.D.decode(c.to_bytes(32, "little"))

    def __init__(self, name, D):
        self.name = name
        self.D = D
        self.p = D.p
        self.n = D.r
        self.neutral = D.neutral
        self.base = D.base

    def add(self, P, Q): return self.D.add(P, Q)
    def neg(self, P): return self.D.neg(P)
    def mul(self, k, P): return self.D.mul(k % self.n, P)
    def mulgen(self, k): return self.D.mulgen(k % self.n)
    def eq(self, P, Q): return self.D.eq(P, Q)
    def enc(self, P): return self.D.encode(P).hex()
    def desc(self, P): return "e" + self.enc(P)

    def special_points(self):
        if getattr(self, "_sp", None) is None:
            B = self.base
            out = [self.neutral, B, self.neg(B), self.dbl(B)]
            # group elements whose (e,u) representative has e = 0 or small u, found by decoding small u values
            for u in range(1, 40):
                for uu in (u, self.p - u):
                    P = self.D.decode(uu.to_bytes(32, "little"))
                    if P is not None and len(out) < 24:
                        out.append(P)
                        out.append(self.mul(pow(2, -1, self.n), P))
                        out.append(self.mul(pow(4, -1, self.n), P))
            self._sp = out
        return self._sp

    def mods(self, P, rng):
        m = ""
        if rng.randrange(2):
            m += "~n"
        if rng.randrange(3) == 0:
            m += "~l" + self.lam(rng)
        return m


class GlsG(G):
    def __init__(self):
        self.name = "gls254"
        self.D = ref_gls.GLS254
        self.n = self.D.r
        self.neutral = self.D.neutral
        self.base = self.D.base
        self.p = None

    def add(self, P, Q): return self.D.add(P, Q)
    def neg(self, P): return self.D.neg(P)
    def mul(self, k, P): return self.D.mul(k % self.n, P)
    def mulgen(self, k): return self.D.mulgen(k % self.n)
    def eq(self, P, Q): return self.D.eq(P, Q)
    def enc(self, P): return self.D.encode(P).hex()
    def desc(self, P): return "e" + self.enc(P)

    def lam(self, rng):
        while True:
            x0 = rng.getrandbits(127)
            x1 = rng.getrandbits(127) if rng.randrange(3) else 0
            if x0 or x1:
                return ref_gls.b254_encode((x0, x1)).hex()


GROUPS = {}


def _init():
    GROUPS["ed25519"] = EdG("ed25519", ref_ed.ED25519, P25519)
    GROUPS["ed448"] = EdG("ed448", ref_ed.ED448, P448)
    GROUPS["ristretto255"] = QuotG("ristretto255", ref_ed.RISTRETTO255, ref_ed.ED25519, P25519, 4)
    GROUPS["decaf448"] = QuotG("decaf448", ref_ed.DECAF448, ref_ed.ED448, P448, 2)
    GROUPS["p256"] = WeierG("p256", ref_weier.P256)
    GROUPS["secp256k1"] = WeierG("secp256k1", ref_weier.SECP256K1)
    GROUPS["jq255e"] = DoG("jq255e", ref_do.JQ255E)
    GROUPS["jq255s"] = DoG("jq255s", ref_do.JQ255S)
    GROUPS["gls254"] = GlsG()
    exp = {"ed25519": L25519, "ed448": L448, "ristretto255": L25519, "decaf448": L448, "p256": NP256,
           "secp256k1": NSECP, "jq255e": RJQ255E, "jq255s": RJQ255S, "gls254": RGLS254}
    for k, v in exp.items():
        assert GROUPS[k].n == v, k


_init()
ALL_CURVES = list(GROUPS)
