"""C13 -- truncated-signature verification is sound and complete.

Completeness: a valid signature whose last rm bits (8..32) were overwritten is
reconstructed exactly. Soundness: whatever is returned verifies under the
ordinary (reference) verifier and is a completion of the supplied prefix; when
no completion is valid nothing is returned. The Ed25519 search table UX_COMP
(16385 entries) is recomputed completely through the verification hook."""

import sys
import os

sys.path.insert(0, os.path.dirname(os.path.abspath(__file__)))

from common import *          # noqa
import ref_ed
import ref_weier as W
from ref_ed import ED25519


def hx(b):
    return b.hex() if b else "-"


def rb(rng, n):
    return bytes(rng.getrandbits(8) for _ in range(n))


def overwrite_last_bits(sig, rm, fill, rng):
    """overwrite the last rm bits of a 64-byte signature: the last rm//8
    bytes and the top rm%8 bits of the last non-ignored byte"""
    b = bytearray(sig)
    nb = rm // 8
    rem = rm % 8
    for i in range(64 - nb, 64):
        b[i] = {"zero": 0, "ones": 0xff, "random": rng.getrandbits(8), "orig": b[i]}[fill]
    if rem:
        i = 64 - nb - 1
        mask = (0xff << (8 - rem)) & 0xff
        v = {"zero": 0, "ones": 0xff, "random": rng.getrandbits(8), "orig": b[i]}[fill]
        b[i] = (b[i] & ~mask & 0xff) | (v & mask)
    return bytes(b)


def kept_equal(a, b, rm):
    """do two 64-byte strings agree on everything but the last rm bits?"""
    x = int.from_bytes(a[:32], "little") == int.from_bytes(b[:32], "little")
    sa = int.from_bytes(a[32:], "little") & ((1 << (256 - rm)) - 1)
    sb = int.from_bytes(b[32:], "little") & ((1 << (256 - rm)) - 1)
    return x and sa == sb


def expect_ed(pk, inp, rm, msg, ctx, ph, must):
    """must: the signature that has to be returned (completeness) or None"""
    def chk(resp):
        if not resp.startswith("OK "):
            return "no normal return: " + resp[:100]
        t = resp.split()
        if t[1] == "N":
            return "valid truncated signature not reconstructed" if must is not None else None
        if t[1] != "S":
            return "unexpected " + resp[:60]
        out = bytes.fromhex(t[2])
        if must is not None and out != must:
            return "reconstructed a different signature than the original"
        if not ref_ed.ed25519_verify(pk, out, msg, ctx, ph):
            return "returned signature is rejected by the ordinary verifier"
        if not kept_equal(out, inp, rm):
            return "returned signature is not a completion of the supplied prefix"
        return None
    return chk


def expect_p256(Q, inp, rm, hv, must):
    def chk(resp):
        if not resp.startswith("OK "):
            return "no normal return: " + resp[:100]
        t = resp.split()
        if t[1] == "N":
            return "valid truncated signature not reconstructed" if must is not None else None
        out = bytes.fromhex(t[2])
        if must is not None and out != must:
            return "reconstructed a different signature than the prepared one"
        if not W.ecdsa_verify(W.P256, Q, out, hv):
            return "returned signature is rejected by the ordinary verifier"
        # completion of the prefix: same r, and s agrees on the kept (low) bits
        r_in = inp[:32]
        s_in = int.from_bytes(inp[32:], "little") & ((1 << (256 - rm)) - 1)
        s_out = int.from_bytes(out[32:], "big")
        if out[:32] != r_in or (s_out & ((1 << (256 - rm)) - 1)) != s_in:
            return "returned signature is not a completion of the supplied prefix"
        return None
    return chk


def ux_comp_reference():
    """all 16385 entries: z_i = (x_i mod 2^48)*2^16 + i, x_i = (1+y)/(1-y) of
    U_i = i*2^240*B, sorted ascending"""
    C = ED25519
    p = C.p
    step = C.mul(1 << 240, C.B)
    P = C.neutral
    z = []
    for i in range(16385):
        x, y = P
        den = (1 - y) % p
        u = ((1 + y) * pow(den, -1, p)) % p if den else 0
        z.append(((u & ((1 << 48) - 1)) << 16) + i)
        P = C.add(P, step)
    z.sort()
    return z


def false_match_ed(rng, rm):
    """An invalid truncated Ed25519 signature for which the search *does* meet a table hit: V - i*U = +-W where W is a point of
    the prime-order subgroup whose Montgomery coordinate agrees with that of the table point j*I*U on the 48 bits the table keeps,
    and on nothing else. (V = 8(R + kA - (s0 + 2^251)B); with R = W/8 + rB and A = aB the condition is r + ka - 2^251 - s0 = i*2^n,
    reached by grinding the message.) Every candidate the hit proposes is wrong: nothing may be returned."""
    import hashlib
    C = ED25519
    p, L = C.p, C.L
    m = rm - 5
    nJ = min(14, m)
    nI = m - nJ
    n = 256 - rm
    j = rng.randrange(1, (1 << nJ) + 1)
    Uj = C.mul((j << (14 - nJ)) << 240, C.B)
    u48 = C.to_montgomery_u(Uj) & ((1 << 48) - 1)
    Wp = None
    for _ in range(400):
        u = u48 + (rng.getrandbits(206) << 48)
        if u >= p or (u + 1) % p == 0:
            continue
        y = (u - 1) * pow(u + 1, -1, p) % p
        x = C.recover_x(y, rng.randrange(2))
        if x is None:
            continue
        Wp = (x, y)
        if C.in_subgroup(Wp) and not C.eq(Wp, Uj) and not C.eq(Wp, C.neg(Uj)):
            break
        Wp = None
    if Wp is None:
        return None
    W8 = C.mul(pow(8, -1, L), Wp)
    a = rng.randrange(1, L); r = rng.randrange(1, L)
    A = C.mul_base(a)
    R = C.add(W8, C.mul_base(r))
    Ab, Rb = C.encode(A), C.encode(R)
    pre = rb(rng, 8)
    for ctr in range(1 << 19):
        M = pre + ctr.to_bytes(4, "little")
        k = int.from_bytes(hashlib.sha512(Rb + Ab + M).digest(), "little") % L
        S = (r + k * a - (1 << 251)) % L
        if S < (1 << (n + nI)):
            i = S >> n
            s0 = S - (i << n)
            inp = overwrite_last_bits(Rb + s0.to_bytes(32, "little"), rm, "random", rng)
            return Ab, inp, M, i
    return None


def false_match_p256(rng, rm):
    """An invalid truncated P-256 signature and a public key for which some V_j has the x coordinate of a table point U_i on the
    48 bits the search table keeps (and differs elsewhere). Q = (V - hG)/r with V = W + jU."""
    Cw = W.P256
    N = Cw.n
    n = 256 - rm
    m = 255 - n
    k = (m + 1) >> 1
    I = 1 << (m - k); J = 1 << k
    while True:
        R0 = Cw.mulgen(rng.randrange(1, N))
        r = R0[0]
        if 0 < r < N:
            break
    R = Cw.lift_x(r, 0)
    s0 = rng.getrandbits(n)
    U = Cw.mul(pow(2, n, N), R)
    Uk = Cw.mul(pow(2, k, N), U)
    i = rng.choice([0, I, rng.randrange(I + 1)])
    Ui = Cw.add(Cw.mul(s0, R), Cw.mul(i, Uk)) if s0 else Cw.mul(i, Uk)
    if Cw.is_inf(Ui):
        return None
    x48 = Ui[0] & ((1 << 48) - 1)
    Wp = None
    for _ in range(64):
        x = x48 + (rng.getrandbits(208) << 48)
        if x >= Cw.p or x == Ui[0]:
            continue
        Wp = Cw.lift_x(x, rng.randrange(2))
        if Wp is not None:
            break
    if Wp is None:
        return None
    j = rng.choice([0, J, rng.randrange(J + 1)])
    V = Cw.add(Wp, Cw.mul(j, U)) if j else Wp
    hv = rb(rng, 32)
    h = int.from_bytes(hv, "big") % N
    T = Cw.sub(V, Cw.mulgen(h)) if h else V
    if Cw.is_inf(T):
        return None
    Q = Cw.mul(pow(r, -1, N), T)
    inp = overwrite_last_bits(r.to_bytes(32, "big") + s0.to_bytes(32, "little"), rm, "random", rng)
    return Q, inp, hv, (i, j)


def gen(rng, shard, nshards, n_ed, n_p256, table, rms):
    cases = []
    if table and shard == 0:
        ref = ux_comp_reference()
        hexs = "".join("%016x" % v for v in ref)
        # dump in slices of 1024 entries
        for i in range(0, 16385, 1024):
            j = min(16385, i + 1024)
            cases.append(case1("s ed25519 ux_comp %d %d" % (i, j), "OK 16385 " + hexs[16 * i:16 * j], ["ux_comp-slice"], "UX_COMP table"))
    C = ED25519
    L = C.L
    if table:
        # sweep of the search table: for rm = 19 the hidden part of S is 2^14 + b with the table index |b| in 0..16384;
        # one valid signature per index (this shard's share), found by grinding the message under a fixed (a, r):
        # S = r + H(R || A || M) * a needs only a hash per trial.
        import hashlib as _hl
        a_ = rng.randrange(1, L); r_ = rng.randrange(1, L)
        Ab = C.encode(C.mul_base(a_)); Rb = C.encode(C.mul_base(r_))
        want = set(j for j in range(16385) if j % nshards == shard)
        found = {}
        pre = rb(rng, 8)
        ctr = 0
        while want and ctr < 6000000:
            M = pre + ctr.to_bytes(4, "little")
            ctr += 1
            k_ = int.from_bytes(_hl.sha512(Rb + Ab + M).digest(), "little") % L
            S_ = (r_ + k_ * a_) % L
            j = abs((S_ >> 237) - (1 << 14))
            if j in want:
                want.discard(j)
                found[j] = (M, S_)
        for j, (M, S_) in found.items():
            sig = Rb + S_.to_bytes(32, "little")
            inp = overwrite_last_bits(sig, 19, rng.choice(["zero", "ones", "random"]), rng)
            cases.append(case1("s ed25519 vtrunc %s %s 19 raw - %s" % (Ab.hex(), inp.hex(), M.hex()), expect_ed(Ab, inp, 19, M, None, False, sig),
                               ["ux-index-sweep"] + (["ux-index-sweep:j=0"] if j == 0 else []) + (["ux-index-sweep:j=16383+"] if j >= 16383 else []), "table index sweep"))
        if want:
            cases.append(case1("ping", "ORACLE-INCOMPLETE: %d table indices not reached by grinding" % len(want), ["ux-index-sweep-incomplete"]))
        # large rm: the baby-step walk is long (I = 2^(rm-19) points, normalised in batches of 200); valid signatures whose hidden
        # part is a pure baby step (table index 0: the walk reaches the neutral point itself) at a position beyond the first
        # batches, and just below / above it. S - 2^251 < 2^237 has probability 2^-15: found by grinding the message.
        rm_l = [27, 28, 29, 30, 31, 32][shard % 6]
        n_l = 256 - rm_l
        found_l = []
        ctr = 0
        while len(found_l) < 2 and ctr < 400000:
            M = pre + b"L" + ctr.to_bytes(4, "little")
            ctr += 1
            k_ = int.from_bytes(_hl.sha512(Rb + Ab + M).digest(), "little") % L
            S_ = (r_ + k_ * a_) % L
            d_ = S_ - (1 << 251)
            if 0 <= d_ < (1 << 237) and (d_ >> n_l) >= 200:
                found_l.append((M, S_, d_ >> n_l))
        for (M, S_, ai) in found_l:
            sig = Rb + S_.to_bytes(32, "little")
            inp = overwrite_last_bits(sig, rm_l, rng.choice(["zero", "ones", "random"]), rng)
            cases.append(case1("s ed25519 vtrunc %s %s %d raw - %s" % (Ab.hex(), inp.hex(), rm_l, M.hex()), expect_ed(Ab, inp, rm_l, M, None, False, sig),
                               ["walk-reaches-neutral-beyond-first-batch", "walk-reaches-neutral:rm=%d" % rm_l], "pure baby step"))
    # ---- constructed table hits on invalid input ----
    for it in range(max(2, n_ed // 25)):
        rm = rng.choice(rms)
        fm = false_match_ed(rng, rm)
        if fm is not None:
            Ab, inp, M, i = fm
            cases.append(case1("s ed25519 vtrunc %s %s %d raw - %s" % (Ab.hex(), inp.hex(), rm, M.hex()), expect_ed(Ab, inp, rm, M, None, False, None),
                               ["false-match-ed25519", "false-match-ed25519:" + ("i=0" if i == 0 else "i>0"), "false-match-ed25519:rm" + ("<=19" if rm <= 19 else ">19")],
                               "constructed 48-bit table hit"))
        rm = rng.choice(rms)
        fm = false_match_p256(rng, rm)
        if fm is not None:
            Q, inp, hv, (i, j) = fm
            cases.append(case1("s p256 vtrunc %s %s %d %s" % (W.P256.encode_compressed(Q).hex(), inp.hex(), rm, hv.hex()), expect_p256(Q, inp, rm, hv, None),
                               ["false-match-p256", "s0=0-and-V-infinite", "kept-bits-wrap-above-L", "walk-reaches-neutral-beyond-first-batch", "p256-xseq:n=199", "p256-xseq:n=200", "p256-xseq:n=0", "p256-xseq:passes-through-infinity", "p256-xseq:P0=P1", "p256-xseq:P0-infinite", "structured-s:kept-bits-all-zero", "structured-s:hidden-part-zero", "structured-s:hidden-part-all-ones", "structured-s:baby-index-zero",
                    "structured-s:giant-index-max", "false-match-p256:" + ("j=0" if j == 0 else "j>0")], "constructed 48-bit table hit"))
    # ---- Ed25519 ----
    for it in range(n_ed):
        seed = rb(rng, 32)
        pk = ref_ed.ed25519_public_key(seed)
        v = rng.randrange(3)
        mode, ctx, ph = [("raw", None, False), ("ctx", rb(rng, rng.choice([0, 4, 255])), False), ("ph", rb(rng, 3), True)][v]
        cx = hx(ctx if ctx is not None else b"")
        rm = rng.choice(rms)
        # grind the message so that the hidden part of S is extreme, for small rm
        msg = rb(rng, 64) if ph else rb(rng, rng.choice([0, 10, 64]))
        sig = ref_ed.ed25519_sign(seed, msg, ctx, ph)
        cl = {"ed25519", "rm=%d" % rm if rm in (8, 9, 15, 16, 17, 24, 31, 32) else "rm=other", mode}
        want = rng.choice(["none", "none", "hidden-min", "hidden-max"]) if rm <= 13 else "none"
        if want != "none":
            # S < L = 2^252 + small: a hidden part of 2^(rm-4) needs S >= 2^252 (probability 2^-125, not reachable honestly);
            # the largest reachable hidden part is 2^(rm-4) - 1
            hmax = (1 << (rm - 4)) - 1
            for tries in range(1 << (rm - 2)):
                S = int.from_bytes(sig[32:], "little")
                hid = S >> (256 - rm)
                if (want == "hidden-min" and hid == 0) or (want == "hidden-max" and hid == hmax):
                    cl.add(want)
                    break
                msg = rb(rng, 64) if ph else rb(rng, 12)
                sig = ref_ed.ed25519_sign(seed, msg, ctx, ph)
        kind = rng.choices(["complete", "corrupt"], [70, 30])[0]
        if kind == "complete":
            fill = rng.choice(["zero", "ones", "random", "orig"])
            inp = overwrite_last_bits(sig, rm, fill, rng)
            cl |= {"complete", "fill=" + fill}
            cases.append(case1("s ed25519 vtrunc %s %s %d %s %s %s" % (pk.hex(), inp.hex(), rm, mode, cx, hx(msg)),
                               expect_ed(pk, inp, rm, msg, ctx, ph, sig), sorted(cl), "ed25519 completeness"))
        else:
            m = rng.randrange(6)
            b = bytearray(sig)
            msg2 = msg
            if m == 0:
                b[rng.randrange(32)] ^= 1 << rng.randrange(8); cl.add("corrupt-R")
            elif m == 1:
                # flip a kept bit of S (below the truncated zone)
                bit = rng.randrange(0, 256 - rm)
                b[32 + bit // 8] ^= 1 << (bit % 8); cl.add("corrupt-kept-S-bit")
            elif m == 2:
                # lowest kept bit position just below the truncated zone: off by one unit
                S = int.from_bytes(b[32:], "little")
                S2 = (S + (1 << (255 - rm)) * rng.choice([1, -1])) % (1 << 256)
                b[32:] = S2.to_bytes(32, "little"); cl.add("kept-bits-off-by-one")
            elif m == 3:
                msg2 = msg + b"!" if not ph else rb(rng, 64); cl.add("other-message")
            elif m == 4 and rng.randrange(2):
                b = bytearray(rb(rng, 64)); cl.add("random-input")
            elif m == 4:
                # kept bits = S + (L - 2^252): with the largest hidden part (+2^(rm-5) units) the rebuilt scalar is S + L, which
                # wraps to the genuine S modulo L -- a valid signature, but not a completion of the supplied bits. Needs
                # S + L - 2^252 < 2^(256-rm): the message is ground for it (one signature in 2^(rm-4))
                cw = L - (1 << 252)
                rm = rng.choice([8, 8, 9, 10, 11, 12, 13])
                for tries in range(1 << rm):
                    S = int.from_bytes(sig[32:], "little")
                    if S + cw < (1 << (256 - rm)):
                        b = bytearray(sig[:32] + (S + cw).to_bytes(32, "little"))
                        msg2 = msg
                        cl.add("kept-bits-wrap-above-L")
                        break
                    msg = rb(rng, 64) if ph else rb(rng, 12)
                    sig = ref_ed.ed25519_sign(seed, msg, ctx, ph)
                else:
                    b = bytearray(rb(rng, 64)); cl.add("random-input")
                msg2 = msg
            else:
                b = b[:rng.choice([0, 32, 63])] + bytearray(rb(rng, rng.choice([0, 2]))); cl.add("wrong-length")
            inp = overwrite_last_bits(bytes(b), rm, "random", rng) if len(b) == 64 else bytes(b)
            # does the original signature remain a completion of the corrupted prefix? (then it must be found)
            must = None
            if len(inp) == 64 and msg2 == msg and kept_equal(inp, sig, rm):
                must = sig
            cl.add("corrupt")
            if len(inp) != 64:
                cases.append(case1("s ed25519 vtrunc %s %s %d %s %s %s" % (pk.hex(), hx(inp), rm, mode, cx, hx(msg2)), "OK N", sorted(cl), "ed25519 wrong length"))
            else:
                cases.append(case1("s ed25519 vtrunc %s %s %d %s %s %s" % (pk.hex(), inp.hex(), rm, mode, cx, hx(msg2)),
                                   expect_ed(pk, inp, rm, msg2, ctx, ph, must), sorted(cl), "ed25519 soundness"))
    # ---- P-256 ----
    Cw = W.P256
    N = Cw.n
    for it in range(n_p256):
        d = rng.randrange(1, N)
        Q = Cw.mulgen(d)
        pk = Cw.encode_compressed(Q)
        hv = rb(rng, rng.choice([20, 32, 32, 48]))
        sig = W.p256_sign(d, hv, b"")
        rm = rng.choice(rms)
        cl = {"p256", "rm=%d" % rm if rm in (8, 9, 15, 16, 17, 24, 31, 32) else "rm=other"}
        r = int.from_bytes(sig[:32], "big"); s = int.from_bytes(sig[32:], "big")
        sp = s if s < (1 << 255) else N - s
        if s >= (1 << 255):
            cl.add("s-negated-by-preparation")
        prepared = sig[:32] + sp.to_bytes(32, "little")
        standard = sig[:32] + sp.to_bytes(32, "big")
        lines = ["s p256 prep " + sig.hex()]
        exp = ["OK S " + prepared.hex()]
        kind = rng.choices(["complete", "corrupt"], [70, 30])[0]
        if kind == "complete":
            fill = rng.choice(["zero", "ones", "random", "orig"])
            inp = overwrite_last_bits(prepared, rm, fill, rng)
            cl |= {"complete", "fill=" + fill}
            lines.append("s p256 vtrunc %s %s %d %s" % (pk.hex(), inp.hex(), rm, hv.hex()))
            exp.append(expect_p256(Q, inp, rm, hv, standard))
        else:
            m = rng.randrange(8)
            b = bytearray(prepared)
            hv2 = hv
            if m >= 6:
                # "negated low part": a valid signature (r, s) built with the forged-hash construction with a small s, presented
                # as s0 = j*2^(256-rm) - s: the search meets it as -U_0 = V_j (i = 0, j != 0), which must be rejected -- and the
                # scan must then continue without running off the table (small rm: few table entries, U_0 is often the first)
                rm = rng.choice([8, 8, 9, 9, 10, 11, 12, 13, 16])
                nb = 256 - rm
                kk = (rm - 1 + 1) >> 1
                s_true = rng.randrange(1, 1 << (nb + kk))
                while True:
                    kq = rng.randrange(1, N)
                    r2 = Cw.mulgen(kq)[0] % N
                    if r2 >= Cw.p - N:
                        break
                hv2 = ((s_true * kq - r2 * d) % N).to_bytes(32, "big")
                jj = (s_true + (1 << nb) - 1) >> nb
                s0 = (jj << nb) - s_true
                b = bytearray(r2.to_bytes(32, "big") + (s0 % (1 << nb)).to_bytes(32, "little"))
                cl.add("negated-low-part")
                cl.add("rm-small" if rm <= 10 else "rm-mid")
            if m == 0:
                b[rng.randrange(32)] ^= 1 << rng.randrange(8); cl.add("corrupt-r")
            elif m == 1:
                bit = rng.randrange(0, 256 - rm)
                b[32 + bit // 8] ^= 1 << (bit % 8); cl.add("corrupt-kept-s-bit")
            elif m == 2:
                S2 = (sp + (1 << (256 - rm)) * rng.choice([1, -1])) % (1 << 256)
                b[32:] = S2.to_bytes(32, "little"); cl.add("kept-bits-off-by-one")
            elif m == 3:
                hv2 = rb(rng, 32); cl.add("other-hash")
            elif m == 4:
                # the other root n - s (not a prepared signature): only soundness applies
                b[32:] = (N - sp).to_bytes(32, "little"); cl.add("other-root")
            elif m == 5 and rng.randrange(2):
                # a valid signature (forged-hash construction) whose s lies in [n - 2^(256-rm), n): the search window of
                # the implementation extends slightly below 0, which would reach it as "s0 - 2^(256-rm) mod n"; that value
                # is not a completion of the supplied prefix, so nothing may be returned
                nb = 256 - rm
                s_true = N - 1 - rng.randrange(1 << nb) if rng.randrange(4) else N - 1 - rng.randrange(1 << 20)
                while True:
                    k = rng.randrange(1, N)
                    r2 = Cw.mulgen(k)[0] % N
                    if r2 >= Cw.p - N:
                        break
                hv2 = ((s_true * k - r2 * d) % N).to_bytes(32, "big")
                s0 = s_true + (1 << nb) - N
                if 0 <= s0 < (1 << nb):
                    b = bytearray(r2.to_bytes(32, "big") + s0.to_bytes(32, "little"))
                    cl.add("true-s-just-below-n")
            elif m == 5:
                b = bytearray(rb(rng, 64)); cl.add("random-input")
            inp = overwrite_last_bits(bytes(b), rm, "random", rng)
            must = None
            if hv2 == hv and inp[:32] == prepared[:32] and (int.from_bytes(inp[32:], "little") & ((1 << (256 - rm)) - 1)) == (sp & ((1 << (256 - rm)) - 1)):
                must = standard
            cl.add("corrupt")
            lines.append("s p256 vtrunc %s %s %d %s" % (pk.hex(), inp.hex(), rm, hv2.hex()))
            exp.append(expect_p256(Q, inp, rm, hv2, must))
        cases.append(Case(lines, exp, sorted(cl), "p256 truncated"))
    # completeness on structured s (valid signatures built with the forged-hash construction h = s*k - r*d): kept bits all zero
    # (s0*R is the point at infinity), hidden part zero / all ones, baby-step or giant-step index 0 or maximal
    for it in range(max(2, n_p256 // 6)):
        d = rng.randrange(1, N)
        Q = Cw.mulgen(d)
        pk = Cw.encode_compressed(Q)
        rm = rng.choice(rms)
        nb = 256 - rm
        m_ = rm - 1
        kk = (m_ + 1) >> 1
        J = 1 << kk; I = 1 << (m_ - kk)
        how = rng.randrange(7)
        if how == 0:
            s_true = rng.randrange(1, 1 << m_) << nb; tag = "kept-bits-all-zero"
        elif how == 1:
            s_true = rng.randrange(1, 1 << nb); tag = "hidden-part-zero"
        elif how == 2:
            s_true = (((1 << m_) - 1) << nb) | rng.getrandbits(nb); tag = "hidden-part-all-ones"
        elif how == 3:
            s_true = ((rng.randrange(I) << kk) << nb) | rng.getrandbits(nb); tag = "baby-index-zero"
        elif how == 4:
            s_true = (((rng.randrange(I) << kk) | (J - 1)) << nb) | rng.getrandbits(nb); tag = "baby-index-max"
        elif how == 5:
            s_true = (((I - 1) << kk | rng.randrange(J)) << nb) | rng.getrandbits(nb); tag = "giant-index-max"
        else:
            s_true = (rng.randrange(1, 1 << m_) << nb) | rng.choice([1, (1 << nb) - 1]); tag = "kept-bits-one-or-all-ones"
        if not (0 < s_true < N and s_true < (1 << 255)):
            continue
        kq = rng.randrange(1, N)
        r2 = Cw.mulgen(kq)[0] % N
        if r2 == 0:
            continue
        hv2 = ((s_true * kq - r2 * d) % N).to_bytes(32, "big")
        standard = r2.to_bytes(32, "big") + s_true.to_bytes(32, "big")
        if not W.ecdsa_verify(Cw, Q, standard, hv2):
            cases.append(case1("ping", "ORACLE-INCONSISTENT: forged-hash signature does not verify", ["oracle"]))
            continue
        prepared = r2.to_bytes(32, "big") + s_true.to_bytes(32, "little")
        inp = overwrite_last_bits(prepared, rm, rng.choice(["zero", "ones", "random"]), rng)
        cases.append(case1("s p256 vtrunc %s %s %d %s" % (pk.hex(), inp.hex(), rm, hv2.hex()), expect_p256(Q, inp, rm, hv2, standard),
                           ["p256", "complete", "structured-s", "structured-s:" + tag], "p256 completeness on structured s"))
    # kept bits of s all zero together with h*G + r*Q = infinity (the key owner, or whoever chose Q = -(h/r)G, can arrange it): the
    # search "finds" s = 0, which is not a signature -- nothing may be returned
    for it in range(max(2, n_p256 // 12)):
        d = rng.randrange(1, N)
        Q = Cw.mulgen(d)
        rm = rng.choice(rms)
        r2 = Cw.mulgen(rng.randrange(1, N))[0] % N
        if r2 == 0:
            continue
        hv2 = ((-r2 * d) % N).to_bytes(32, "big")
        inp = overwrite_last_bits(r2.to_bytes(32, "big") + bytes(32), rm, rng.choice(["zero", "ones", "random"]), rng)
        cases.append(case1("s p256 vtrunc %s %s %d %s" % (Cw.encode_compressed(Q).hex(), inp.hex(), rm, hv2.hex()), expect_p256(Q, inp, rm, hv2, None),
                           ["p256", "corrupt", "s0=0-and-V-infinite"], "zero s candidate"))
    # the public x-only helpers the P-256 search is built on: to_x_affine_diff / x_sequence_vartime on P_i = (k0 + i*(k1-k0))*G, with
    # sequence lengths around the internal batch size, sequences that pass through the point at infinity, P0 = P1, P0 or P1 infinite
    for it in range(max(2, n_p256 // 8)):
        t = rng.randrange(7)
        k0 = rng.randrange(1, N); dk = rng.randrange(1, N)
        nn_ = rng.choice([0, 1, 2, 3, 100, 101, 197, 198, 199, 200, 201, 202, 396, 397, 398, 399, 400, 401, rng.randrange(0, 450)])
        cl2 = ["p256-xseq", "p256-xseq:n=%s" % (nn_ if nn_ in (0, 1, 198, 199, 200, 201, 399, 400) else "other")]
        if t == 0:
            k0 = 0; cl2.append("p256-xseq:P0-infinite")
        elif t == 1:
            dk = (-k0) % N; cl2.append("p256-xseq:P1-infinite")
        elif t == 2:
            dk = 0; cl2.append("p256-xseq:P0=P1")
        elif t == 3 and nn_ > 2:
            j = rng.randrange(2, nn_ + 2)
            k0 = (-j * dk) % N; cl2.append("p256-xseq:passes-through-infinity")
        elif t == 4:
            dk = (-2 * k0) % N; cl2.append("p256-xseq:P1=-P0")
        k1 = (k0 + dk) % N

        def xof(k):
            P = Cw.mulgen(k % N) if k % N else None
            return (1 if P is None else P[0]).to_bytes(32, "little").hex()
        e = " ".join([xof(k0), xof(k1), xof(dk), xof(k0 + nn_ * dk), xof(k0 + (nn_ + 1) * dk)]) + " " + ("".join(xof(k0 + i * dk) for i in range(nn_)) or "-")
        cases.append(case1("g p256 wextra xseq %s %s %d" % (k0.to_bytes(32, "little").hex(), k1.to_bytes(32, "little").hex(), nn_), "OK " + e, cl2, "x_sequence_vartime"))
    # prepare_truncate on short / boundary forms
    for it in range(max(1, n_p256 // 4)):
        d = rng.randrange(1, N)
        t = rng.randrange(5)
        if t == 0:
            sig = rb(rng, rng.choice([0, 1, 2, 30, 62, 63, 65, 66]))
        elif t == 1:
            r = rng.choice([0, 1, Cw.p - N - 1, Cw.p - N, N - 1, N, rng.randrange(N)]); s = rng.choice([0, 1, N - 1, N, (1 << 255) - 1, 1 << 255, rng.randrange(N)])
            sig = r.to_bytes(32, "big") + s.to_bytes(32, "big")
        elif t == 2:
            # valid signature whose halves both fit 31 bytes or fewer, in short form
            while True:
                k = rng.randrange(1, N)
                r = Cw.mulgen(k)[0] % N
                if r < (1 << 248):
                    break
                if rng.randrange(64) == 0:
                    break
            s = rng.randrange(1, 1 << 247)
            ln = 31 if (r < (1 << 248)) else 32
            sig = r.to_bytes(ln, "big") + s.to_bytes(ln, "big")
        else:
            hv = rb(rng, 32)
            sig = W.p256_sign(d, hv, b"")
        e = W.p256_prepare_truncate(sig)
        cases.append(case1("s p256 prep " + hx(sig), ("OK S " + e.hex()) if e is not None else "OK N",
                           ["p256-prepare", "p256-prepare:" + ("some" if e is not None else "none"), "p256-prepare:len=%s" % ("64" if len(sig) == 64 else "other")], "prepare_truncate"))
    return cases


def main(argv):
    a = parse_args(argv)
    if a.replay:
        return do_replay(a.replay)
    rep = Report("C13", a.tier, a.seed)
    rep.rule = ("valid Ed25519 (raw/ctx/ph) and prepared P-256 signatures truncated by rm in 8..32 bits with the ignored bits filled with zeros / "
                "ones / random / original values (completeness: exact reconstruction); messages ground so that the hidden part of S is minimal / "
                "maximal for rm <= 13; corrupted prefixes (R or r bit flips, kept-bit flips, kept bits off by one unit, other message, random, "
                "the other ECDSA root) where anything returned must verify under the reference verifier and be a completion of the supplied "
                "prefix; constructed inputs where an invalid prefix meets a genuine 48-bit hit in the search table (Ed25519: a subgroup point sharing "
                "the kept 48 bits of a table entry placed on the walk; P-256: a public key computed so that some V_j shares 48 bits with some U_i); "
                "prepare_truncate on boundary and short forms; complete recomputation of the 16385-entry UX_COMP table. "
                "distinct_nontrivial = distinct requests")
    rep.assumptions = ["reference verifiers ref_ed / ref_weier", "rm outside 8..32 is outside the documented domain and not generated"]
    try:
        if a.tier == "quick":
            cfgs = (a.configs.split(",") if a.configs else ["default", "w32"])
            n1, n2 = int(1600 * a.scale), int(1200 * a.scale)
            rms = list(range(8, 33))
        else:
            cfgs = (a.configs.split(",") if a.configs else ["default", "m51", "w32", "zz32", "avx2"])
            n1, n2 = int(160000 * a.scale), int(24000 * a.scale)
            rms = list(range(8, 33))
        exes = build_many(cfgs)
        m = run_sharded("c13", "gen", (n1 // NCPU + 1, n2 // NCPU + 1, True, rms), [(c, exes[c]) for c in cfgs], a.seed, timeout=7200)
        rep.merge(m)
        rep.extra["ux_table_indices_swept_at_rm19"] = rep.classes.get("ux-index-sweep", 0)
        rep.extra["ux_comp_entries_checked"] = 16385 if rep.classes.get("ux_comp-slice", 0) >= 17 else 0
        rep.require("ux_comp-slice", "ux-index-sweep", "ux-index-sweep:j=0", "ed25519", "p256", "complete", "corrupt", "rm=8", "rm=32", "rm=16", "fill=ones", "fill=zero", "hidden-min", "hidden-max",
                    "corrupt-R", "kept-bits-off-by-one", "other-root", "negated-low-part", "s-negated-by-preparation", "false-match-ed25519", "false-match-ed25519:i>0", "false-match-p256", "p256-prepare:some", "p256-prepare:none", "p256-prepare:len=other")
    except Inconclusive as e:
        rep.incon.append(str(e))
    return rep.finish()


if __name__ == "__main__":
    sys.exit(main(sys.argv[1:]))
