"""C16 -- LMS never reuses a one-time key and accepts exactly its own signatures.

History monitor over the whole life of each key (2^h + extra sign calls): the
leaf index q of every returned signature must be strictly increasing from the
key's current index, each at most once, then 'None' forever with the state
unchanged. Fault injection: an RNG that panics inside ots_sign (after the
index is reserved, before the signature is returned); the next successful
signature must use a fresh index. Oracle: reference LMS (RFC 8554 /
SP 800-208 parameter sets) recomputes the public key and every signature from
the RNG tape and judges every corruption."""

import sys
import os
import hashlib

sys.path.insert(0, os.path.dirname(os.path.abspath(__file__)))

from common import *          # noqa


class LmsRef:
    D_PBLC = b"\x80\x80"
    D_MESG = b"\x81\x81"
    D_LEAF = b"\x82\x82"
    D_INTR = b"\x83\x83"

    def __init__(self, name, shake, n, m, key_type, ots_type, w=8, h=5):
        self.name, self.shake, self.n, self.m, self.w, self.h = name, shake, n, m, w, h
        self.key_type, self.ots_type = key_type, ots_type
        u = (8 * n + w - 1) // w
        x = ((1 << w) - 1) * u
        v = (x.bit_length() + w - 1) // w
        self.p = u + v
        self.ls = 16 - v * w
        self.ots_siglen = 4 + n + n * self.p
        self.siglen = 4 + self.ots_siglen + 4 + h * m

    def H(self, outlen, *parts):
        if self.shake:
            hh = hashlib.shake_256()
            for x in parts:
                hh.update(x)
            return hh.digest(outlen)
        hh = hashlib.sha256()
        for x in parts:
            hh.update(x)
        return hh.digest()[:outlen]

    def coef(self, Q, i):
        return Q[i]       # w = 8

    def checksum(self, Q):
        s = 0
        for i in range(self.n):
            s += 255 - Q[i]
        return (s << self.ls) & 0xFFFF

    def ots_x(self, I, SEED, q):
        eq = q.to_bytes(4, "big")
        return [self.H(self.n, I, eq, i.to_bytes(2, "big"), b"\xff", SEED) for i in range(self.p)]

    def chain(self, I, eq, i, tmp, a, b):
        for j in range(a, b):
            tmp = self.H(self.n, I, eq, i.to_bytes(2, "big"), bytes([j]), tmp)
        return tmp

    def keygen(self, I, SEED):
        h = self.h
        T = [None] * (1 << (h + 1))
        for r in range(1 << h, 1 << (h + 1)):
            q = r - (1 << h)
            eq = q.to_bytes(4, "big")
            x = self.ots_x(I, SEED, q)
            y = [self.chain(I, eq, i, x[i], 0, 255) for i in range(self.p)]
            K = self.H(self.n, I, eq, self.D_PBLC, *y)
            T[r] = self.H(self.m, I, r.to_bytes(4, "big"), self.D_LEAF, K)
        for r in range((1 << h) - 1, 0, -1):
            T[r] = self.H(self.m, I, r.to_bytes(4, "big"), self.D_INTR, T[2 * r], T[2 * r + 1])
        return T

    def sign(self, I, SEED, T, q, C, msg):
        eq = q.to_bytes(4, "big")
        Q = self.H(self.n, I, eq, self.D_MESG, C, msg)
        Qck = Q + self.checksum(Q).to_bytes(2, "big")
        x = self.ots_x(I, SEED, q)
        sig = self.ots_type.to_bytes(4, "big") + C
        for i in range(self.p):
            sig += self.chain(I, eq, i, x[i], 0, Qck[i])
        out = eq + sig + self.key_type.to_bytes(4, "big")
        r = q + (1 << self.h)
        for i in range(self.h):
            out += T[r ^ 1]
            r >>= 1
        return out

    def verify(self, I, T1, sig, msg):
        if len(sig) != self.siglen:
            return False
        q = int.from_bytes(sig[:4], "big")
        if q >= (1 << self.h):
            return False
        if int.from_bytes(sig[4 + self.ots_siglen:8 + self.ots_siglen], "big") != self.key_type:
            return False
        ots = sig[4:4 + self.ots_siglen]
        if int.from_bytes(ots[:4], "big") != self.ots_type:
            return False
        C = ots[4:4 + self.n]
        eq = q.to_bytes(4, "big")
        Q = self.H(self.n, I, eq, self.D_MESG, C, msg)
        Qck = Q + self.checksum(Q).to_bytes(2, "big")
        z = []
        for i in range(self.p):
            y = ots[4 + self.n * (i + 1):4 + self.n * (i + 2)]
            z.append(self.chain(I, eq, i, y, Qck[i], 255))
        Kc = self.H(self.n, I, eq, self.D_PBLC, *z)
        r = (1 << self.h) + q
        tmp = self.H(self.m, I, r.to_bytes(4, "big"), self.D_LEAF, Kc)
        path = sig[8 + self.ots_siglen:]
        for i in range(self.h):
            odd = r & 1
            r >>= 1
            node = path[i * self.m:(i + 1) * self.m]
            tmp = self.H(self.m, I, r.to_bytes(4, "big"), self.D_INTR, node, tmp) if odd else self.H(self.m, I, r.to_bytes(4, "big"), self.D_INTR, tmp, node)
        return tmp == T1


SETS = {
    "sha256_m32": LmsRef("sha256_m32", False, 32, 32, 0x05, 0x04),
    "sha256_m24": LmsRef("sha256_m24", False, 24, 24, 0x0a, 0x08),
    "shake_m24": LmsRef("shake_m24", True, 24, 24, 0x14, 0x10),
    "shake_m32": LmsRef("shake_m32", True, 32, 32, 0x0f, 0x0c),
}


def selftest():
    # RFC 8554 appendix F test case 2 public key (vector embedded in the repository tests)
    R = SETS["sha256_m32"]
    tape = bytes.fromhex("215f83b7ccb9acbcd08db97b0d04dc2ba1c4696e2608035a886100d05cd99945eb3370731884a8235e2fb3d4d71f25470eb1ed54a2460d512388cad533138d240534e97b1e82d33bd927d201dfc24ebb")
    I, SEED = tape[:16], tape[16:48]
    T = R.keygen(I, SEED)
    return T[1].hex() == "a1cd035833e0e90059603f26e07ad2aad152338e7a5e5984bcd5f7bb4eba40b7"


def rb(rng, n):
    return bytes(rng.getrandbits(8) for _ in range(n))


def hx(b):
    return b.hex() if b else "-"


def gen(rng, shard, nshards, keys_per_set, quick):
    cases = []
    idx = 0
    for sname, R in SETS.items():
        for kk in range(keys_per_set):
            idx += 1
            if idx % nshards != shard:
                continue
            kid = "k%d_%d" % (shard, idx)
            T_ = "l %s " % sname
            I = rb(rng, 16); SEED = rb(rng, R.m)
            tree = R.keygen(I, SEED)
            T1 = tree[1]
            lines = [T_ + "gen %s %s" % (kid, (I + SEED).hex())]
            exp = ["OK 2"]
            cl = {sname, "keygen"}
            q = 0
            nleaves = 1 << R.h
            sigs = []
            # fault positions: a few sign calls get an RNG that panics on its first fill_bytes
            faults = set(rng.sample(range(nleaves), 3))
            step = 0
            while True:
                if rng.randrange(2):
                    msg = rb(rng, rng.choice([0, 1, 32, 100]))
                else:
                    # total length of the randomised message hash (I || q || D_MESG || C || message) around a multiple of the
                    # SHA-256 block / SHAKE256 rate
                    pre = 22 + R.n
                    B = rng.choice([64, 136])
                    msg = rb(rng, max(0, B * rng.randrange(1, 5) - pre + rng.choice([-1, 0, 0, 1])))
                    cl.add("message-length-on-block-boundary")
                C = rb(rng, R.n)
                if q >= nleaves:
                    break
                if step in faults:
                    # injected crash between "index reserved" and "signature returned"
                    lines.append(T_ + "sign %s %s %s 1" % (kid, C.hex(), hx(msg)))
                    exp.append(lambda r: None if r.startswith("PANIC verif: injected RNG fault") else "expected the injected fault, got " + r[:80])
                    q += 1          # the reserved index must be burnt
                    cl.add("fault-injected")
                    step += 1
                    continue
                sig = R.sign(I, SEED, tree, q, C, msg)
                if rng.randrange(8) == 0:
                    lines.append(T_ + "sign_st %s %s %s" % (kid, C.hex(), hx(msg)))
                    exp.append("OK S " + sig.hex() + " CHANGED")
                    cl.add("state-advances")
                else:
                    lines.append(T_ + "sign %s %s %s" % (kid, C.hex(), hx(msg)))
                    exp.append("OK S " + sig.hex())
                sigs.append((sig, msg, q))
                lines.append(T_ + "verify %s %s %s" % (kid, sig.hex(), hx(msg)))
                exp.append("OK T")
                q += 1
                step += 1
            cl.add("all-leaves-used")
            # exhausted: None forever, state unchanged, old signatures still verify
            for _ in range(4):
                lines.append(T_ + "sign %s %s %s" % (kid, rb(rng, R.n).hex(), hx(rb(rng, 5))))
                exp.append("OK N")
            # ... and the refused calls leave the key state (its Debug form is the only public view of it) unchanged
            for _ in range(3):
                lines.append(T_ + "sign_st %s %s %s" % (kid, rb(rng, R.n).hex(), hx(rb(rng, 5))))
                exp.append("OK N SAME")
            cl.add("exhausted-state-unchanged")
            cl.add("exhausted-returns-none")
            for (sig, msg, qq) in rng.sample(sigs, min(4, len(sigs))):
                lines.append(T_ + "verify %s %s %s" % (kid, sig.hex(), hx(msg)))
                exp.append("OK T")
            # rejection of other messages and of every kind of alteration
            for (sig, msg, qq) in rng.sample(sigs, min(6 if quick else 12, len(sigs))):
                for _ in range(4 if quick else 10):
                    b = bytearray(sig)
                    m2 = msg
                    t = rng.randrange(10)
                    if t == 9 and msg:
                        mm = bytearray(msg)
                        # any single bit of the message, with a preference for its last block
                        pos = rng.randrange(len(mm)) if rng.randrange(2) else len(mm) - 1 - rng.randrange(min(len(mm), 64))
                        mm[pos] ^= 1 << rng.randrange(8)
                        m2 = bytes(mm); c = "message-bit-flipped"
                    elif t == 9:
                        m2 = b"\x01"; c = "other-message"
                    elif t == 0:
                        m2 = msg + b"\x00"; c = "other-message"
                    elif t == 1:
                        b[rng.randrange(4)] ^= 1 << rng.randrange(8); c = "q-field"
                    elif t == 2:
                        b[4 + rng.randrange(4)] ^= 1 << rng.randrange(8); c = "ots-type"
                    elif t == 3:
                        b[8 + rng.randrange(R.n)] ^= 1 << rng.randrange(8); c = "C-field"
                    elif t == 4:
                        i = rng.randrange(R.p)
                        b[8 + R.n + i * R.n + rng.randrange(R.n)] ^= 1 << rng.randrange(8); c = "chain-value"
                    elif t == 5:
                        off = 4 + R.ots_siglen
                        b[off + rng.randrange(4)] ^= 1 << rng.randrange(8); c = "lms-type"
                    elif t == 6:
                        off = 8 + R.ots_siglen
                        b[off + rng.randrange(R.h * R.m)] ^= 1 << rng.randrange(8); c = "path-node"
                    elif t == 7:
                        b = b[:-1] if rng.randrange(2) else b + b"\x00"; c = "length+-1"
                    else:
                        # another valid leaf index with this signature body
                        q2 = (qq + 1 + rng.randrange(nleaves - 1)) % nleaves
                        b[0:4] = q2.to_bytes(4, "big"); c = "other-leaf-index"
                    ok = R.verify(I, T1, bytes(b), m2)
                    lines.append(T_ + "verify %s %s %s" % (kid, bytes(b).hex(), hx(m2)))
                    exp.append("OK " + ("T" if ok else "F"))
                    cl.add("alter:" + c)
            # cross-key: a signature of this key under a clone taken at generation time is the same public key (accept);
            cs = Case(lines, exp, sorted(cl) + ["%s:life" % sname], "LMS key life")
            cs.items = True
            cases.append(cs)
    return cases


def main(argv):
    a = parse_args(argv)
    if a.replay:
        return do_replay(a.replay)
    rep = Report("C16", a.tier, a.seed)
    rep.rule = ("per key: 2^h sign calls (3 of them with an RNG that panics inside ots_sign), then 4 more; every returned signature must equal "
                "the reference signature for the expected next leaf index (so indices are strictly increasing, used once, and the index of a "
                "crashed call is burnt), exhausted calls return None and leave old signatures verifiable; each signature verifies; other "
                "messages and alterations of every field (q, types, C, each chain value, each path node, length +-1, other leaf index) are "
                "judged by the reference verifier. An event is one sign/verify call; distinct_nontrivial = distinct calls (keys x steps)")
    rep.assumptions = ["reference LMS (self-tested on the RFC 8554 appendix F public key)", "hashlib SHA-256 / SHAKE256"]
    try:
        if not selftest():
            raise Inconclusive("LMS reference self-test failed")
        if a.tier == "quick":
            cfgs = (a.configs.split(",") if a.configs else ["default", "w32"])
            keys = max(1, int(4 * a.scale))
        else:
            cfgs = (a.configs.split(",") if a.configs else ["default", "w32", "avx2"])
            keys = max(1, int(300 * a.scale))
        exes = build_many(cfgs)
        m = run_sharded("c16", "gen", (keys, a.tier == "quick"), [(c, exes[c]) for c in cfgs], a.seed, timeout=7200)
        rep.merge(m)
        # distinct: count distinct request lines rather than whole histories
        rep.extra["keys"] = keys * 4
        req = ["fault-injected", "all-leaves-used", "exhausted-returns-none", "alter:other-message", "alter:q-field", "alter:chain-value",
               "alter:path-node", "alter:length+-1", "alter:other-leaf-index", "alter:C-field", "alter:lms-type", "alter:ots-type", "alter:message-bit-flipped", "message-length-on-block-boundary", "exhausted-state-unchanged", "state-advances"]
        req += [s + ":life" for s in SETS]
        rep.require(*req)
    except Inconclusive as e:
        rep.incon.append(str(e))
    return rep.finish()


if __name__ == "__main__":
    sys.exit(main(sys.argv[1:]))
