#!/usr/bin/env python3
"""
ref_ed.py -- independent pure-Python reference model (oracle) for the
Edwards-curve part of crrl: edwards25519 / edwards448 group law and point
encoding, Ed25519 / Ed448 (RFC 8032, strict + cofactored verification),
ristretto255 / decaf448 (RFC 9496), X25519 / X448 (RFC 7748).

Everything is written from the RFCs and from the curve equation
    a*x^2 + y^2 = 1 + d*x^2*y^2
with textbook AFFINE formulas on Python ints:
    x3 = (x1*y2 + y1*x2) / (1 + d*x1*x2*y1*y2)
    y3 = (y1*y2 - a*x1*x2) / (1 - d*x1*x2*y1*y2)
A fast path (EFD "hwcd-2008" extended coordinates + wNAF) exists for
scalar multiplication only; the self-test cross-checks it against the
affine law.  Nothing here is a translation of crrl's code.

Points are affine tuples (x, y) of ints in [0, p).  Standard library only.

Run `python3 ref_ed.py` for the self-test (exit status 0 iff all pass).
"""

import hashlib
import json
import os
import sys

__all__ = [
    "EdCurve", "ED25519", "ED448",
    "ed25519_public_key", "ed25519_sign", "ed25519_verify",
    "ed448_public_key", "ed448_sign", "ed448_verify",
    "eddsa_verify_outcome",
    "Ristretto255", "RISTRETTO255", "Decaf448", "DECAF448",
    "x25519", "x448", "selftest",
]


# ===========================================================================
# Generic helpers
# ===========================================================================

def _inv(x, p):
    """Modular inverse; by convention 1/0 = 0 (same convention as crrl's
    field division, which matters only for to_montgomery_u)."""
    x %= p
    if x == 0:
        return 0
    return pow(x, -1, p)


def _sqrt_mod(n, p):
    """Some square root of n modulo the prime p, or None if n is not a
    square.  Supports p = 3 mod 4 and p = 5 mod 8 (all we need)."""
    n %= p
    if n == 0:
        return 0
    if p % 4 == 3:
        r = pow(n, (p + 1) // 4, p)
    elif p % 8 == 5:
        r = pow(n, (p + 3) // 8, p)
        if (r * r - n) % p != 0:
            r = r * pow(2, (p - 1) // 4, p) % p
    else:  # pragma: no cover
        raise NotImplementedError
    if (r * r - n) % p != 0:
        return None
    return r


def _wnaf(k, w):
    """Width-w non-adjacent form of k >= 0, least significant digit first."""
    out = []
    m = 1 << w
    half = m >> 1
    while k:
        if k & 1:
            d = k & (m - 1)
            if d >= half:
                d -= m
            k -= d
        else:
            d = 0
        out.append(d)
        k >>= 1
    return out


# ===========================================================================
# Edwards curves
# ===========================================================================

class EdCurve:
    """(Twisted) Edwards curve a*x^2 + y^2 = 1 + d*x^2*y^2 over GF(p), with
    a a square and d a non-square (so the affine addition law is complete)."""

    neutral = (0, 1)

    def __init__(self, name, p, a, d, L, h, B, enc_len):
        self.name = name
        self.p = p
        self.a = a % p
        self.d = d % p
        self.L = L
        self.h = h
        self.B = B
        self.enc_len = enc_len
        self._a_small = a          # +1 / -1, used by the fast path
        self._low = None
        assert self.on_curve(B)

    # ---- affine group law (the definition) --------------------------------

    def on_curve(self, P):
        p = self.p
        try:
            x, y = P
        except Exception:
            return False
        if not (isinstance(x, int) and isinstance(y, int)):
            return False
        if not (0 <= x < p and 0 <= y < p):
            return False
        xx = x * x % p
        yy = y * y % p
        return (self.a * xx + yy - 1 - self.d * xx * yy) % p == 0

    def add(self, P, Q):
        p = self.p
        x1, y1 = P
        x2, y2 = Q
        t = self.d * x1 * x2 * y1 * y2 % p
        # denominators are never 0 on curve points (complete law)
        x3 = (x1 * y2 + y1 * x2) * pow(1 + t, -1, p) % p
        y3 = (y1 * y2 - self.a * x1 * x2) * pow(1 - t, -1, p) % p
        return (x3, y3)

    def neg(self, P):
        return ((-P[0]) % self.p, P[1])

    def dbl(self, P):
        return self.add(P, P)

    def sub(self, P, Q):
        return self.add(P, self.neg(Q))

    def eq(self, P, Q):
        p = self.p
        return (P[0] - Q[0]) % p == 0 and (P[1] - Q[1]) % p == 0

    def is_neutral(self, P):
        return self.eq(P, self.neutral)

    def mul_affine(self, k, P):
        """Slow reference: plain left-to-right double-and-add with the
        affine law.  k is any int (negative allowed)."""
        if k < 0:
            k = -k
            P = self.neg(P)
        R = self.neutral
        for i in range(k.bit_length() - 1, -1, -1):
            R = self.add(R, R)
            if (k >> i) & 1:
                R = self.add(R, P)
        return R

    # ---- fast scalar multiplication (extended coordinates, wNAF-5) --------

    def _ext_add(self, P, Q):
        # EFD add-2008-hwcd (unified, complete for a square / d non-square)
        p = self.p
        X1, Y1, Z1, T1 = P
        X2, Y2, Z2, T2 = Q
        A = X1 * X2 % p
        B = Y1 * Y2 % p
        C = self.d * T1 * T2 % p
        D = Z1 * Z2 % p
        E = (X1 + Y1) * (X2 + Y2) - A - B
        F = D - C
        G = D + C
        H = B - self._a_small * A
        return (E * F % p, G * H % p, F * G % p, E * H % p)

    def _ext_dbl(self, P, need_t=True):
        # EFD dbl-2008-hwcd (does not read T1)
        p = self.p
        X1, Y1, Z1, _ = P
        A = X1 * X1 % p
        B = Y1 * Y1 % p
        C = 2 * Z1 * Z1 % p
        D = self._a_small * A
        s = X1 + Y1
        E = s * s - A - B
        G = D + B
        F = G - C
        H = D - B
        return (E * F % p, G * H % p, F * G % p, (E * H % p) if need_t else 0)

    def _to_affine(self, P):
        p = self.p
        X, Y, Z, _ = P
        zi = pow(Z, -1, p)
        return (X * zi % p, Y * zi % p)

    def mul(self, k, P):
        """k*P for any int k (reduced modulo h*L, the group exponent
        multiple).  P must be on the curve (any order)."""
        k %= self.h * self.L
        if k == 0:
            return self.neutral
        p = self.p
        x, y = P
        x %= p
        y %= p
        P1 = (x, y, 1, x * y % p)
        # odd multiples 1P, 3P, ..., 15P
        P2 = self._ext_dbl(P1)
        tab = [P1]
        for _ in range(7):
            tab.append(self._ext_add(tab[-1], P2))
        ntab = [((-X) % p, Y, Z, (-T) % p) for (X, Y, Z, T) in tab]
        naf = _wnaf(k, 5)
        R = None
        ext_add = self._ext_add
        ext_dbl = self._ext_dbl
        for i in range(len(naf) - 1, -1, -1):
            dgt = naf[i]
            if R is not None:
                R = ext_dbl(R, dgt != 0)
            if dgt:
                Q = tab[dgt >> 1] if dgt > 0 else ntab[(-dgt) >> 1]
                R = Q if R is None else ext_add(R, Q)
        return self._to_affine(R)

    def mul_base(self, k):
        return self.mul(k, self.B)

    # ---- RFC 8032 encoding -------------------------------------------------

    def encode(self, P):
        x, y = P
        x %= self.p
        y %= self.p
        return (y | ((x & 1) << (8 * self.enc_len - 1))).to_bytes(self.enc_len, "little")

    def recover_x(self, y, sign):
        """x with a*x^2 + y^2 = 1 + d*x^2*y^2 and x & 1 == sign, or None."""
        p = self.p
        yy = y * y % p
        num = (yy - 1) % p
        den = (self.d * yy - self.a) % p      # never 0: a/d is a non-square
        x = _sqrt_mod(num * pow(den, -1, p), p)
        if x is None:
            return None
        if x == 0 and sign:
            return None
        if (x & 1) != sign:
            x = p - x
        return x

    def decode(self, b):
        """Strict RFC 8032 decoding (sections 5.1.3 / 5.2.3): exact length,
        canonical y (< p), x = 0 with sign bit 1 rejected, off-curve
        rejected.  For Ed448 this implies that the low 7 bits of the last
        byte are 0 (y < p < 2^448)."""
        if not isinstance(b, (bytes, bytearray)) or len(b) != self.enc_len:
            return None
        v = int.from_bytes(b, "little")
        top = 8 * self.enc_len - 1
        sign = v >> top
        y = v & ((1 << top) - 1)
        if self.enc_len == 57 and (b[56] & 0x7F) != 0:
            return None
        if y >= self.p:
            return None
        x = self.recover_x(y, sign)
        if x is None:
            return None
        return (x, y)

    # ---- torsion / subgroup -------------------------------------------------

    def low_order_points(self):
        """All h points whose order divides h (E[8] for edwards25519, E[4]
        for edwards448), as [0*T, 1*T, ..., (h-1)*T] for a generator T of
        that (cyclic) group."""
        if self._low is None:
            y = 2
            while True:
                x = self.recover_x(y, 0)
                y += 1
                if x is None:
                    continue
                T = self.mul_affine(self.L, (x, y - 1))
                # T generates E[h] iff (h/2)*T != neutral
                if not self.is_neutral(self.mul_affine(self.h // 2, T)):
                    break
            pts = [self.neutral]
            for _ in range(self.h - 1):
                pts.append(self.add(pts[-1], T))
            assert self.is_neutral(self.add(pts[-1], T))
            self._low = pts
        return list(self._low)

    def has_low_order(self, P):
        return self.is_neutral(self.mul(self.h, P))

    def in_subgroup(self, P):
        return self.on_curve(P) and self.is_neutral(self.mul(self.L, P))

    # ---- map to the Montgomery curve ---------------------------------------

    def to_montgomery_u(self, P):
        """u coordinate on curve25519 / curve448 as crrl's
        Point::to_montgomery_u documents it.
          edwards25519: birational map u = (1+y)/(1-y)  (RFC 7748 4.1);
                        neutral (y = 1) -> 0 (crrl: "If this point is the
                        neutral, then 0 is returned"; division by 0 gives 0).
                        The order-2 point (0,-1) gives 0 too (numerator 0).
          edwards448:   RFC 7748 4.2 4-isogeny u = y^2/x^2; x = 0 (neutral
                        and the order-2 point (0,-1)) -> 0, same convention.
        """
        p = self.p
        x, y = P
        if self.enc_len == 32:
            return (1 + y) * _inv(1 - y, p) % p
        return pow(y * _inv(x, p), 2, p)


_P25519 = 2**255 - 19
_D25519 = (-121665 * pow(121666, -1, _P25519)) % _P25519
_L25519 = 2**252 + 27742317777372353535851937790883648493
_BY25519 = 4 * pow(5, -1, _P25519) % _P25519
_BX25519 = _sqrt_mod((_BY25519 * _BY25519 - 1) * pow(_D25519 * _BY25519 * _BY25519 + 1, -1, _P25519), _P25519)
if _BX25519 & 1:
    _BX25519 = _P25519 - _BX25519

ED25519 = EdCurve("edwards25519", _P25519, -1, _D25519, _L25519, 8,
                  (_BX25519, _BY25519), 32)

_P448 = 2**448 - 2**224 - 1
_L448 = 2**446 - 13818066809895115352007386748515426880336692474882178609894547503885
ED448 = EdCurve(
    "edwards448", _P448, 1, -39081, _L448, 4,
    (224580040295924300187604334099896036246789641632564134246125461686950415467406032909029192869357953282578032075146446173674602635247710,
     298819210078481492676017930443930673437544040154080242095928241372331506189835876003536878655418784733982303233503462500531545062832660),
    57)
