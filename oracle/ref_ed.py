#!/usr/bin/env python3
"""
ref_ed.py -- independent pure-Python reference model (oracle) for the
Edwards-curve part of crrl: edwards25519 / edwards448 group law and point
encoding, Ed25519 / Ed448 (RFC 8032, strict + cofactored verification),
ristretto255 / decaf448 (RFC 9496), X25519 / X448 (RFC 7748).

Everything is written from the RFCs and from the curve equation
    a*x^2 + y^2 = 1 + d*x^2*y^2
with textbook AFFINE formulas on Python ints:
    x3 = (x1*y2 + y1*x2) / (1 + d*x1*x2*y1*y2)
    y3 = (y1*y2 - a*x1*x2) / (1 - d*x1*x2*y1*y2)
A fast path (EFD "hwcd-2008" extended coordinates + wNAF) exists for
scalar multiplication only; the self-test cross-checks it against the
affine law.  Nothing here is a translation of crrl's code.

Points are affine tuples (x, y) of ints in [0, p).  Standard library only.

Run `python3 ref_ed.py` for the self-test (exit status 0 iff all pass).
"""

import hashlib
import json
import os
import sys
from math import gcd

__all__ = [
    "EdCurve", "ED25519", "ED448",
    "ed25519_public_key", "ed25519_sign", "ed25519_verify",
    "ed448_public_key", "ed448_sign", "ed448_verify",
    "eddsa_verify_outcome",
    "Ristretto255", "RISTRETTO255", "Decaf448", "DECAF448",
    "x25519", "x448", "selftest",
]


# ===========================================================================
# Generic helpers
# ===========================================================================

def _inv(x, p):
    """Modular inverse; by convention 1/0 = 0 (same convention as crrl's
    field division, which matters only for to_montgomery_u)."""
    x %= p
    if x == 0:
        return 0
    return pow(x, -1, p)


def _sqrt_mod(n, p):
    """Some square root of n modulo the prime p, or None if n is not a
    square.  Supports p = 3 mod 4 and p = 5 mod 8 (all we need)."""
    n %= p
    if n == 0:
        return 0
    if p % 4 == 3:
        r = pow(n, (p + 1) // 4, p)
    elif p % 8 == 5:
        r = pow(n, (p + 3) // 8, p)
        if (r * r - n) % p != 0:
            r = r * pow(2, (p - 1) // 4, p) % p
    else:  # pragma: no cover
        raise NotImplementedError
    if (r * r - n) % p != 0:
        return None
    return r


def _wnaf(k, w):
    """Width-w non-adjacent form of k >= 0, least significant digit first."""
    out = []
    m = 1 << w
    half = m >> 1
    while k:
        if k & 1:
            d = k & (m - 1)
            if d >= half:
                d -= m
            k -= d
        else:
            d = 0
        out.append(d)
        k >>= 1
    return out


# ===========================================================================
# Edwards curves
# ===========================================================================

class EdCurve:
    """(Twisted) Edwards curve a*x^2 + y^2 = 1 + d*x^2*y^2 over GF(p), with
    a a square and d a non-square (so the affine addition law is complete)."""

    neutral = (0, 1)

    def __init__(self, name, p, a, d, L, h, B, enc_len):
        self.name = name
        self.p = p
        self.a = a % p
        self.d = d % p
        self.L = L
        self.h = h
        self.B = B
        self.enc_len = enc_len
        self._a_small = a          # +1 / -1, used by the fast path
        self._low = None
        self._btab = None
        assert self.on_curve(B)

    # ---- affine group law (the definition) --------------------------------

    def on_curve(self, P):
        p = self.p
        try:
            x, y = P
        except Exception:
            return False
        if not (isinstance(x, int) and isinstance(y, int)):
            return False
        if not (0 <= x < p and 0 <= y < p):
            return False
        xx = x * x % p
        yy = y * y % p
        return (self.a * xx + yy - 1 - self.d * xx * yy) % p == 0

    def add(self, P, Q):
        p = self.p
        x1, y1 = P
        x2, y2 = Q
        t = self.d * x1 * x2 * y1 * y2 % p
        # denominators are never 0 on curve points (complete law)
        x3 = (x1 * y2 + y1 * x2) * pow(1 + t, -1, p) % p
        y3 = (y1 * y2 - self.a * x1 * x2) * pow(1 - t, -1, p) % p
        return (x3, y3)

    def neg(self, P):
        return ((-P[0]) % self.p, P[1])

    def dbl(self, P):
        return self.add(P, P)

    def sub(self, P, Q):
        return self.add(P, self.neg(Q))

    def eq(self, P, Q):
        p = self.p
        return (P[0] - Q[0]) % p == 0 and (P[1] - Q[1]) % p == 0

    def is_neutral(self, P):
        return self.eq(P, self.neutral)

    def mul_affine(self, k, P):
        """Slow reference: plain left-to-right double-and-add with the
        affine law.  k is any int (negative allowed)."""
        if k < 0:
            k = -k
            P = self.neg(P)
        R = self.neutral
        for i in range(k.bit_length() - 1, -1, -1):
            R = self.add(R, R)
            if (k >> i) & 1:
                R = self.add(R, P)
        return R

    # ---- fast scalar multiplication (extended coordinates, wNAF-5) --------

    def _ext_add(self, P, Q):
        # EFD add-2008-hwcd (unified, complete for a square / d non-square)
        p = self.p
        X1, Y1, Z1, T1 = P
        X2, Y2, Z2, T2 = Q
        A = X1 * X2 % p
        B = Y1 * Y2 % p
        C = self.d * T1 * T2 % p
        D = Z1 * Z2 % p
        E = (X1 + Y1) * (X2 + Y2) - A - B
        F = D - C
        G = D + C
        H = B - self._a_small * A
        return (E * F % p, G * H % p, F * G % p, E * H % p)

    def _ext_dbl(self, P, need_t=True):
        # EFD dbl-2008-hwcd (does not read T1)
        p = self.p
        X1, Y1, Z1, _ = P
        A = X1 * X1 % p
        B = Y1 * Y1 % p
        C = 2 * Z1 * Z1 % p
        D = self._a_small * A
        s = X1 + Y1
        E = s * s - A - B
        G = D + B
        F = G - C
        H = D - B
        return (E * F % p, G * H % p, F * G % p, (E * H % p) if need_t else 0)

    def _to_affine(self, P):
        p = self.p
        X, Y, Z, _ = P
        zi = pow(Z, -1, p)
        return (X * zi % p, Y * zi % p)

    def mul(self, k, P):
        """k*P for any int k (reduced modulo h*L, a multiple of the group
        exponent).  P must be on the curve (any order).  wNAF-5 over
        extended coordinates; the doubling/addition formulas are inlined
        copies of _ext_dbl/_ext_add."""
        k %= self.h * self.L
        if k == 0:
            return self.neutral
        p = self.p
        a = self._a_small
        x, y = P
        x %= p
        y %= p
        P1 = (x, y, 1, x * y % p)
        P2 = self._ext_dbl(P1)
        tab = [P1]
        for _ in range(7):
            tab.append(self._ext_add(tab[-1], P2))
        d = self.d
        # table entries hold d*T instead of T (saves one product per add)
        tab = [(X, Y, Z, d * T % p) for (X, Y, Z, T) in tab]
        ntab = [(-X, Y, Z, -T) for (X, Y, Z, T) in tab]
        naf = _wnaf(k, 5)
        X1, Y1, Z1 = 0, 1, 1
        i = len(naf)
        while i:
            i -= 1
            dg = naf[i]
            A = X1 * X1 % p
            B = Y1 * Y1 % p
            C = 2 * Z1 * Z1 % p
            D = a * A
            s = X1 + Y1
            E = s * s - A - B
            G = D + B
            F = G - C
            H = D - B
            X1 = E * F % p
            Y1 = G * H % p
            Z1 = F * G % p
            if dg:
                T1 = E * H % p
                X2, Y2, Z2, T2 = tab[dg >> 1] if dg > 0 else ntab[(-dg) >> 1]
                A = X1 * X2 % p
                B = Y1 * Y2 % p
                C = T1 * T2 % p
                D = Z1 * Z2 % p
                E = (X1 + Y1) * (X2 + Y2) - A - B
                F = D - C
                G = D + C
                H = B - a * A
                X1 = E * F % p
                Y1 = G * H % p
                Z1 = F * G % p
        zi = pow(Z1, -1, p)
        return (X1 * zi % p, Y1 * zi % p)

    def _base_table(self):
        if self._btab is None:
            p = self.p
            d = self.d
            nwin = (self.L.bit_length() + 3 + 3) // 4   # covers k < h*L
            rows = []
            x, y = self.B
            Q = (x, y, 1, x * y % p)
            for _ in range(nwin):
                row = [Q]
                for _ in range(14):
                    row.append(self._ext_add(row[-1], Q))
                rows.append(row)
                Q = self._ext_add(row[-1], Q)          # 16 * previous Q
            self._btab = [[(X, Y, Z, d * T % p) for (X, Y, Z, T) in row]
                          for row in rows]
        return self._btab

    def mul_base(self, k):
        """k*B using a cached table of j*16^i*B (j = 1..15)."""
        k %= self.h * self.L
        tabs = self._base_table()
        p = self.p
        a = self._a_small
        X1, Y1, Z1, T1 = 0, 1, 1, 0
        i = 0
        while k:
            j = k & 15
            k >>= 4
            if j:
                X2, Y2, Z2, T2 = tabs[i][j - 1]
                A = X1 * X2 % p
                B = Y1 * Y2 % p
                C = T1 * T2 % p
                D = Z1 * Z2 % p
                E = (X1 + Y1) * (X2 + Y2) - A - B
                F = D - C
                G = D + C
                H = B - a * A
                X1 = E * F % p
                Y1 = G * H % p
                Z1 = F * G % p
                T1 = E * H % p
            i += 1
        zi = pow(Z1, -1, p)
        return (X1 * zi % p, Y1 * zi % p)

    # ---- RFC 8032 encoding -------------------------------------------------

    def encode(self, P):
        x, y = P
        x %= self.p
        y %= self.p
        return (y | ((x & 1) << (8 * self.enc_len - 1))).to_bytes(self.enc_len, "little")

    def recover_x(self, y, sign):
        """x with a*x^2 + y^2 = 1 + d*x^2*y^2 and x & 1 == sign, or None."""
        p = self.p
        yy = y * y % p
        num = (yy - 1) % p
        den = (self.d * yy - self.a) % p      # never 0: a/d is a non-square
        x = _sqrt_mod(num * pow(den, -1, p), p)
        if x is None:
            return None
        if x == 0 and sign:
            return None
        if (x & 1) != sign:
            x = p - x
        return x

    def decode(self, b):
        """Strict RFC 8032 decoding (sections 5.1.3 / 5.2.3): exact length,
        canonical y (< p), x = 0 with sign bit 1 rejected, off-curve
        rejected.  For Ed448 this implies that the low 7 bits of the last
        byte are 0 (y < p < 2^448)."""
        if not isinstance(b, (bytes, bytearray)) or len(b) != self.enc_len:
            return None
        v = int.from_bytes(b, "little")
        top = 8 * self.enc_len - 1
        sign = v >> top
        y = v & ((1 << top) - 1)
        if self.enc_len == 57 and (b[56] & 0x7F) != 0:
            return None
        if y >= self.p:
            return None
        x = self.recover_x(y, sign)
        if x is None:
            return None
        return (x, y)

    # ---- torsion / subgroup -------------------------------------------------

    def low_order_points(self):
        """All h points whose order divides h (E[8] for edwards25519, E[4]
        for edwards448), as [0*T, 1*T, ..., (h-1)*T] for a generator T of
        that (cyclic) group."""
        if self._low is None:
            y = 2
            while True:
                x = self.recover_x(y, 0)
                y += 1
                if x is None:
                    continue
                T = self.mul_affine(self.L, (x, y - 1))
                # T generates E[h] iff (h/2)*T != neutral
                if not self.is_neutral(self.mul_affine(self.h // 2, T)):
                    break
            pts = [self.neutral]
            for _ in range(self.h - 1):
                pts.append(self.add(pts[-1], T))
            assert self.is_neutral(self.add(pts[-1], T))
            self._low = pts
        return list(self._low)

    def has_low_order(self, P):
        return self.is_neutral(self.mul(self.h, P))

    def in_subgroup(self, P):
        return self.on_curve(P) and self.is_neutral(self.mul(self.L, P))

    # ---- map to the Montgomery curve ---------------------------------------

    def to_montgomery_u(self, P):
        """u coordinate on curve25519 / curve448 as crrl's
        Point::to_montgomery_u documents it.
          edwards25519: birational map u = (1+y)/(1-y)  (RFC 7748 4.1);
                        neutral (y = 1) -> 0 (crrl: "If this point is the
                        neutral, then 0 is returned"; division by 0 gives 0).
                        The order-2 point (0,-1) gives 0 too (numerator 0).
          edwards448:   RFC 7748 4.2 4-isogeny u = y^2/x^2; x = 0 (neutral
                        and the order-2 point (0,-1)) -> 0, same convention.
        """
        p = self.p
        x, y = P
        if self.enc_len == 32:
            return (1 + y) * _inv(1 - y, p) % p
        return pow(y * _inv(x, p), 2, p)


_P25519 = 2**255 - 19
_D25519 = (-121665 * pow(121666, -1, _P25519)) % _P25519
_L25519 = 2**252 + 27742317777372353535851937790883648493
_BY25519 = 4 * pow(5, -1, _P25519) % _P25519
_BX25519 = _sqrt_mod((_BY25519 * _BY25519 - 1) * pow(_D25519 * _BY25519 * _BY25519 + 1, -1, _P25519), _P25519)
if _BX25519 & 1:
    _BX25519 = _P25519 - _BX25519

ED25519 = EdCurve("edwards25519", _P25519, -1, _D25519, _L25519, 8,
                  (_BX25519, _BY25519), 32)

_P448 = 2**448 - 2**224 - 1
_L448 = 2**446 - 13818066809895115352007386748515426880336692474882178609894547503885
ED448 = EdCurve(
    "edwards448", _P448, 1, -39081, _L448, 4,
    (224580040295924300187604334099896036246789641632564134246125461686950415467406032909029192869357953282578032075146446173674602635247710,
     298819210078481492676017930443930673437544040154080242095928241372331506189835876003536878655418784733982303233503462500531545062832660),
    57)


# ===========================================================================
# EdDSA (RFC 8032), strict decoding + cofactored verification
# ===========================================================================
#
# Context strings longer than 255 bytes
# -------------------------------------
# RFC 8032 requires len(ctx) <= 255 (it is encoded on one octet in dom2/dom4).
# crrl documents "The context string MUST have length at most 255 bytes" and
# enforces it with `assert!(ctx.len() <= 255)`, i.e. it PANICS:
#   * sign_ctx / sign_ph (Ed25519) and sign_ctx / sign_ph (Ed448): always
#     panic when len(ctx) > 255;
#   * verify_ctx / verify_ph: the assert sits AFTER the cheap syntactic
#     checks, so crrl returns false if the signature has the wrong length /
#     R does not decode / S >= L (Ed448: also last byte != 0), and panics
#     otherwise.
#   * Ed25519 "raw" mode has no context and never panics.
# This model: *_sign raise ValueError; *_verify return False;
# eddsa_verify_outcome() reproduces the panic/false split exactly.

_DOM2_PREFIX = b"SigEd25519 no Ed25519 collisions"
_DOM4_PREFIX = b"SigEd448"


def _sha512(*parts):
    h = hashlib.sha512()
    for x in parts:
        h.update(x)
    return h.digest()


def _shake256_114(*parts):
    h = hashlib.shake_256()
    for x in parts:
        h.update(x)
    return h.digest(114)


def _dom2(ctx, ph):
    """dom2(F, C) of RFC 8032; empty string for pure Ed25519
    (ctx is None and not ph)."""
    if ctx is None and not ph:
        return b""
    if ctx is None:
        ctx = b""
    if len(ctx) > 255:
        raise ValueError("context too long (crrl panics)")
    return _DOM2_PREFIX + bytes([1 if ph else 0, len(ctx)]) + bytes(ctx)


def _dom4(ctx, ph):
    if ctx is None:
        ctx = b""
    if len(ctx) > 255:
        raise ValueError("context too long (crrl panics)")
    return _DOM4_PREFIX + bytes([1 if ph else 0, len(ctx)]) + bytes(ctx)


def _ed25519_expand(seed):
    if len(seed) != 32:
        raise ValueError("Ed25519 seed must be 32 bytes (crrl panics)")
    h = _sha512(seed)
    a = int.from_bytes(h[:32], "little")
    a &= (1 << 254) - 8
    a |= 1 << 254
    return a, h[32:]


def _ed448_expand(seed):
    if len(seed) != 57:
        raise ValueError("Ed448 seed must be 57 bytes (crrl panics)")
    h = _shake256_114(seed)
    b = bytearray(h[:57])
    b[0] &= 0xFC
    b[55] |= 0x80
    b[56] = 0
    return int.from_bytes(b, "little"), h[57:]


def ed25519_public_key(seed32):
    a, _ = _ed25519_expand(bytes(seed32))
    return ED25519.encode(ED25519.mul_base(a))


def ed25519_sign(seed32, msg, ctx=None, ph=False):
    """ctx=None, ph=False: pure Ed25519.  ctx given (possibly b''), ph=False:
    Ed25519ctx.  ph=True: Ed25519ph, `msg` is ALREADY the prehash (crrl's
    sign_ph(ctx, hm) takes the hash value; its length is not checked)."""
    C = ED25519
    msg = bytes(msg)
    dom = _dom2(ctx, ph)
    a, prefix = _ed25519_expand(bytes(seed32))
    A = C.encode(C.mul_base(a))
    r = int.from_bytes(_sha512(dom, prefix, msg), "little") % C.L
    R = C.encode(C.mul_base(r))
    k = int.from_bytes(_sha512(dom, R, A, msg), "little") % C.L
    S = (r + k * a) % C.L
    return R + S.to_bytes(32, "little")


def ed448_public_key(seed57):
    a, _ = _ed448_expand(bytes(seed57))
    return ED448.encode(ED448.mul_base(a))


def ed448_sign(seed57, msg, ctx=b"", ph=False):
    """Ed448 (ph=False) / Ed448ph (ph=True; `msg` is ALREADY the 64-byte
    SHAKE256 prehash, as for crrl's sign_ph).  dom4 is always present."""
    C = ED448
    msg = bytes(msg)
    dom = _dom4(ctx, ph)
    a, prefix = _ed448_expand(bytes(seed57))
    A = C.encode(C.mul_base(a))
    r = int.from_bytes(_shake256_114(dom, prefix, msg), "little") % C.L
    R = C.encode(C.mul_base(r))
    k = int.from_bytes(_shake256_114(dom, R, A, msg), "little") % C.L
    S = (r + k * a) % C.L
    return R + S.to_bytes(57, "little")


def eddsa_equation(C, A, R, S, k):
    """The cofactored verification equation [h]([S]B - R - [k]A) == neutral
    on affine points A, R of curve C."""
    Q = C.sub(C.sub(C.mul_base(S), R), C.mul(k, A))
    return C.is_neutral(C.mul_affine(C.h, Q))


def eddsa_verify_outcome(curve, pk_bytes, sig, msg, ctx=None, ph=False):
    """Returns "accept", "reject" or "panic" -- the latter exactly when crrl's
    verify_ctx / verify_ph would hit `assert!(ctx.len() <= 255)`.
    `pk_bytes` not decoding yields "reject" (in crrl PublicKey::decode
    returns None, so verification cannot even be attempted).
    curve is ED25519 or ED448.  For ED448, ctx=None means b''."""
    C = curve
    n = C.enc_len
    pk_bytes = bytes(pk_bytes)
    sig = bytes(sig)
    msg = bytes(msg)
    A = C.decode(pk_bytes)
    if A is None:
        return "reject"
    if len(sig) != 2 * n:
        return "reject"
    R = C.decode(sig[:n])
    if R is None:
        return "reject"
    S = int.from_bytes(sig[n:], "little")
    if S >= C.L:
        return "reject"
    try:
        if C is ED25519:
            dom = _dom2(ctx, ph)
            k = int.from_bytes(_sha512(dom, sig[:n], pk_bytes, msg), "little") % C.L
        else:
            dom = _dom4(ctx, ph)
            k = int.from_bytes(_shake256_114(dom, sig[:n], pk_bytes, msg), "little") % C.L
    except ValueError:
        return "panic"
    return "accept" if eddsa_equation(C, A, R, S, k) else "reject"


def ed25519_verify(pk_bytes, sig, msg, ctx=None, ph=False):
    """Strict RFC 8032 / FIPS 186-5 verification: len(sig) == 64, A and R
    decode canonically, S < L, and [8]([S]B - R - [k]A) == neutral.
    len(ctx) > 255 -> False (crrl: see note above)."""
    return eddsa_verify_outcome(ED25519, pk_bytes, sig, msg, ctx, ph) == "accept"


def ed448_verify(pk_bytes, sig, msg, ctx=b"", ph=False):
    """Same for Ed448: len(sig) == 114, S (57 bytes, little-endian) < L --
    hence last byte 0 --, and [4]([S]B - R - [k]A) == neutral."""
    return eddsa_verify_outcome(ED448, pk_bytes, sig, msg, ctx, ph) == "accept"


# ===========================================================================
# ristretto255 and decaf448 (RFC 9496)
# ===========================================================================
#
# A group element is represented by ANY affine Edwards point (x, y) of its
# coset: for ristretto255 a point of the even subgroup 2E of edwards25519,
# modulo E[4]; for decaf448 a point of 2E of edwards448, modulo
# E[2] = {(0,1), (0,-1)}.  Group operations are the Edwards ones.

def _is_neg(x):
    return x & 1


class Ristretto255:
    curve = ED25519
    enc_len = 32
    map_len = 64
    p = _P25519
    L = _L25519
    D = _D25519
    # constants of RFC 9496 section 4.1 (decimal values from the RFC; the
    # asserts below tie them to their definitions)
    SQRT_M1 = 19681161376707505956807079304988542015446066515923890162744021073123829784752
    SQRT_AD_MINUS_ONE = 25063068953384623474111414158702152701244531502492656460079210482610430750235
    INVSQRT_A_MINUS_D = 54469307008909316920995813868745141605393597292927456921205312896311721017578
    ONE_MINUS_D_SQ = (1 - _D25519 * _D25519) % _P25519
    D_MINUS_ONE_SQ = (_D25519 - 1) ** 2 % _P25519

    neutral = (0, 1)
    base = ED25519.B

    def _abs(self, x):
        x %= self.p
        return self.p - x if x & 1 else x

    def sqrt_ratio_m1(self, u, v):
        """SQRT_RATIO_M1 of RFC 9496 4.2, implemented from its specification
        (not from the exponentiation recipe):
          u/v square (or u = 0)       -> (True,  |sqrt(u/v)|)
          v = 0, u != 0               -> (False, 0)
          u/v non-square              -> (False, |sqrt(SQRT_M1*u/v)|)"""
        p = self.p
        u %= p
        v %= p
        if u == 0:
            return True, 0
        if v == 0:
            return False, 0
        q = u * pow(v, -1, p) % p
        r = _sqrt_mod(q, p)
        if r is not None:
            return True, self._abs(r)
        r = _sqrt_mod(self.SQRT_M1 * q, p)
        assert r is not None
        return False, self._abs(r)

    def decode(self, b):
        """RFC 9496 4.3.1 (strict: 32 bytes, s < p, s non-negative, ...)."""
        if not isinstance(b, (bytes, bytearray)) or len(b) != 32:
            return None
        p = self.p
        s = int.from_bytes(b, "little")
        if s >= p or _is_neg(s):
            return None
        ss = s * s % p
        u1 = (1 - ss) % p
        u2 = (1 + ss) % p
        u2_sqr = u2 * u2 % p
        v = (-(self.D * u1 * u1) - u2_sqr) % p
        was_square, invsqrt = self.sqrt_ratio_m1(1, v * u2_sqr)
        den_x = invsqrt * u2 % p
        den_y = invsqrt * den_x * v % p
        x = self._abs(2 * s * den_x)
        y = u1 * den_y % p
        t = x * y % p
        if (not was_square) or _is_neg(t) or y == 0:
            return None
        return (x, y)

    def encode(self, P):
        """RFC 9496 4.3.2 on the affine representative (z0 = 1, t0 = x0*y0)."""
        p = self.p
        x0, y0 = P
        x0 %= p
        y0 %= p
        z0 = 1
        t0 = x0 * y0 % p
        u1 = (z0 + y0) * (z0 - y0) % p
        u2 = x0 * y0 % p
        _, invsqrt = self.sqrt_ratio_m1(1, u1 * u2 * u2)
        den1 = invsqrt * u1 % p
        den2 = invsqrt * u2 % p
        z_inv = den1 * den2 * t0 % p
        ix0 = x0 * self.SQRT_M1 % p
        iy0 = y0 * self.SQRT_M1 % p
        enchanted_denominator = den1 * self.INVSQRT_A_MINUS_D % p
        if _is_neg(t0 * z_inv % p):
            x, y, den_inv = iy0, ix0, enchanted_denominator
        else:
            x, y, den_inv = x0, y0, den2
        if _is_neg(x * z_inv % p):
            y = (-y) % p
        s = self._abs(den_inv * (z0 - y))
        return s.to_bytes(32, "little")

    def eq(self, P, Q):
        """RFC 9496 4.3.3."""
        p = self.p
        x1, y1 = P
        x2, y2 = Q
        return (x1 * y2 - y1 * x2) % p == 0 or (y1 * y2 - x1 * x2) % p == 0

    def is_neutral(self, P):
        return self.eq(P, self.neutral)

    def _map(self, t):
        """MAP of RFC 9496 4.3.4 (Elligator 2), returns an affine point."""
        p = self.p
        D = self.D
        r = self.SQRT_M1 * t * t % p
        u = (r + 1) * self.ONE_MINUS_D_SQ % p
        v = (-1 - r * D) * (r + D) % p
        was_square, s = self.sqrt_ratio_m1(u, v)
        s_prime = (-self._abs(s * t)) % p
        if not was_square:
            s = s_prime
            c = r
        else:
            c = p - 1
        N = (c * (r - 1) * self.D_MINUS_ONE_SQ - v) % p
        w0 = 2 * s * v % p
        w1 = N * self.SQRT_AD_MINUS_ONE % p
        w2 = (1 - s * s) % p
        w3 = (1 + s * s) % p
        # (X:Y:Z:T) = (w0*w3 : w2*w1 : w1*w3 : w0*w2)  ->  x = w0/w1, y = w2/w3
        assert w1 != 0 and w3 != 0
        return (w0 * pow(w1, -1, p) % p, w2 * pow(w3, -1, p) % p)

    def one_way_map(self, b):
        """Element derivation of RFC 9496 4.3.4, as documented by
        crrl::ristretto255::Point::one_way_map: the input MUST be exactly 64
        bytes (crrl panics otherwise -> ValueError here); each 32-byte half
        has its top bit masked and is reduced modulo p; result is
        MAP(t1) + MAP(t2)."""
        b = bytes(b)
        if len(b) != 64:
            raise ValueError("one_way_map input must be 64 bytes (crrl panics)")
        m = (1 << 255) - 1
        t1 = (int.from_bytes(b[:32], "little") & m) % self.p
        t2 = (int.from_bytes(b[32:], "little") & m) % self.p
        return self.curve.add(self._map(t1), self._map(t2))

    # group operations are inherited from the curve
    def add(self, P, Q):
        return self.curve.add(P, Q)

    def neg(self, P):
        return self.curve.neg(P)

    def sub(self, P, Q):
        return self.curve.sub(P, Q)

    def dbl(self, P):
        return self.curve.dbl(P)

    def mul(self, k, P):
        return self.curve.mul(k % self.L, P)

    def mul_base(self, k):
        return self.curve.mul(k % self.L, self.base)

    def is_valid_representative(self, P):
        """P is on the curve and in 2E (i.e. [4L]P == neutral)."""
        c = self.curve
        return c.on_curve(P) and c.is_neutral(c.mul(c.L * c.h // 2, P))


assert Ristretto255.SQRT_M1 ** 2 % _P25519 == _P25519 - 1
assert Ristretto255.SQRT_AD_MINUS_ONE ** 2 % _P25519 == (-_D25519 - 1) % _P25519
assert Ristretto255.INVSQRT_A_MINUS_D ** 2 * (-1 - _D25519) % _P25519 == 1

RISTRETTO255 = Ristretto255()


class Decaf448:
    curve = ED448
    enc_len = 56
    map_len = 112
    p = _P448
    L = _L448
    D = (-39081) % _P448
    # constants of RFC 9496 section 5.1
    ONE_MINUS_D = 39082
    ONE_MINUS_TWO_D = 78163
    SQRT_MINUS_D = 98944233647732219769177004876929019128417576295529901074099889598043702116001257856802131563896515373927712232092845883226922417596214
    INVSQRT_MINUS_D = 315019913931389607337177038330951043522456072897266928557328499619017160722351061360252776265186336876723201881398623946864393857820716

    neutral = (0, 1)
    base = ED448.add(ED448.B, ED448.B)    # decaf448 generator = 2*B_edwards448

    def _abs(self, x):
        x %= self.p
        return self.p - x if x & 1 else x

    def sqrt_ratio_m1(self, u, v):
        """SQRT_RATIO_M1 of RFC 9496 5.2, from its specification:
          u/v square (or u = 0) -> (True,  |sqrt(u/v)|)
          v = 0, u != 0         -> (False, 0)
          u/v non-square        -> (False, |sqrt(-u/v)|)"""
        p = self.p
        u %= p
        v %= p
        if u == 0:
            return True, 0
        if v == 0:
            return False, 0
        q = u * pow(v, -1, p) % p
        r = _sqrt_mod(q, p)
        if r is not None:
            return True, self._abs(r)
        r = _sqrt_mod(-q, p)
        assert r is not None
        return False, self._abs(r)

    def decode(self, b):
        """RFC 9496 5.3.1."""
        if not isinstance(b, (bytes, bytearray)) or len(b) != 56:
            return None
        p = self.p
        s = int.from_bytes(b, "little")
        if s >= p or _is_neg(s):
            return None
        ss = s * s % p
        u1 = (1 + ss) % p
        u2 = (u1 * u1 - 4 * self.D * ss) % p
        was_square, invsqrt = self.sqrt_ratio_m1(1, u2 * u1 * u1)
        u3 = self._abs(2 * s * invsqrt * u1 * self.SQRT_MINUS_D)
        x = u3 * invsqrt * u2 * self.INVSQRT_MINUS_D % p
        y = (1 - ss) * invsqrt * u1 % p
        if not was_square:
            return None
        return (x, y)

    def encode(self, P):
        """RFC 9496 5.3.2 on the affine representative (z0 = 1, t0 = x0*y0)."""
        p = self.p
        x0, y0 = P
        x0 %= p
        y0 %= p
        z0 = 1
        t0 = x0 * y0 % p
        u1 = (x0 + t0) * (x0 - t0) % p
        _, invsqrt = self.sqrt_ratio_m1(1, u1 * self.ONE_MINUS_D * x0 * x0)
        ratio = self._abs(invsqrt * u1 * self.SQRT_MINUS_D)
        u2 = (self.INVSQRT_MINUS_D * ratio * z0 - t0) % p
        s = self._abs(self.ONE_MINUS_D * invsqrt * x0 * u2)
        return s.to_bytes(56, "little")

    def eq(self, P, Q):
        """RFC 9496 5.3.3."""
        return (P[0] * Q[1] - P[1] * Q[0]) % self.p == 0

    def is_neutral(self, P):
        return P[0] % self.p == 0

    def _map(self, t):
        """MAP of RFC 9496 5.3.4, returns an affine point."""
        p = self.p
        r = (-t * t) % p
        u0 = self.D * (r - 1) % p
        u1 = (u0 + 1) * (u0 - r) % p
        was_square, v = self.sqrt_ratio_m1(self.ONE_MINUS_TWO_D, (r + 1) * u1)
        if was_square:
            v_prime = v
            sgn = 1
        else:
            v_prime = t * v % p
            sgn = p - 1
        s = v_prime * (r + 1) % p
        w0 = 2 * self._abs(s) % p
        w1 = (s * s + 1) % p
        w2 = (s * s - 1) % p
        w3 = (v_prime * s * (r - 1) * self.ONE_MINUS_TWO_D + sgn) % p
        # (X:Y:Z:T) = (w0*w3 : w2*w1 : w1*w3 : w0*w2)  ->  x = w0/w1, y = w2/w3
        assert w1 != 0 and w3 != 0
        return (w0 * pow(w1, -1, p) % p, w2 * pow(w3, -1, p) % p)

    def one_way_map(self, b):
        """Element derivation of RFC 9496 5.3.4, as documented by
        crrl::decaf448::Point::one_way_map: input MUST be exactly 112 bytes
        (crrl panics otherwise -> ValueError here); each 56-byte half is
        decoded little-endian and reduced modulo p; MAP(t1) + MAP(t2)."""
        b = bytes(b)
        if len(b) != 112:
            raise ValueError("one_way_map input must be 112 bytes (crrl panics)")
        t1 = int.from_bytes(b[:56], "little") % self.p
        t2 = int.from_bytes(b[56:], "little") % self.p
        return self.curve.add(self._map(t1), self._map(t2))

    def add(self, P, Q):
        return self.curve.add(P, Q)

    def neg(self, P):
        return self.curve.neg(P)

    def sub(self, P, Q):
        return self.curve.sub(P, Q)

    def dbl(self, P):
        return self.curve.dbl(P)

    def mul(self, k, P):
        return self.curve.mul(k % self.L, P)

    def mul_base(self, k):
        return self.curve.mul(k % self.L, self.base)

    def is_valid_representative(self, P):
        """P is on the curve and in 2E (i.e. [2L]P == neutral)."""
        c = self.curve
        return c.on_curve(P) and c.is_neutral(c.mul(c.L * c.h // 2, P))


assert Decaf448.SQRT_MINUS_D ** 2 % _P448 == 39081
assert Decaf448.SQRT_MINUS_D * Decaf448.INVSQRT_MINUS_D % _P448 == 1

DECAF448 = Decaf448()


# ===========================================================================
# X25519 / X448 (RFC 7748 section 5)
# ===========================================================================

def _ladder(k, u, p, bits, a24):
    x1 = u
    x2, z2, x3, z3 = 1, 0, u, 1
    swap = 0
    for t in range(bits - 1, -1, -1):
        kt = (k >> t) & 1
        swap ^= kt
        if swap:
            x2, x3 = x3, x2
            z2, z3 = z3, z2
        swap = kt
        A = x2 + z2
        AA = A * A % p
        B = x2 - z2
        BB = B * B % p
        E = AA - BB
        C = x3 + z3
        D = x3 - z3
        DA = D * A % p
        CB = C * B % p
        x3 = (DA + CB) ** 2 % p
        z3 = x1 * (DA - CB) ** 2 % p
        x2 = AA * BB % p
        z2 = E * (AA + a24 * E) % p
    if swap:
        x2, x3 = x3, x2
        z2, z3 = z3, z2
    return x2 * pow(z2, p - 2, p) % p


def x25519(k32, u32):
    """RFC 7748 X25519(k, u).  NOTE the argument order: scalar first, as in
    the RFC; crrl's x25519(point, scalar) takes the u coordinate first.
    Scalar is clamped; the top bit of u is ignored; non-canonical u
    (2^255-19 .. 2^255-1) is reduced; no output filtering (all-zero output
    is returned as such)."""
    k32 = bytes(k32)
    u32 = bytes(u32)
    if len(k32) != 32 or len(u32) != 32:
        raise ValueError("x25519 takes two 32-byte strings")
    k = int.from_bytes(k32, "little")
    k &= (1 << 254) - 8
    k |= 1 << 254
    u = (int.from_bytes(u32, "little") & ((1 << 255) - 1)) % _P25519
    return _ladder(k, u, _P25519, 255, 121665).to_bytes(32, "little")


def x448(k56, u56):
    """RFC 7748 X448(k, u) (scalar first; crrl's x448(point, scalar) takes
    the u coordinate first).  Non-canonical u is reduced modulo p."""
    k56 = bytes(k56)
    u56 = bytes(u56)
    if len(k56) != 56 or len(u56) != 56:
        raise ValueError("x448 takes two 56-byte strings")
    k = int.from_bytes(k56, "little")
    k &= (1 << 448) - 4
    k |= 1 << 447
    u = int.from_bytes(u56, "little") % _P448
    return _ladder(k, u, _P448, 448, 39081).to_bytes(56, "little")


# ===========================================================================
# Self-test
# ===========================================================================

class _Tally:
    def __init__(self):
        self.passed = {}
        self.failed = {}
        self.order = []

    def check(self, kind, cond, what=""):
        if kind not in self.passed:
            self.passed[kind] = 0
            self.failed[kind] = 0
            self.order.append(kind)
        if cond:
            self.passed[kind] += 1
        else:
            self.failed[kind] += 1
            sys.stderr.write("FAIL [%s] %s\n" % (kind, what))

    def ok(self):
        return not any(self.failed.values())


def _prng_ints(tag, n, mod):
    out = []
    for i in range(n):
        h = hashlib.sha512(b"ref_ed selftest|" + tag + b"|" + i.to_bytes(4, "little")).digest()
        h += hashlib.sha512(h).digest()
        out.append(int.from_bytes(h, "little") % mod)
    return out


# RFC 7748 section 5.2 / 6.1 / 6.2 vectors (typed in from the RFC).
_RFC7748_X25519 = [
    ("a546e36bf0527c9d3b16154b82465edd62144c0ac1fc5a18506a2244ba449ac4",
     "e6db6867583030db3594c1a424b15f7c726624ec26b3353b10a903a6d0ab1c4c",
     "c3da55379de9c6908e94ea4df28d084f32eccf03491c71f754b4075577a28552"),
    ("4b66e9d4d1b4673c5ad22691957d6af5c11b6421e0ea01d42ca4169e7918ba0d",
     "e5210f12786811d3f4b7959d0538ae2c31dbe7106fc03c3efc4cd549c715a493",
     "95cbde9476e8907d7aade45cb4b873f88b595a68799fa152e6f8f7647aac7957"),
    # Diffie-Hellman: (alice priv, 9) -> alice pub ; (bob priv, 9) -> bob pub ;
    # (alice priv, bob pub) -> shared ; (bob priv, alice pub) -> shared
    ("77076d0a7318a57d3c16c17251b26645df4c2f87ebc0992ab177fba51db92c2a",
     "09" + "00" * 31,
     "8520f0098930a754748b7ddcb43ef75a0dbf3a0d26381af4eba4a98eaa9b4e6a"),
    ("5dab087e624a8a4b79e17f8b83800ee66f3bb1292618b6fd1c2f8b27ff88e0eb",
     "09" + "00" * 31,
     "de9edb7d7b7dc1b4d35b61c2ece435373f8343c85b78674dadfc7e146f882b4f"),
    ("77076d0a7318a57d3c16c17251b26645df4c2f87ebc0992ab177fba51db92c2a",
     "de9edb7d7b7dc1b4d35b61c2ece435373f8343c85b78674dadfc7e146f882b4f",
     "4a5d9d5ba4ce2de1728e3bf480350f25e07e21c947d19e3376f09b3c1e161742"),
    ("5dab087e624a8a4b79e17f8b83800ee66f3bb1292618b6fd1c2f8b27ff88e0eb",
     "8520f0098930a754748b7ddcb43ef75a0dbf3a0d26381af4eba4a98eaa9b4e6a",
     "4a5d9d5ba4ce2de1728e3bf480350f25e07e21c947d19e3376f09b3c1e161742"),
]

_RFC7748_X448 = [
    ("3d262fddf9ec8e88495266fea19a34d28882acef045104d0d1aae121700a779c984c24f8cdd78fbff44943eba368f54b29259a4f1c600ad3",
     "06fce640fa3487bfda5f6cf2d5263f8aad88334cbd07437f020f08f9814dc031ddbdc38c19c6da2583fa5429db94ada18aa7a7fb4ef8a086",
     "ce3e4ff95a60dc6697da1db1d85e6afbdf79b50a2412d7546d5f239fe14fbaadeb445fc66a01b0779d98223961111e21766282f73dd96b6f"),
    ("203d494428b8399352665ddca42f9de8fef600908e0d461cb021f8c538345dd77c3e4806e25f46d3315c44e0a5b4371282dd2c8d5be3095f",
     "0fbcc2f993cd56d3305b0b7d9e55d4c1a8fb5dbb52f8e9a1e9b6201b165d015894e56c4d3570bee52fe205e28a78b91cdfbde71ce8d157db",
     "884a02576239ff7a2f2f63b2db6a9ff37047ac13568e1e30fe63c4a7ad1b3ee3a5700df34321d62077e63633c575c1c954514e99da7c179d"),
    ("9a8f4925d1519f5775cf46b04b5800d4ee9ee8bae8bc5565d498c28dd9c9baf574a9419744897391006382a6f127ab1d9ac2d8c0a598726b",
     "05" + "00" * 55,
     "9b08f7cc31b7e3e67d22d5aea121074a273bd2b83de09c63faa73d2c22c5d9bbc836647241d953d40c5b12da88120d53177f80e532c41fa0"),
    ("1c306a7ac2a0e2e0990b294470cba339e6453772b075811d8fad0d1d6927c120bb5ee8972b0d3e21374c9c921b09d1b0366f10b65173992d",
     "05" + "00" * 55,
     "3eb7a829b0cd20f5bcfc0b599b6feccf6da4627107bdb0d4f345b43027d8b972fc3e34fb4232a13ca706dcb57aec3dae07bdc1c67bf33609"),
    ("9a8f4925d1519f5775cf46b04b5800d4ee9ee8bae8bc5565d498c28dd9c9baf574a9419744897391006382a6f127ab1d9ac2d8c0a598726b",
     "3eb7a829b0cd20f5bcfc0b599b6feccf6da4627107bdb0d4f345b43027d8b972fc3e34fb4232a13ca706dcb57aec3dae07bdc1c67bf33609",
     "07fff4181ac6cc95ec1c16a94a0f74d12da232ce40a77552281d282bb60c0b56fd2464c335543936521c24403085d59a449a5037514a879d"),
    ("1c306a7ac2a0e2e0990b294470cba339e6453772b075811d8fad0d1d6927c120bb5ee8972b0d3e21374c9c921b09d1b0366f10b65173992d",
     "9b08f7cc31b7e3e67d22d5aea121074a273bd2b83de09c63faa73d2c22c5d9bbc836647241d953d40c5b12da88120d53177f80e532c41fa0",
     "07fff4181ac6cc95ec1c16a94a0f74d12da232ce40a77552281d282bb60c0b56fd2464c335543936521c24403085d59a449a5037514a879d"),
]


def _st_rfc(T):
    for k, u, o in _RFC7748_X25519:
        T.check("rfc7748-x25519", x25519(bytes.fromhex(k), bytes.fromhex(u)).hex() == o, k[:8])
    for k, u, o in _RFC7748_X448:
        T.check("rfc7748-x448", x448(bytes.fromhex(k), bytes.fromhex(u)).hex() == o, k[:8])
    # RFC 8032 base point encodings / RFC 7748 base correspondences
    T.check("rfc8032-const", ED25519.encode(ED25519.B).hex() == "58" + "66" * 31, "B25519")
    T.check("rfc8032-const", ED25519.to_montgomery_u(ED25519.B) == 9, "u(B25519)=9")
    T.check("rfc8032-const", ED448.to_montgomery_u(ED448.B) == 5, "u(B448)=5")
    T.check("rfc8032-const",
            ED448.encode(ED448.B).hex() ==
            "14fa30f25b790898adc8d74e2c13bdfdc4397ce61cffd33ad7c2a0051e9c78874098a36c7373ea4b62c7c9563720768824bcb66e71463f6900",
            "B448")
    for C in (ED25519, ED448):
        T.check("rfc8032-const", C.is_neutral(C.mul_affine(C.L, C.B)) and not C.is_neutral(C.B), C.name + " order")


def _st_curve_kats(T, C, K, tag):
    n = C.enc_len
    # i*P for i = 0..6
    epp = [bytes.fromhex(h) for h in K["epp"]]
    PP = [C.decode(b) for b in epp]
    kind = tag + "-points"
    for i, (b, P) in enumerate(zip(epp, PP)):
        T.check(kind, P is not None and C.encode(P) == b, "EPP[%d] roundtrip" % i)
        T.check(kind, C.is_neutral(P) == (i == 0), "EPP[%d] neutral" % i)
    for i in range(1, 7):
        T.check(kind, not C.eq(PP[i], PP[i - 1]), "EPP distinct")
        T.check(kind, C.eq(C.add(PP[i - 1], PP[1]), PP[i]), "EPP[%d] = EPP[%d]+P" % (i, i - 1))
        T.check(kind, C.encode(C.mul(i, PP[1])) == epp[i], "EPP[%d] = i*P (mul)" % i)
        T.check(kind, C.encode(C.mul_affine(i, PP[1])) == epp[i], "EPP[%d] = i*P (affine)" % i)
    T.check(kind, C.encode(C.dbl(PP[1])) == epp[2], "dbl")
    T.check(kind, C.encode(C.dbl(C.dbl(PP[1]))) == epp[4], "xdouble(2)")
    T.check(kind, C.encode(C.add(PP[3], PP[2])) == epp[5], "3P+2P")
    T.check(kind, C.eq(C.sub(PP[5], PP[3]), PP[2]), "5P-3P")
    T.check(kind, C.encode(C.add(PP[2], PP[4])) == epp[6], "2P+4P")
    # mulgen
    s = int(K["mulgen"]["s_be"], 16)
    enc = bytes.fromhex(K["mulgen"]["enc"])
    T.check(kind, s < C.L, "mulgen scalar range")
    T.check(kind, C.encode(C.mul(s, C.B)) == enc, "mulgen (mul)")
    T.check(kind, C.encode(C.mul_base(s)) == enc, "mulgen (mul_base)")
    T.check(kind, C.encode(C.mul_affine(s, C.B)) == enc, "mulgen (affine)")
    # low-order points
    low = [C.decode(bytes.fromhex(h)) for h in K["low_enc"]]
    T.check(kind, all(P is not None for P in low), "LOW_ENC decode")
    T.check(kind, all(C.has_low_order(P) for P in low), "LOW_ENC low order")
    T.check(kind, len(low) == C.h and
            set(K["low_enc"]) == set(C.encode(P).hex() for P in C.low_order_points()),
            "LOW_ENC == low_order_points()")
    return low


def _st_ed25519_sig(T, K):
    kind = "ed25519-sig"
    for tv in K["sig"]:
        seed, Q, m, ctx, sig = [bytes.fromhex(tv[x]) for x in ("s", "Q", "m", "ctx", "sig")]
        ph = tv["ph"]
        c = ctx if tv["dom"] else None
        mm = hashlib.sha512(m).digest() if ph else m
        T.check(kind, ed25519_public_key(seed) == Q, "pk")
        T.check(kind, ed25519_sign(seed, mm, c, ph) == sig, "sign")
        T.check(kind, ed25519_verify(Q, sig, mm, c, ph), "verify")
        if tv["dom"]:
            T.check(kind, not ed25519_verify(Q, sig, mm, b"\x01", ph), "verify wrong ctx")
            if ph:
                bad = bytearray(mm)
                bad[42] ^= 0x08
                T.check(kind, not ed25519_verify(Q, sig, bytes(bad), c, ph), "verify wrong hm")
            else:
                T.check(kind, not ed25519_verify(Q, sig, b"\x00", c, ph), "verify wrong msg")
            # domain separation between variants
            T.check(kind, not ed25519_verify(Q, sig, mm, c, not ph), "verify wrong ph flag")
            T.check(kind, not ed25519_verify(Q, sig, mm, None, False), "verify as pure")
        else:
            T.check(kind, not ed25519_verify(Q, sig, b"\x00"), "verify wrong msg")
            T.check(kind, not ed25519_verify(Q, sig, m, b"", False), "pure sig as ctx(b'')")
    f = K["frost"]
    d = int.from_bytes(bytes.fromhex(f["d"]), "little")
    Q = bytes.fromhex(f["Q"])
    T.check(kind, ED25519.encode(ED25519.mul_base(d)) == Q, "frost pk")
    T.check(kind, ed25519_verify(Q, bytes.fromhex(f["sig"]), bytes.fromhex(f["msg"])), "frost verify")


def _st_ed448_sig(T, K):
    kind = "ed448-sig"
    for tv in K["sig"]:
        seed, Q, m, ctx, sig = [bytes.fromhex(tv[x]) for x in ("s", "Q", "m", "ctx", "sig")]
        ph = tv["ph"]
        mm = hashlib.shake_256(m).digest(64) if ph else m
        T.check(kind, ed448_public_key(seed) == Q, "pk")
        T.check(kind, ed448_sign(seed, mm, ctx, ph) == sig, "sign")
        T.check(kind, ed448_verify(Q, sig, mm, ctx, ph), "verify")
        T.check(kind, not ed448_verify(Q, sig, mm, b"\x01", ph), "verify wrong ctx")
        if ph:
            bad = bytearray(mm)
            bad[42] ^= 0x08
            T.check(kind, not ed448_verify(Q, sig, bytes(bad), ctx, ph), "verify wrong hm")
        else:
            T.check(kind, not ed448_verify(Q, sig, b"\x00", ctx, ph), "verify wrong msg")
            if len(ctx) == 0:
                T.check(kind, ed448_sign(seed, mm) == sig and ed448_verify(Q, sig, mm), "raw == ctx(b'')")
        T.check(kind, not ed448_verify(Q, sig, mm, ctx, not ph), "verify wrong ph flag")


def _st_eddsa_edge(T, C, sign, verify, pubkey, seedlen):
    """Strictness and cofactored-equation behaviour on hostile inputs."""
    kind = C.name.replace("edwards", "ed") + "-edge"
    n = C.enc_len
    L = C.L
    is25519 = C is ED25519
    seed = bytes(range(seedlen))
    pk = pubkey(seed)
    msg = b"ref_ed edge cases"
    sig = sign(seed, msg)
    T.check(kind, verify(pk, sig, msg), "baseline")
    T.check(kind, not verify(pk, sig[:-1], msg) and not verify(pk, sig + b"\x00", msg)
            and not verify(pk, b"", msg), "sig length")
    T.check(kind, not verify(pk[:-1], sig, msg) and not verify(pk + b"\x00", sig, msg), "pk length")
    S = int.from_bytes(sig[n:], "little")
    for j in (1, 2):
        if S + j * L < (1 << (8 * n)):
            T.check(kind, not verify(pk, sig[:n] + (S + j * L).to_bytes(n, "little"), msg), "S + %d*L" % j)
    T.check(kind, not verify(pk, sig[:n] + L.to_bytes(n, "little"), msg), "S = L")
    if not is25519:
        bad = bytearray(sig)
        bad[-1] = 0x80
        T.check(kind, not verify(pk, bytes(bad), msg), "ed448 last S byte")
        bad = bytearray(sig)
        bad[n - 1] |= 0x01
        T.check(kind, not verify(pk, bytes(bad), msg), "ed448 R low bits of last byte")
    # low-order A and R, S = 0: accepted whatever the message (equation only)
    low = C.low_order_points()
    for i, A in enumerate(low):
        for R in (low[(3 * i + 1) % C.h], low[0]):
            s0 = C.encode(R) + bytes(n)
            T.check(kind, verify(C.encode(A), s0, msg) and verify(C.encode(A), s0, b"other"),
                    "low-order A[%d], R, S=0" % i)
    # S = 0 with the honest key and R = neutral must fail
    T.check(kind, not verify(pk, C.encode(C.neutral) + bytes(n), msg), "honest A, R=neutral, S=0")
    # mixed-order A' = aB + T1, R' = rB + T2, S = r + k*a: cofactored accepts
    a, r = _prng_ints(b"mixed" + C.name.encode(), 2, L)
    for i in range(C.h):
        T1 = low[i]
        T2 = low[(5 * i + 3) % C.h]
        A = C.add(C.mul_base(a), T1)
        R = C.add(C.mul_base(r), T2)
        Ab, Rb = C.encode(A), C.encode(R)
        if is25519:
            k = int.from_bytes(_sha512(Rb, Ab, msg), "little") % L
        else:
            k = int.from_bytes(_shake256_114(_dom4(b"", False), Rb, Ab, msg), "little") % L
        Sb = ((r + k * a) % L).to_bytes(n, "little")
        T.check(kind, verify(Ab, Rb + Sb, msg), "mixed-order A,R #%d" % i)
        T.check(kind, not verify(Ab, Rb + ((r + k * a + 1) % L).to_bytes(n, "little"), msg),
                "mixed-order, S+1 #%d" % i)
        T.check(kind, eddsa_equation(C, A, R, (r + k * a) % L, k)
                and not eddsa_equation(C, A, R, (r + k * a) % L, (k + 1) % L), "equation k+1 #%d" % i)
    # non-canonical encodings of A / R
    if is25519:
        noncanon = [(C.p + 1).to_bytes(32, "little"),                     # y = 1 as p+1
                    (C.p).to_bytes(32, "little"),                         # y = 0 as p
                    ((C.p + 1) | (1 << 255)).to_bytes(32, "little"),
                    (1 | (1 << 255)).to_bytes(32, "little"),              # x = 0, sign 1
                    ((C.p - 1) | (1 << 255)).to_bytes(32, "little")]      # (0,-1), sign 1
    else:
        noncanon = [(C.p + 1).to_bytes(57, "little"),
                    (C.p).to_bytes(57, "little"),
                    (1 | (1 << 455)).to_bytes(57, "little"),
                    ((C.p - 1) | (1 << 455)).to_bytes(57, "little"),
                    (1 | (1 << 448)).to_bytes(57, "little")]
    for e in noncanon:
        T.check(kind, C.decode(e) is None, "non-canonical point decode " + e.hex()[-6:])
        T.check(kind, not verify(e, C.encode(C.neutral) + bytes(n), msg), "non-canonical A")
        T.check(kind, not verify(C.encode(C.neutral), e + bytes(n), msg), "non-canonical R")
    # context length
    long_ctx = b"c" * 256
    ok_ctx = b"c" * 255
    s255 = sign(seed, msg, ok_ctx)
    T.check(kind, verify(pk, s255, msg, ok_ctx), "ctx of 255 bytes")
    try:
        sign(seed, msg, long_ctx)
        T.check(kind, False, "sign with ctx > 255 must raise")
    except ValueError:
        T.check(kind, True)
    T.check(kind, not verify(pk, s255, msg, long_ctx), "verify ctx > 255 -> False")
    T.check(kind, eddsa_verify_outcome(C, pk, s255, msg, long_ctx) == "panic", "outcome panic")
    T.check(kind, eddsa_verify_outcome(C, pk, s255[:-1], msg, long_ctx) == "reject", "outcome reject (len)")
    T.check(kind, eddsa_verify_outcome(C, pk, s255[:n] + L.to_bytes(n, "little"), msg, long_ctx) == "reject",
            "outcome reject (S)")
    T.check(kind, eddsa_verify_outcome(C, pk, s255, msg, ok_ctx) == "accept", "outcome accept")


def _st_group_law(T, C):
    kind = C.name.replace("edwards", "ed") + "-grouplaw"
    L, h, p = C.L, C.h, C.p
    low = C.low_order_points()
    ks = _prng_ints(b"glaw" + C.name.encode(), 6, h * L)
    sub_pts = [C.mul_base(k) for k in ks[:3]]
    mixed = [C.add(sub_pts[i % 3], low[(i % (h - 1)) + 1]) for i in range(h)]
    pts = low + mixed + sub_pts
    T.check(kind, len(set(low)) == h and all(C.on_curve(P) for P in pts), "points on curve")
    # orders of the torsion points (cyclic group generated by low[1])
    for i, P in enumerate(low):
        order = next(j for j in range(1, h + 1) if C.is_neutral(C.mul_affine(j, P)))
        T.check(kind, order == h // gcd(i, h), "order of low[%d]" % i)
        T.check(kind, C.in_subgroup(P) == (i == 0), "low[%d] in_subgroup" % i)
    for P in mixed:
        T.check(kind, not C.in_subgroup(P) and not C.has_low_order(P), "mixed not in subgroup")
        T.check(kind, C.in_subgroup(C.mul(h, P)), "h*mixed in subgroup")
    for P in sub_pts:
        T.check(kind, C.in_subgroup(P), "subgroup point")
    T.check(kind, not C.in_subgroup((2, 3)), "off-curve not in subgroup")
    # like crrl's in_subgroup test: P + j*T_h, j = 1..h-1
    P = sub_pts[0]
    for j in range(1, h):
        P = C.add(P, low[1])
        T.check(kind, not C.in_subgroup(P), "P + %d*T" % j)
    # axioms
    for i, P in enumerate(pts):
        T.check(kind, C.eq(C.add(P, C.neutral), P) and C.eq(C.add(C.neutral, P), P), "identity")
        T.check(kind, C.is_neutral(C.add(P, C.neg(P))) and C.is_neutral(C.sub(P, P)), "inverse")
        T.check(kind, C.eq(C.dbl(P), C.add(P, P)) and C.on_curve(C.dbl(P)), "dbl")
        Q = pts[(7 * i + 3) % len(pts)]
        R = pts[(11 * i + 5) % len(pts)]
        T.check(kind, C.eq(C.add(P, Q), C.add(Q, P)), "commutative")
        T.check(kind, C.eq(C.add(C.add(P, Q), R), C.add(P, C.add(Q, R))), "associative")
        T.check(kind, C.eq(C.sub(C.add(P, Q), Q), P), "sub")
        b = C.encode(P)
        T.check(kind, len(b) == C.enc_len and C.decode(b) == P, "encode/decode")
    # fast path vs extended-formula helpers vs affine law
    for i, P in enumerate(pts):
        Pe = (P[0], P[1], 1, P[0] * P[1] % p)
        Q = pts[(5 * i + 1) % len(pts)]
        Qe = (Q[0], Q[1], 1, Q[0] * Q[1] % p)
        T.check(kind, C._to_affine(C._ext_add(Pe, Qe)) == C.add(P, Q), "ext add vs affine")
        T.check(kind, C._to_affine(C._ext_dbl(Pe)) == C.dbl(P), "ext dbl vs affine")
    edge = [0, 1, 2, 3, h - 1, h, h + 1, 15, 16, 17, 31, 32, 33, L - 1, L, L + 1, 2 * L - 1,
            h * L - 1, h * L, h * L + 1, h * L + 5, -1, -2, -L, -(h * L) - 3, (1 << 256) - 1,
            (1 << 512) + 12345, (1 << 447), (1 << 448) - 1] + ks
    return pts, edge


def _st_mul(T, C, pts, edge):
    kind = C.name.replace("edwards", "ed") + "-mul-vs-affine"
    hL = C.h * C.L
    n = 0
    for i, P in enumerate(pts):
        # every point gets a few scalars; together all edge scalars are used
        sel = [edge[(i * 5 + j) % len(edge)] for j in range(5)]
        for k in sel:
            R = C.mul(k, P)
            T.check(kind, R == C.mul_affine(k % hL, P), "mul k=%d pt#%d" % (k, i))
            n += 1
    for k in edge:
        R = C.mul_base(k)
        T.check(kind, R == C.mul_affine(k % hL, C.B) and R == C.mul(k, C.B), "mul_base k=%d" % k)
    # negative k in mul_affine itself, and linearity
    P = pts[-1]
    T.check(kind, C.mul_affine(-5, P) == C.neg(C.mul_affine(5, P)), "mul_affine negative")
    k1, k2 = edge[-1], edge[-2]
    for P in pts[::3]:
        T.check(kind, C.eq(C.mul(k1 + k2, P), C.add(C.mul(k1, P), C.mul(k2, P))), "linearity")
        T.check(kind, C.eq(C.mul(k1 * k2, P), C.mul(k1, C.mul(k2, P))), "composition")


def _st_montgomery(T, quick):
    kind = "x-vs-edwards"
    for C, xf, n, clamp in (
            (ED25519, x25519, 32, lambda k: (k & ((1 << 254) - 8)) | (1 << 254)),
            (ED448, x448, 56, lambda k: (k & ((1 << 448) - 4)) | (1 << 447))):
        low = C.low_order_points()
        ubase = C.to_montgomery_u(C.B).to_bytes(n, "little")
        for i in range(6 if quick else 20):
            kb = (hashlib.sha256 if n == 32 else hashlib.sha512)(i.to_bytes(8, "little")).digest()[:n]
            k = clamp(int.from_bytes(kb, "little"))
            # crrl's x*_basepoint test: x(k, base) == to_montgomery_u(k*B)
            T.check(kind, xf(kb, ubase) == C.to_montgomery_u(C.mul_base(k)).to_bytes(n, "little"),
                    C.name + " base #%d" % i)
            # arbitrary (mixed-order) Edwards point
            P = C.add(C.mul_base(k ^ 0x55AA55), low[1 + i % (C.h - 1)])
            u = C.to_montgomery_u(P).to_bytes(n, "little")
            T.check(kind, xf(kb, u) == C.to_montgomery_u(C.mul(k, P)).to_bytes(n, "little"),
                    C.name + " mixed #%d" % i)
        # conventions for exceptional points
        T.check(kind, C.to_montgomery_u(C.neutral) == 0, "u(neutral) = 0")
        T.check(kind, C.to_montgomery_u((0, C.p - 1)) == 0, "u((0,-1)) = 0")
        for Pl in low:
            kb = bytes(range(n))
            u = C.to_montgomery_u(Pl).to_bytes(n, "little")
            T.check(kind, xf(kb, u) == bytes(n), "low-order u -> all-zero output")
        # non-canonical u is reduced
        kb = bytes(range(1, n + 1))
        for small in (0, 1, 2, 9, 18):
            if C.p + small < (1 << (8 * n - (1 if n == 32 else 0))):
                T.check(kind, xf(kb, (C.p + small).to_bytes(n, "little")) == xf(kb, small.to_bytes(n, "little")),
                        "non-canonical u = p+%d" % small)
        if n == 32:
            u = bytearray((9).to_bytes(32, "little"))
            u[31] |= 0x80
            T.check(kind, x25519(kb, bytes(u)) == x25519(kb, (9).to_bytes(32, "little")), "top bit of u ignored")
            k2 = bytearray(kb)
            k2[0] |= 7
            k2[31] = (k2[31] | 0x80) & 0xBF
            T.check(kind, x25519(bytes(k2), ubase) == x25519(kb, ubase), "clamping")
        else:
            k2 = bytearray(kb)
            k2[0] |= 3
            k2[55] &= 0x7F
            T.check(kind, x448(bytes(k2), ubase) == x448(kb, ubase), "clamping")


def _st_x_iter(T, K, quick):
    for name, xf, n, g in (("x25519", x25519, 32, 9), ("x448", x448, 56, 5)):
        kind = name + "-crrl-iter"
        k = g.to_bytes(n, "little")
        u = k
        iters = 100 if quick else 1000
        for i in range(iters):
            k, u = xf(k, u), k
            if i == 0:
                T.check(kind, k.hex() == K[name]["mc1"], "1 iteration")
        if not quick:
            T.check(kind, k.hex() == K[name]["mc1000"], "1000 iterations")


def _st_prime_order(T, G, K, tag):
    C = G.curve
    p = G.p
    # --- KATs -------------------------------------------------------------
    kind = tag + "-mulgen"
    P = G.neutral
    for i, hx in enumerate(K["mulgen"]):
        b = bytes.fromhex(hx)
        Q = G.decode(b)
        ok = Q is not None and C.on_curve(Q) and G.eq(P, Q) and G.eq(Q, P)
        ok = ok and G.encode(P) == b and G.encode(Q) == b
        R = G.mul_base(i)
        ok = ok and G.eq(P, R) and G.encode(R) == b and G.is_neutral(P) == (i == 0)
        T.check(kind, ok, "%d*B" % i)
        P = G.add(P, G.base)
    kind = tag + "-invalid"
    for hx in K["invalid"]:
        T.check(kind, G.decode(bytes.fromhex(hx)) is None, hx[:16])
    b0 = bytes.fromhex(K["mulgen"][1])
    T.check(kind, G.decode(b0[:-1]) is None and G.decode(b0 + b"\x00") is None and G.decode(b"") is None,
            "wrong length")
    T.check(kind, G.decode((int.from_bytes(b0, "little") + p).to_bytes(G.enc_len, "little")
                           if int.from_bytes(b0, "little") + p < (1 << (8 * G.enc_len)) else b"") is None,
            "s + p")
    kind = tag + "-map"
    for tv in K["map"]:
        R = G.one_way_map(bytes.fromhex(tv["I"]))
        T.check(kind, G.encode(R).hex() == tv["O"] and G.is_valid_representative(R), tv["O"][:16])
    for bad_len in (0, G.map_len - 1, G.map_len + 1, G.enc_len):
        try:
            G.one_way_map(bytes(bad_len))
            T.check(kind, False, "one_way_map length %d must raise" % bad_len)
        except ValueError:
            T.check(kind, True)
    # all-zero input: MAP(0)+MAP(0) must still be a valid element
    R = G.one_way_map(bytes(G.map_len))
    T.check(kind, G.is_valid_representative(R) and G.decode(G.encode(R)) is not None, "one_way_map(0)")
    # --- quotient-group properties ----------------------------------------
    kind = tag + "-coset"
    low = C.low_order_points()
    # torsion points that lie in 2E: E[4] for ristretto255, E[2] for decaf448
    tors = [low[i] for i in range(0, C.h, 2)]
    T.check(kind, len(tors) == C.h // 2 and all(G.is_valid_representative(t) for t in tors), "torsion coset")
    ks = _prng_ints(tag.encode(), 6, G.L)
    for i, k in enumerate(ks):
        # representative with a torsion component: 2*(k*B_ed + T_j)
        Q = C.add(C.mul_base(k), low[i % C.h])
        P = C.dbl(Q)
        T.check(kind, G.is_valid_representative(P), "in 2E")
        e = G.encode(P)
        for t in tors:
            Pt = C.add(P, t)
            T.check(kind, G.encode(Pt) == e and G.eq(P, Pt) and G.eq(Pt, P), "encode(P+T) == encode(P)")
        D = G.decode(e)
        T.check(kind, D is not None and G.eq(D, P) and G.encode(D) == e and G.is_valid_representative(D),
                "decode(encode(P))")
        T.check(kind, not G.eq(P, C.add(P, G.base)) and G.encode(C.add(P, G.base)) != e, "P != P+B")
        T.check(kind, G.encode(G.neg(P)) == G.encode(G.neg(C.add(P, tors[-1]))), "neg compatible")
        # encoding commutes with the group law on representatives
        k2 = ks[(i + 1) % len(ks)]
        T.check(kind, G.encode(G.add(G.mul_base(k), G.mul_base(k2))) == G.encode(G.mul_base(k + k2)),
                "add/mul_base")
        T.check(kind, G.encode(G.mul(k2, C.add(G.mul_base(k), tors[1]))) == G.encode(G.mul_base(k * k2)), "mul")
    for t in tors:
        T.check(kind, G.encode(t) == bytes(G.enc_len) and G.is_neutral(t), "torsion encodes as neutral")
    T.check(kind, G.encode(G.mul_base(G.L)) == bytes(G.enc_len), "L*B = neutral")


def selftest(quick=False, verbose=True):
    """Runs all checks; returns True iff everything passed.
    quick=True shortens the iterated X25519/X448 KATs (then the 1000-iteration
    values are not checked) and some randomized loops."""
    T = _Tally()
    path = os.path.join(os.path.dirname(os.path.abspath(__file__)), "ref_ed_kats.json")
    with open(path) as f:
        K = json.load(f)

    _st_rfc(T)
    _st_curve_kats(T, ED25519, K["ed25519"], "ed25519-crrl")
    _st_curve_kats(T, ED448, K["ed448"], "ed448-crrl")
    T.check("ed25519-crrl-points",
            ED25519.encode(ED25519.low_order_points()[1]).hex() in
            (K["ed25519"]["t8_enc"], K["ed25519"]["low_enc"][1], K["ed25519"]["low_enc"][3],
             K["ed25519"]["low_enc"][5], K["ed25519"]["low_enc"][7]), "T8 generator has order 8")
    _st_ed25519_sig(T, K["ed25519"])
    _st_ed448_sig(T, K["ed448"])
    _st_eddsa_edge(T, ED25519, ed25519_sign, ed25519_verify, ed25519_public_key, 32)
    _st_eddsa_edge(T, ED448, ed448_sign, ed448_verify, ed448_public_key, 57)
    for C in (ED25519, ED448):
        pts, edge = _st_group_law(T, C)
        _st_mul(T, C, pts, edge)
    _st_prime_order(T, RISTRETTO255, K["ristretto255"], "ristretto255")
    _st_prime_order(T, DECAF448, K["decaf448"], "decaf448")
    _st_montgomery(T, quick)
    _st_x_iter(T, K, quick)

    if verbose:
        parts = []
        for kind in T.order:
            tot = T.passed[kind] + T.failed[kind]
            parts.append("%s %d/%d" % (kind, T.passed[kind], tot))
        total_p = sum(T.passed.values())
        total = total_p + sum(T.failed.values())
        print("ref_ed selftest: " + "; ".join(parts))
        print("ref_ed selftest: %s (%d/%d checks passed)" % ("OK" if T.ok() else "FAILED", total_p, total))
    return T.ok()


if __name__ == "__main__":
    sys.exit(0 if selftest(quick=("--quick" in sys.argv[1:])) else 1)
