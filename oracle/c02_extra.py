"""Additional C02 entry points: FROST and LMS secret paths. Valid wire objects
are first produced by an (untainted) run of the executor itself. Only the
secret sub-fields of each wire object are tainted (identifiers, group public
keys, the LMS key identifier I and the signature randomizer C are public)."""

import random
from common import build, run_exec
import c19

NS = {"ed25519": 32, "ristretto255": 32, "ed448": 57, "p256": 32, "secp256k1": 32}


def entries(rng, reps):
    exe = build("default")
    frost, lms, _ = c19.make_valid_objects(exe, random.Random(rng.getrandbits(32)))
    groups = {}
    for suite, o in frost.items():
        w = o["wire"]
        ns = NS[suite]
        L = []

        def share(i):
            return "@%d,%d@%s" % (ns, ns, w["share"][i].hex())

        def nonce(i):
            return "@%d,%d@%s" % (ns, 2 * ns, w["nonce"][i].hex())
        for r in range(reps):
            tape = bytes(rng.getrandbits(8) for _ in range(300)).hex()
            L += ["fr %s keygen !%s" % (suite, tape),
                  "fr %s gpk !%s" % (suite, w["group_sk"][0].hex()),
                  "fr %s split !%s !%s 2 3" % (suite, tape, w["group_sk"][0].hex()),
                  "fr %s commit %s !%s" % (suite, share(0), tape[:128]),
                  "fr %s share_pub %s" % (suite, share(1)),
                  "fr %s sign %s %s %s %s %s" % (suite, share(0), nonce(0), w["commitment"][0].hex(), o["msg"].hex(), w["commitment_list"][0].hex()),
                  "fr %s gsign !%s %s %s" % (suite, w["group_sk"][0].hex(), tape[:16], o["msg"].hex()),
                  "fr %s gsign_rand !%s !%s %s" % (suite, w["group_sk"][0].hex(), tape[:64], o["msg"].hex()),
                  "fr %s nonce_comm %s" % (suite, nonce(0)),
                  # a share holder checks its (secret) share against the public VSS commitments
                  "fr %s verify_split %s %s" % (suite, share(r % len(w["share"])), w["vss_list"][0].hex())]
        groups["frost:" + suite] = (L, None)
    L = []
    for sname, m in (("sha256_m32", 32), ("sha256_m24", 24), ("shake_m24", 24), ("shake_m32", 32)):
        for r in range(max(1, reps // 2)):
            tape = bytes(rng.getrandbits(8) for _ in range(16 + m)).hex()
            c = bytes(rng.getrandbits(8) for _ in range(32)).hex()
            # tape = I (16 bytes, public) || SEED (m bytes, secret); the randomizer C and the message are public
            L += ["l %s gen t @16,%d@%s" % (sname, m, tape), "l %s sign t %s %s" % (sname, c, "616263"), "l %s sign t %s %s" % (sname, c, "-")]
    groups["lms"] = (L, None)
    return groups
