"""Shared machinery: building executors, running request streams, sharding,
three-valued verdicts, evidence / replay / known-findings handling.

Nothing in here knows anything about cryptography."""

import hashlib
import json
import multiprocessing as mp
import os
import random
import re
import subprocess
import sys
import time
import traceback

VERIF = os.path.dirname(os.path.dirname(os.path.abspath(__file__)))
REPO = "/repo"
HARNESS = os.path.join(VERIF, "harness")
TARGET = os.path.join(VERIF, "target")
EVIDENCE = os.path.join(VERIF, "evidence")
REPLAYS = os.path.join(VERIF, "replays")

AVX2_FLAGS = "-Ctarget-feature=+avx2,+pclmulqdq,+sse4.1,+lzcnt,+bmi2,+adx"

CONFIGS = {
    "default": dict(features=[], rustflags=""),
    "m51": dict(features=["m51"], rustflags=""),
    "w32": dict(features=["w32"], rustflags=""),
    "zz32": dict(features=["zz32"], rustflags=""),
    "clmul": dict(features=["clmul"], rustflags=""),
    "avx2": dict(features=[], rustflags=AVX2_FLAGS),
}
ALL_CONFIGS = list(CONFIGS)

NCPU = min(16, os.cpu_count() or 4)


class Inconclusive(Exception):
    pass


def env_seed():
    try:
        return int(os.environ.get("VERIF_SEED", "1"))
    except ValueError:
        return 1


def cargo_env(rustflags):
    env = dict(os.environ)
    env["CARGO_NET_OFFLINE"] = "true"
    env["RUSTFLAGS"] = ("--cfg crrl_verif -Awarnings " + rustflags).strip()
    return env


_built = {}


def build(config="default", profile="release", toolchain=None, extra_flags="", target=None, tag=None):
    """Build the executor for a configuration from /repo's working tree.
    Returns the executable path. Raises Inconclusive on build failure."""
    key = (config, profile, toolchain, extra_flags, target, tag)
    if key in _built:
        return _built[key]
    c = CONFIGS[config]
    tdir = os.path.join(TARGET, tag or config)
    cmd = ["cargo"]
    if toolchain:
        cmd.append("+" + toolchain)
    cmd += ["build", "--offline", "--manifest-path", os.path.join(HARNESS, "Cargo.toml"),
            "--target-dir", tdir]
    if profile == "release":
        cmd.append("--release")
    elif profile != "dev":
        cmd += ["--profile", profile]
    if c["features"]:
        cmd += ["--features", ",".join(c["features"])]
    if target:
        cmd += ["--target", target]
    env = cargo_env((c["rustflags"] + " " + extra_flags).strip())
    t0 = time.time()
    p = subprocess.run(cmd, env=env, stdout=subprocess.PIPE, stderr=subprocess.STDOUT, text=True)
    if p.returncode != 0:
        sys.stdout.write(p.stdout[-4000:])
        raise Inconclusive("build failed for config %s (%s)" % (config, profile))
    sub = "release" if profile == "release" else ("debug" if profile == "dev" else profile)
    exe = os.path.join(tdir, target, sub, "crrl-exec") if target else os.path.join(tdir, sub, "crrl-exec")
    if not os.path.exists(exe):
        raise Inconclusive("executable missing: " + exe)
    _built[key] = exe
    dt = time.time() - t0
    if dt > 2:
        print("[build] %s/%s in %.1fs" % (tag or config, profile, dt), flush=True)
    return exe


def build_many(configs, profile="release"):
    # cargo serialises on the registry lock anyway; target dirs are distinct,
    # so build them in parallel threads.
    from concurrent.futures import ThreadPoolExecutor
    with ThreadPoolExecutor(max_workers=6) as ex:
        futs = {c: ex.submit(build, c, profile) for c in configs}
        return {c: f.result() for c, f in futs.items()}


def run_exec(exe, lines, wrapper=None, args=None, timeout=600, env=None, stderr_path=None):
    """Feed request lines to an executor process; return response lines.
    Raises Inconclusive if the process dies or answers the wrong number of
    lines (a harness-level failure, never a verdict on the library)."""
    cmd = list(wrapper or []) + [exe] + list(args or [])
    data = ("\n".join(lines) + "\n").encode()
    try:
        if stderr_path:
            with open(stderr_path, "wb") as ef:
                p = subprocess.run(cmd, input=data, stdout=subprocess.PIPE, stderr=ef, timeout=timeout, env=env)
        else:
            p = subprocess.run(cmd, input=data, stdout=subprocess.PIPE, stderr=subprocess.PIPE, timeout=timeout, env=env)
    except subprocess.TimeoutExpired:
        raise Inconclusive("executor watchdog fired after %ds (wall-clock watchdog, not a verdict)" % timeout)
    out = p.stdout.decode(errors="replace").split("\n")
    if out and out[-1] == "":
        out.pop()
    if len(out) != len(lines):
        # Find the request on which the process died: that is a real event
        # (abort / signal inside the library), reported by the caller.
        err = (p.stderr or b"").decode(errors="replace")[-2000:] if not stderr_path else ""
        raise ExecDied(len(out), p.returncode, err)
    return out, p.returncode


class ExecDied(Exception):
    def __init__(self, answered, rc, err):
        super().__init__("executor died after %d responses (rc=%s): %s" % (answered, rc, err))
        self.answered = answered
        self.rc = rc
        self.err = err


# ---------------------------------------------------------------------------
# Cases

class Case:
    """A self-contained mini transcript: request lines, and for some of them
    an expectation. `classes` are the boundary classes this case lands in.
    expect[i] is None (don't care), a string (exact response) or a callable
    resp -> None | str (error description)."""
    __slots__ = ("lines", "expect", "classes", "desc", "sig", "only", "items")

    def __init__(self, lines, expect, classes=(), desc="", sig=None, only=None):
        self.lines = lines
        self.expect = expect
        self.classes = tuple(classes)
        self.desc = desc
        self.sig = sig
        # only: None (all configurations) or a tuple of names; a name
        # prefixed with '!' excludes that configuration.
        self.only = only
        # items: when True, every request line of this case counts as a
        # distinct explored item (long histories on one object)
        self.items = False

    def applies(self, cfg):
        if self.only is None:
            return True
        base = cfg.split("/")[0]
        pos = [o for o in self.only if not o.startswith("!")]
        neg = [o[1:] for o in self.only if o.startswith("!")]
        if base in neg:
            return False
        return (not pos) or base in pos


def case1(line, expect, classes=(), desc="", only=None):
    return Case([line], [expect], classes, desc, only=only)


# Equivalent operator forms: every std::ops trait implementation (value / reference operands, compound assignment by
# value / by reference, scalar on the left) is a separate piece of code in crrl and must compute the same function.
F_FORMS = {"add": ["add", "add_vr", "add_rv", "add_rr", "adda", "addav"], "sub": ["sub", "sub_vr", "sub_rv", "sub_rr", "suba", "subav"],
           "mul": ["mul", "mul_vr", "mul_rv", "mul_rr", "mula", "mulav"], "div": ["div", "div_vr", "div_rv", "div_rr", "diva", "divav"],
           "neg": ["neg", "negr"]}
G_FORMS = {"add": ["add", "addr", "adda", "add_vr", "add_rv", "addav"], "sub": ["sub", "subr", "suba", "sub_vr", "sub_rv", "subav"],
           "neg": ["neg", "negr"], "mul": ["mul", "smul", "mula", "mul_vr", "mul_rv", "mul_rr", "smul_vv", "smul_vr", "smul_rv", "mulav"],
           "mulu64": ["mulu64", "u64mul", "mulu64a", "mulu64r", "u64mulr"]}
for _d in (F_FORMS, G_FORMS):
    for _k in list(_d):
        for _v in _d[_k]:
            _d.setdefault(_v, _d[_k])


def vary_forms(cases, rng, p=0.6):
    """Rewrite the operator token of field / group requests into a random equivalent form."""
    for c in cases:
        for i, ln in enumerate(c.lines):
            t = ln.split(" ", 3)
            if len(t) < 4 or t[0] not in ("f", "g"):
                continue
            forms = (F_FORMS if t[0] == "f" else G_FORMS).get(t[2])
            if forms and rng.random() < p:
                t[2] = rng.choice(forms)
                c.lines[i] = " ".join(t)
                cl = "opform:" + t[0] + ":" + t[2]
                if cl not in c.classes:
                    c.classes = c.classes + (cl,)
    return cases


def check_case(case, resps):
    """Return list of (index, got, why)."""
    bad = []
    for i, (e, r) in enumerate(zip(case.expect, resps)):
        if e is None:
            if r.startswith("PANIC") or r.startswith("ERR"):
                bad.append((i, r, "unexpected " + r.split(" ", 1)[0]))
            continue
        if isinstance(e, str):
            # step counts are appended as " S<n>"; strip for comparison
            rr = re.sub(r" S\d+$", "", r)
            if rr != e:
                bad.append((i, r, "expected " + e))
        else:
            try:
                why = e(r)
            except Exception as ex:  # oracle bug -> surfaces loudly
                why = "oracle exception: %r" % (ex,)
            if why:
                bad.append((i, r, why))
    return bad


def strip_steps(r):
    m = re.search(r" S(\d+)$", r)
    if m:
        return r[:m.start()], int(m.group(1))
    return r, 0


class DistinctSet:
    """Set of 8-byte digests with bounded memory: exact up to `cap` elements, beyond that an adaptive sample (only digests
    whose value is a multiple of 2^level are kept; the size is estimated as len * 2^level, standard error ~ 1/sqrt(cap))."""
    def __init__(self, cap=3000000):
        self.cap = cap
        self.level = 0
        self.s = set()

    def _keep(self, d):
        return self.level == 0 or (int.from_bytes(d[:8], "little") & ((1 << self.level) - 1)) == 0

    def add(self, d):
        if self._keep(d):
            self.s.add(d)
            if len(self.s) > self.cap:
                self._shrink()

    def _shrink(self):
        while len(self.s) > self.cap:
            self.level += 1
            m = (1 << self.level) - 1
            self.s = {d for d in self.s if (int.from_bytes(d[:8], "little") & m) == 0}

    def update(self, it):
        if isinstance(it, DistinctSet):
            # bring both to the coarser level
            if it.level > self.level:
                self.level = it.level
                m = (1 << self.level) - 1
                self.s = {d for d in self.s if (int.from_bytes(d[:8], "little") & m) == 0}
            for d in it.s:
                self.add(d)
            return
        for d in it:
            self.add(d if isinstance(d, bytes) else bytes(d) if not isinstance(d, str) else d.encode())

    @property
    def exact(self):
        return self.level == 0

    def __len__(self):
        return len(self.s) << self.level


# ---------------------------------------------------------------------------
# Sharded execution

def _shard_worker(argt):
    (gen_mod, gen_name, gen_args, shard, nshards, seed, exes, wrapper, exe_args, timeout) = argt
    try:
        mod = __import__(gen_mod)
        gen = getattr(mod, gen_name)
        rng = random.Random((seed << 20) ^ (shard * 7919 + 13))
        all_cases = list(gen(rng, shard, nshards, *gen_args))
        cases = all_cases
        res = {"events": 0, "cases": len(cases), "classes": {}, "viol": [], "incon": [],
               "distinct": set(), "samples": [], "steps_max": 0, "per_config": {}}
        for c in cases:
            for k in c.classes:
                res["classes"][k] = res["classes"].get(k, 0) + 1
            if c.classes:
                if c.items:
                    for ln in c.lines:
                        res["distinct"].add(hashlib.blake2s(ln.encode(), digest_size=8).digest())
                else:
                    res["distinct"].add(hashlib.blake2s(("\n".join(c.lines)).encode(), digest_size=8).digest())
        for cfgname, exe in exes:
            cases = [c for c in all_cases if c.applies(cfgname)]
            lines = []
            for c in cases:
                lines.extend(c.lines)
            if not lines:
                continue
            try:
                out, rc = run_exec(exe, lines, wrapper=wrapper, args=exe_args, timeout=timeout)
            except ExecDied as d:
                # locate the offending case
                pos = 0
                culprit = None
                for c in cases:
                    if pos + len(c.lines) > d.answered:
                        culprit = c
                        break
                    pos += len(c.lines)
                res["viol"].append(dict(config=cfgname, lines=culprit.lines if culprit else [],
                                        got="PROCESS DIED rc=%s %s" % (d.rc, d.err[-300:]),
                                        why="executor process died inside the library call (abort/signal)",
                                        desc=culprit.desc if culprit else ""))
                continue
            except Inconclusive as e:
                res["incon"].append("%s: %s" % (cfgname, e))
                continue
            pos = 0
            nev = 0
            for c in cases:
                rs = out[pos:pos + len(c.lines)]
                pos += len(c.lines)
                nev += sum(1 for e in c.expect if e is not None)
                for r in rs:
                    if r.endswith(tuple("0123456789")) and " S" in r:
                        _, st = strip_steps(r)
                        if st > res["steps_max"]:
                            res["steps_max"] = st
                    if r.startswith("ERR"):
                        res["incon"].append("%s: harness error %r on %r" % (cfgname, r, c.lines))
                bad = check_case(c, rs)
                for (i, got, why) in bad:
                    if len(res["viol"]) < 50:
                        res["viol"].append(dict(config=cfgname, lines=c.lines, index=i, got=got, why=why, desc=c.desc))
            res["events"] += nev
            res["per_config"][cfgname] = res["per_config"].get(cfgname, 0) + nev
        # samples: a few cases written out
        for c in all_cases[:2] + all_cases[-1:]:
            res["samples"].append(dict(lines=[(ln if len(ln) <= 400 else ln[:400] + "...(%d chars)" % len(ln)) for ln in c.lines[:6]],
                                       classes=list(c.classes), desc=c.desc))
        res["distinct"] = list(res["distinct"])
        import resource
        res["maxrss_mb"] = resource.getrusage(resource.RUSAGE_SELF).ru_maxrss // 1024
        return res
    except Exception:
        return {"fatal": traceback.format_exc()}


def pmap(fn, tasks, procs=NCPU):
    """pool.map that cannot hang: a worker that is killed (OOM killer, signal) breaks the pool, which is reported as an
    INCONCLUSIVE outcome, never a verdict."""
    import concurrent.futures as cf
    try:
        with cf.ProcessPoolExecutor(max_workers=procs) as pool:
            return list(pool.map(fn, tasks, chunksize=1))
    except cf.process.BrokenProcessPool as e:
        raise Inconclusive("a worker process died (killed by the system, probably out of memory): %s" % (e,))


def run_sharded(gen_mod, gen_name, gen_args, exes, seed, nshards=NCPU, wrapper=None, exe_args=None,
                timeout=900, procs=NCPU):
    """Run generator `gen_mod.gen_name(rng, shard, nshards, *gen_args)` in
    nshards worker processes against each (config, exe) and merge results."""
    tasks = [(gen_mod, gen_name, gen_args, s, nshards, seed, exes, wrapper, exe_args, timeout)
             for s in range(nshards)]
    results = pmap(_shard_worker, tasks, min(procs, nshards))
    merged = {"events": 0, "cases": 0, "classes": {}, "viol": [], "incon": [], "distinct": DistinctSet(),
              "samples": [], "steps_max": 0, "per_config": {}, "maxrss_mb": 0}
    for r in results:
        if "fatal" in r:
            merged["incon"].append("worker crashed: " + r["fatal"][-1500:])
            continue
        merged["events"] += r["events"]
        merged["cases"] += r["cases"]
        for k, v in r["classes"].items():
            merged["classes"][k] = merged["classes"].get(k, 0) + v
        merged["viol"].extend(r["viol"])
        merged["incon"].extend(r["incon"])
        merged["distinct"].update(bytes(x) for x in r["distinct"])
        merged["samples"].extend(r["samples"][:1])
        merged["steps_max"] = max(merged["steps_max"], r["steps_max"])
        merged["maxrss_mb"] = max(merged["maxrss_mb"], r.get("maxrss_mb", 0))
        for k, v in r["per_config"].items():
            merged["per_config"][k] = merged["per_config"].get(k, 0) + v
    return merged


def run_rounds(rounds, gen_mod, gen_name, gen_args, exes, seed, split=1, count_idx=(), **kw):
    """Several sharded runs with derived seeds, merged (keeps the memory of a single round bounded).
    split=k with count_idx=(i, ...) runs k times as many rounds, each with gen_args[i] divided by k: same total work,
    1/k of the per-worker memory."""
    if split > 1:
        ga = list(gen_args)
        for i in count_idx:
            ga[i] = ga[i] // split + 1
        gen_args = tuple(ga)
        rounds *= split
    total = None
    for r in range(rounds):
        m = run_sharded(gen_mod, gen_name, gen_args, exes, seed + 7919 * r, **kw)
        if total is None:
            total = m
        else:
            total["events"] += m["events"]
            total["cases"] += m["cases"]
            for k, v in m["classes"].items():
                total["classes"][k] = total["classes"].get(k, 0) + v
            total["viol"].extend(m["viol"])
            total["incon"].extend(m["incon"])
            total["distinct"].update(m["distinct"])
            total["samples"].extend(m["samples"][:1])
            total["steps_max"] = max(total["steps_max"], m["steps_max"])
            total["maxrss_mb"] = max(total.get("maxrss_mb", 0), m.get("maxrss_mb", 0))
            for k, v in m["per_config"].items():
                total["per_config"][k] = total["per_config"].get(k, 0) + v
        if total["viol"]:
            break
    return total


# ---------------------------------------------------------------------------
# Known findings

def load_known():
    p = os.path.join(VERIF, "known_findings.json")
    if not os.path.exists(p):
        return []
    with open(p) as f:
        return json.load(f).get("findings", [])


def match_known(prop, viol, known):
    """A violation matches a known finding iff property, config and the
    finding's regex (on the joined request lines) all match."""
    text = "\n".join(viol.get("lines", [])) + "\n" + str(viol.get("got", "")) + "\n" + str(viol.get("sig", ""))
    for k in known:
        if k.get("status") != "finding" or k.get("property") != prop:
            continue
        cfg = k.get("config", "*")
        if cfg != "*" and cfg != viol.get("config"):
            continue
        if re.search(k["match"], text):
            return k
    return None


# ---------------------------------------------------------------------------
# Reporter

def _short_samples(samples):
    """evidence files stay small: request lines are cut to 400 characters"""
    out = []
    for smp in samples:
        d = dict(smp)
        if isinstance(d.get("lines"), list):
            d["lines"] = [(ln if len(ln) <= 400 else ln[:400] + "...(%d chars)" % len(ln)) for ln in d["lines"]]
        out.append(d)
    return out


class Report:
    def __init__(self, prop, tier, seed, level="exploration"):
        self.prop = prop
        self.tier = tier
        self.seed = seed
        self.level = level
        self.t0 = time.time()
        self.events = 0
        self.distinct = DistinctSet()
        self.classes = {}
        self.required = []
        self.viol = []
        self.incon = []
        self.samples = []
        self.extra = {}
        self.rule = ""
        self.assumptions = []
        self.per_config = {}
        self.steps_max = 0

    def merge(self, m, label=None):
        self.events += m["events"]
        self.distinct.update(m["distinct"])
        for k, v in m["classes"].items():
            kk = k if label is None else "%s:%s" % (label, k)
            self.classes[kk] = self.classes.get(kk, 0) + v
        self.viol.extend(m["viol"])
        self.incon.extend(m["incon"])
        self.samples.extend(m["samples"][:3])
        self.steps_max = max(self.steps_max, m.get("steps_max", 0))
        self.extra["worker_maxrss_mb"] = max(self.extra.get("worker_maxrss_mb", 0), m.get("maxrss_mb", 0))
        for k, v in m.get("per_config", {}).items():
            self.per_config[k] = self.per_config.get(k, 0) + v

    def require(self, *classes):
        self.required.extend(classes)

    def finish(self):
        known = load_known()
        wall = time.time() - self.t0
        missing = [c for c in self.required if self.classes.get(c, 0) == 0]
        new_viol = []
        known_hit = {}
        for v in self.viol:
            k = match_known(self.prop, v, known)
            if k is not None:
                known_hit.setdefault(k["id"], (k, 0))
                known_hit[k["id"]] = (k, known_hit[k["id"]][1] + 1)
            else:
                new_viol.append(v)
        os.makedirs(EVIDENCE, exist_ok=True)
        os.makedirs(REPLAYS, exist_ok=True)
        replay_paths = []
        for n, v in enumerate(new_viol[:10]):
            rp = os.path.join(REPLAYS, "%s-%d-%d.req" % (self.prop, self.seed, n))
            with open(rp, "w") as f:
                f.write("# property=%s config=%s tier=%s seed=%d\n" % (self.prop, v.get("config"), self.tier, self.seed))
                f.write("# why: %s\n# got: %s\n# desc: %s\n" % (v.get("why"), v.get("got"), v.get("desc", "")))
                for ln in v.get("lines", []):
                    f.write(ln + "\n")
            replay_paths.append(rp)
        if not self.samples:
            self.samples = [{"note": "no sample recorded"}]
        cov = {
            "evaluations": int(self.events),
            "distinct_nontrivial": int(len(self.distinct)),
            "distinct_nontrivial_counting": ("exact" if getattr(self.distinct, "exact", True) else
                                             "estimated from a 2^-%d sample of request digests" % self.distinct.level),
            "rule": self.rule,
            "samples": _short_samples(self.samples[:6]),
            "classes": dict(sorted(self.classes.items())),
            "required_classes_missing": missing,
            "per_config_events": self.per_config,
            "max_lattice_steps_observed": self.steps_max,
            "inconclusive_notes": self.incon[:10],
            "known_findings_hit": {k: n for k, (kk, n) in known_hit.items()},
        }
        cov.update(self.extra)
        ev = {
            "property_id": self.prop,
            "tier": self.tier,
            "seed": int(self.seed),
            "level": self.level,
            "coverage": cov,
            "assumptions": self.assumptions,
            "wall_s": round(wall, 2),
            "violations": len(new_viol),
        }
        with open(os.path.join(EVIDENCE, self.prop + ".json"), "w") as f:
            json.dump(ev, f, indent=1, default=str)
        for kid, (k, n) in known_hit.items():
            print("KNOWN-FINDING: property=%s %s (%d events) [%s]" % (self.prop, k["what"], n, kid))
        print("[%s] tier=%s seed=%d events=%d distinct_nontrivial=%d classes=%d wall=%.1fs" % (
            self.prop, self.tier, self.seed, self.events, len(self.distinct), len(self.classes), wall), flush=True)
        if new_viol:
            import collections
            cnt = collections.Counter((v.get("config"), " ".join((v.get("lines") or ["?"])[min(v.get("index", 0), len(v.get("lines") or ["?"]) - 1)].split()[:3])) for v in new_viol)
            print("  violation summary (config, op): " + ", ".join("%s/%s x%d" % (c, o, n) for (c, o), n in cnt.most_common(20)))
            for v, rp in zip(new_viol[:10], replay_paths):
                print("  violation config=%s why=%s got=%s" % (v.get("config"), v.get("why"), str(v.get("got"))[:200]))
                for ln in v.get("lines", [])[:4]:
                    print("     > " + ln[:300])
                print("VIOLATION property=%s replay=%s" % (self.prop, rp))
            return 1
        if self.incon or missing or self.events == 0 or len(self.distinct) < 2:
            print("INCONCLUSIVE property=%s: %s" % (self.prop, "; ".join(
                ([("missing classes: " + ",".join(missing))] if missing else []) + [str(x)[:300] for x in self.incon[:5]]
                + (["no events observed"] if self.events == 0 else []))))
            return 2
        print("HELD property=%s on everything observed" % self.prop)
        return 0


def parse_args(argv):
    import argparse
    ap = argparse.ArgumentParser()
    ap.add_argument("--tier", default=os.environ.get("VERIF_TIER", "quick"), choices=["quick", "thorough"])
    ap.add_argument("--seed", type=int, default=env_seed())
    ap.add_argument("--replay", default=None)
    ap.add_argument("--configs", default=None)
    ap.add_argument("--scale", type=float, default=1.0)
    return ap.parse_args(argv)


def do_replay(path):
    """Feed the request lines of a replay file to a freshly built executor of
    the recorded configuration and print request/response pairs."""
    cfg = "default"
    lines = []
    with open(path) as f:
        for ln in f:
            ln = ln.rstrip("\n")
            m = re.match(r"# property=\S+ config=(\S+)", ln)
            if m:
                cfg = m.group(1).split("/")[0]
                if cfg not in CONFIGS:
                    cfg = "default"
            if ln and not ln.startswith("#"):
                lines.append(ln)
    exe = build(cfg)
    try:
        out, rc = run_exec(exe, lines, timeout=300)
    except ExecDied as d:
        print("executor died: %s" % d)
        return 1
    for a, b in zip(lines, out):
        print("> " + a[:400])
        print("< " + b[:400])
    return 0
