#!/usr/bin/env python3
"""
ref_frost.py -- independent pure-Python reference model (oracle) of FROST
(RFC 9591 = draft-irtf-cfrg-frost-14) as exposed by crrl's `frost` module
(sub-modules ed25519, ristretto255, ed448, p256, secp256k1).

The protocol arithmetic is written from RFC 9591 (trusted dealer keygen /
Shamir + Feldman VSS, nonce_generate, commit, compute_binding_factors,
compute_group_commitment, derive_interpolating_value, compute_challenge,
sign, verify_signature_share, aggregate, per-suite H1..H5 / contextString /
Serialize*/Deserialize*).  crrl's frost.rs was read only for what the RFC
does not fix: wire layouts, RNG consumption, API-level checks, the
single-signer mode (H6) and the unit-test vectors.

Group arithmetic comes from the validated references ref_ed.py / ref_weier.py.

Python object shapes
--------------------
  scalar      int in [0, order)   (functions accept any int and reduce)
  point P     opaque per suite: ed25519/ristretto255/ed448 -> affine (x, y);
              p256/secp256k1 -> (x, y) or None for the point at infinity.
              Use Suite.G_eq to compare (ristretto255 has several
              representatives per element).
  share       dict(ident:int, sk:int, pk:P, group_pk:P)
  signer_pk   (ident:int, P)
  vss         list[P]                    (t elements, vss[0] = group pk)
  nonce       (ident:int, hiding:int, binding:int)
  comm        (ident:int, Hpoint:P, Bpoint:P)
  comm_list   list[comm]
  sig_share   (ident:int, zi:int)
  signature   (R:P, z:int)
  take        callable take(n) -> n bytes : the RNG (see Tape / DRNG)

Wire formats (crrl; every scalar is NS bytes, every point NE bytes; scalars
are little-endian for ed25519/ristretto255/ed448 -- ed448 uses 57 bytes with
a zero last byte -- and big-endian for p256/secp256k1; identifiers are
encoded as scalars):
  group_sk     sk                               NS       (non-zero)
  group_pk     P                                NE
  share        ident || sk || group_pk          2NS+NE   (ident, sk non-zero)
  signer_pk    ident || pk                      NS+NE    (ident non-zero)
  vss_list     P_0 || ... || P_{t-1}            t*NE     (t >= 2)
  nonce        ident || hiding || binding       3NS      (ident non-zero;
                                                 hiding/binding may be zero)
  commitment   ident || H || B                  NS+2NE   (ident non-zero)
  commitment_list  c_0 || ... || c_{k-1}        k*(NS+2NE)  (k >= 2, strictly
                                                 ascending identifiers)
  sig_share    ident || zi                      2NS      (ident non-zero)
  signature    R || z                           NE+NS
Every decoded point goes through dec_point (= crrl point_decode): canonical,
not the identity, and for ed25519/ed448 in the prime-order subgroup.

Where crrl would panic (assert!/unwrap/index out of range), this model
raises CrrlPanic.

Run `python3 ref_frost.py` for the self-test (exit status 0 iff all pass).
"""

import hashlib
import os
import sys

sys.path.insert(0, os.path.dirname(os.path.abspath(__file__)))

import ref_ed                                           # noqa: E402
import ref_weier                                        # noqa: E402
from ref_ed import ED25519, ED448, RISTRETTO255         # noqa: E402
from ref_weier import P256, SECP256K1                   # noqa: E402

__all__ = ["SUITES", "Suite", "Tape", "DRNG", "CrrlPanic", "selftest"]


class CrrlPanic(Exception):
    """crrl would panic here (assert!, unwrap() on None, slice index)."""


# ===========================================================================
# RNG models
# ===========================================================================

class Tape:
    """Model of the executor's TapeRng: take(n) returns the next n bytes of
    the tape, cyclically; an empty tape yields zeros.  `calls` counts the
    fill_bytes calls, `sizes` records their sizes, `pos` the bytes consumed."""

    def __init__(self, tape=b""):
        self.tape = bytes(tape)
        self.pos = 0
        self.calls = 0
        self.sizes = []

    def __call__(self, n):
        self.calls += 1
        self.sizes.append(n)
        if not self.tape:
            return bytes(n)
        L = len(self.tape)
        out = bytes(self.tape[(self.pos + i) % L] for i in range(n))
        self.pos += n
        return out


class DRNG:
    """The deterministic RNG of crrl's frost unit tests (tests::DRNG):
    buf = SHA-512(seed); output = first 32 bytes of buf, then
    buf = SHA-512(buf), and so on."""

    def __init__(self, seed):
        self.buf = hashlib.sha512(bytes(seed)).digest()
        self.ptr = 0
        self.sizes = []

    def __call__(self, n):
        self.sizes.append(n)
        out = bytearray()
        while len(out) < n:
            c = min(32 - self.ptr, n - len(out))
            out += self.buf[self.ptr:self.ptr + c]
            self.ptr += c
            if self.ptr == 32:
                self.buf = hashlib.sha512(self.buf).digest()
                self.ptr = 0
        return bytes(out)

    def next_u64(self):
        return int.from_bytes(self(8), "little")


# ===========================================================================
# Group layers (thin wrappers)
# ===========================================================================

class _EdGroup:
    """edwards25519 / edwards448, prime-order subgroup, RFC 8032 encoding."""

    def __init__(self, C):
        self.C = C
        self.order = C.L
        self.NE = C.enc_len

    def mulgen(self, k):
        return self.C.mul_base(k % self.order)

    def mul(self, k, P):
        return self.C.mul(k % self.order, P)

    def add(self, P, Q):
        return self.C.add(P, Q)

    def neg(self, P):
        return self.C.neg(P)

    def eq(self, P, Q):
        return self.C.eq(P, Q)

    def identity(self):
        return self.C.neutral

    def encode(self, P):
        return self.C.encode(P)

    def decode(self, b):
        # RFC 9591 6.1 / 6.3 DeserializeElement: RFC 8032 decoding, reject
        # the identity, reject points outside the prime-order subgroup.
        P = self.C.decode(bytes(b))
        if P is None or self.C.is_neutral(P) or not self.C.in_subgroup(P):
            return None
        return P

    def schnorr_eq(self, A, R, s, k):
        """crrl Point::verify_helper_vartime: h*(s*B - R - k*A) == neutral
        (COFACTORED, h = 8 / 4)."""
        C = self.C
        T = C.sub(C.sub(self.mulgen(s), R), self.mul(k, A))
        return C.is_neutral(C.mul(C.h, T))


class _RistGroup:
    """ristretto255 (RFC 9496)."""

    def __init__(self):
        self.R = RISTRETTO255
        self.order = RISTRETTO255.L
        self.NE = 32

    def mulgen(self, k):
        return self.R.mul_base(k % self.order)

    def mul(self, k, P):
        return self.R.mul(k % self.order, P)

    def add(self, P, Q):
        return self.R.add(P, Q)

    def neg(self, P):
        return self.R.neg(P)

    def eq(self, P, Q):
        return self.R.eq(P, Q)

    def identity(self):
        return self.R.neutral

    def encode(self, P):
        return self.R.encode(P)

    def decode(self, b):
        P = self.R.decode(bytes(b))
        if P is None or self.R.is_neutral(P):
            return None
        return P

    def schnorr_eq(self, A, R, s, k):
        # crrl delegates to the inner edwards25519 cofactored check; on
        # representatives in 2E, 8*T == 0 <=> T in E[4] <=> ristretto
        # equality, i.e. this is the plain group equation.
        return self.eq(self.mulgen(s), self.add(R, self.mul(k, A)))


class _WGroup:
    """P-256 / secp256k1, SEC1 compressed encoding; identity is None."""

    def __init__(self, C):
        self.C = C
        self.order = C.n
        self.NE = 33

    def mulgen(self, k):
        return self.C.mulgen(k % self.order)

    def mul(self, k, P):
        return self.C.mul(k % self.order, self.C.norm(P))

    def add(self, P, Q):
        return self.C.add(self.C.norm(P), self.C.norm(Q))

    def neg(self, P):
        return self.C.neg(self.C.norm(P))

    def eq(self, P, Q):
        return self.C.eq(self.C.norm(P), self.C.norm(Q))

    def identity(self):
        return None

    def encode(self, P):
        # crrl encode_compressed: the point at infinity gives 33 zero bytes
        return self.C.encode_compressed(self.C.norm(P))

    def decode(self, b):
        # RFC 9591 6.4/6.5: compressed SEC1 only, identity rejected.  crrl:
        # only 33-byte inputs are passed to Point::decode (the 1-byte 0x00
        # infinity encoding and 65-byte encodings are thus rejected; 33 zero
        # bytes are rejected by Point::decode itself).
        b = bytes(b)
        if len(b) != 33:
            return None
        P = self.C.decode(b)
        if P is None or ref_weier.WCurve.is_inf(P):
            return None
        return P

    def schnorr_eq(self, A, R, s, k):
        return self.eq(self.mulgen(s), self.add(R, self.mul(k, A)))


# ===========================================================================
# Hashing
# ===========================================================================

def _xor(a, b):
    return bytes(x ^ y for x, y in zip(a, b))


def expand_message_xmd_sha256(msg, dst, n):
    """RFC 9380 section 5.3.1 with H = SHA-256."""
    b_in_bytes, s_in_bytes = 32, 64
    ell = -(-n // b_in_bytes)
    if ell > 255 or n > 65535 or len(dst) > 255:
        raise ValueError("expand_message_xmd: bad parameters")
    dst_prime = dst + bytes([len(dst)])
    msg_prime = bytes(s_in_bytes) + msg + n.to_bytes(2, "big") + b"\x00" + dst_prime
    b0 = hashlib.sha256(msg_prime).digest()
    bi = hashlib.sha256(b0 + b"\x01" + dst_prime).digest()
    out = bi
    for i in range(2, ell + 1):
        bi = hashlib.sha256(_xor(b0, bi) + bytes([i]) + dst_prime).digest()
        out += bi
    return out[:n]


# ===========================================================================
# Suite
# ===========================================================================

class Suite:
    """One FROST ciphersuite as implemented by crrl::frost::<name>."""

    MAX_MAX_SIGNERS = 65535

    def __init__(self, name, group, NS, big_endian, ctx, hkind):
        self.name = name
        self.grp = group
        self.NS = NS
        self.NE = group.NE
        self.order = group.order
        self.big_endian = big_endian
        self.ctx = ctx              # contextString
        self.hkind = hkind          # 'sha512' | 'shake256' | 'sha256xmd'
        self.RS_LEN = NS + ((NS + 1) >> 1)     # bytes read by random_scalar
        self.ENC_LEN = {
            "group_sk": NS, "group_pk": self.NE,
            "share": 2 * NS + self.NE, "signer_pk": NS + self.NE,
            "vss_element": self.NE, "nonce": 3 * NS,
            "commitment": NS + 2 * self.NE, "sig_share": 2 * NS,
            "signature": self.NE + NS,
        }

    # ---- group layer -------------------------------------------------------

    def G_mulgen(self, k):
        return self.grp.mulgen(k)

    def G_mul(self, k, P):
        return self.grp.mul(k, P)

    def G_add(self, P, Q):
        return self.grp.add(P, Q)

    def G_neg(self, P):
        return self.grp.neg(P)

    def G_eq(self, P, Q):
        return self.grp.eq(P, Q)

    def G_identity(self):
        return self.grp.identity()

    def enc_point(self, P):
        return self.grp.encode(P)

    def dec_point(self, b):
        """crrl point_decode: None for wrong length, non-canonical or invalid
        encodings, the identity, and (ed25519, ed448) points outside the
        prime-order subgroup."""
        b = bytes(b)
        if len(b) != self.NE:
            return None
        return self.grp.decode(b)

    def enc_scalar(self, k):
        k %= self.order
        return k.to_bytes(self.NS, "big" if self.big_endian else "little")

    def dec_scalar(self, b):
        """Canonical only: exact length NS, value < order (for ed448 this
        implies that the 57th byte is zero)."""
        b = bytes(b)
        if len(b) != self.NS:
            return None
        v = int.from_bytes(b, "big" if self.big_endian else "little")
        if v >= self.order:
            return None
        return v

    def _schnorr_eq(self, A, R, s, k):
        return self.grp.schnorr_eq(A, R, s % self.order, k % self.order)

    # ---- hash functions (RFC 9591 section 6.x) ------------------------------

    def _hash_to_scalar(self, prefix, data):
        if self.hkind == "sha512":
            h = hashlib.sha512(prefix + data).digest()
            return int.from_bytes(h, "little") % self.order
        if self.hkind == "shake256":
            h = hashlib.shake_256(prefix + data).digest(114)
            return int.from_bytes(h, "little") % self.order
        raise AssertionError

    def _Hs(self, label, data):
        data = bytes(data)
        if self.hkind == "sha256xmd":
            # hash_to_field (RFC 9380 5.2) with L = 48, m = 1, count = 1,
            # expand_message_xmd / SHA-256, DST = contextString || label
            u = expand_message_xmd_sha256(data, self.ctx + label, 48)
            return int.from_bytes(u, "big") % self.order
        return self._hash_to_scalar(self.ctx + label, data)

    def _Hb(self, label, data):
        data = bytes(data)
        if self.hkind == "sha512":
            return hashlib.sha512(self.ctx + label + data).digest()
        if self.hkind == "shake256":
            return hashlib.shake_256(self.ctx + label + data).digest(114)
        return hashlib.sha256(self.ctx + label + data).digest()

    def H1(self, b):
        return self._Hs(b"rho", b)

    def H2(self, b):
        b = bytes(b)
        if self.name == "ed25519":
            # RFC 8032 compatible: no context string, no label
            return self._hash_to_scalar(b"", b)
        if self.name == "ed448":
            # RFC 8032 compatible: dom4(0, "") = "SigEd448" || 0 || 0
            return self._hash_to_scalar(b"SigEd448\x00\x00", b)
        return self._Hs(b"chal", b)

    def H3(self, b):
        return self._Hs(b"nonce", b)

    def H4(self, b):
        return self._Hb(b"msg", b)

    def H5(self, b):
        return self._Hb(b"com", b)

    def H6(self, pk_enc, esksl, seed, msg):
        """crrl-specific (single-signer nonce derivation):
        hash-to-scalar with label "single-signer" over
        pk_enc || esksl || seed || msg, where the caller (sign_seeded) sets
        esksl = enc_scalar(sk) || u64le(len(seed))."""
        return self._Hs(b"single-signer",
                        bytes(pk_enc) + bytes(esksl) + bytes(seed) + bytes(msg))

    # ---- RNG consumers -----------------------------------------------------

    def random_scalar(self, take):
        """One RNG read of NS + ceil(NS/2) bytes (48 / 86), interpreted as a
        LITTLE-ENDIAN integer for every suite (Scalar::decode_reduce), and
        reduced modulo the group order."""
        return int.from_bytes(take(self.RS_LEN), "little") % self.order

    def keygen(self, take):
        """GroupPrivateKey::generate: random_scalar, 0 replaced with 1."""
        sk = self.random_scalar(take)
        return sk if sk != 0 else 1

    def trusted_split(self, take, sk, t, n):
        """KeySplitter::trusted_split.  RNG: t-1 random_scalar reads, in order
        of increasing polynomial degree (coefficient 1 first).  Shares for
        x = 1..n.  Returns (shares, vss)."""
        if not (t >= 2 and t <= n and n <= self.MAX_MAX_SIGNERS):
            raise CrrlPanic("trusted_split parameter assertion")
        q = self.order
        sk %= q
        gpk = self.G_mulgen(sk)
        coeffs = [sk]
        vss = [gpk]
        for _ in range(1, t):
            c = self.random_scalar(take)
            coeffs.append(c)
            vss.append(self.G_mulgen(c))
        shares = []
        for i in range(1, n + 1):
            y = 0
            for c in reversed(coeffs):
                y = (y * i + c) % q
            shares.append({"ident": i % q, "sk": y, "pk": self.G_mulgen(y),
                           "group_pk": gpk})
        return shares, vss

    def _vss_eval(self, ident, vss):
        if len(vss) == 0:
            raise CrrlPanic("empty VSS commitment (index out of range)")
        q = self.order
        Q = vss[0]
        z = ident % q
        for j in range(1, len(vss)):
            Q = self.G_add(Q, self.G_mul(z, vss[j]))
            z = z * ident % q
        return Q

    def vss_verify(self, share, vss):
        """SignerPrivateKeyShare::verify_split:
        sk_i*G == sum_j ident^j * vss[j]."""
        return self.G_eq(share["pk"], self._vss_eval(share["ident"], vss))

    def derive_group_info(self, n, vss):
        """KeySplitter::derive_group_info -> (signer_pks, group_pk)."""
        if not (len(vss) >= 2 and n >= len(vss) and n <= self.MAX_MAX_SIGNERS):
            raise CrrlPanic("derive_group_info parameter assertion")
        pks = [(i % self.order, self._vss_eval(i, vss)) for i in range(1, n + 1)]
        return pks, vss[0]

    def nonce_generate(self, take, share_sk):
        """RFC 9591 4.1: H3(random_bytes(32) || SerializeScalar(secret))."""
        return self.H3(take(32) + self.enc_scalar(share_sk))

    def nonce_commitment(self, nonce):
        ident, hn, bn = nonce
        return (ident, self.G_mulgen(hn), self.G_mulgen(bn))

    def commit(self, take, share_sk, ident):
        """SignerPrivateKeyShare::commit.  RNG: 32 bytes (hiding nonce), then
        32 bytes (binding nonce)."""
        hn = self.nonce_generate(take, share_sk)
        bn = self.nonce_generate(take, share_sk)
        nonce = (ident % self.order, hn, bn)
        return nonce, self.nonce_commitment(nonce)

    # ---- coordinator: choose -----------------------------------------------

    def choose(self, t, comms):
        """Coordinator::choose (Coordinator::new fails for t < 2 -> None)."""
        if t < 2:
            return None
        q = self.order
        r = []
        for c in comms:
            ff = False
            for j in range(len(r)):
                a, b = r[j][0] % q, c[0] % q
                if a >= b:
                    if a > b:
                        r.insert(j, c)
                    ff = True
                    break
            if not ff:
                r.append(c)
            if len(r) >= t:
                return r
        return None

    # ---- RFC 9591 section 4 helpers ------------------------------------------

    def binding_factors(self, group_pk, comm_list, msg):
        """compute_binding_factors -> dict ident -> factor.  (crrl returns a
        list parallel to comm_list; a factor only depends on the identifier
        and on the whole list, so a dict carries the same information.)"""
        prefix = (self.enc_point(group_pk) + self.H4(msg)
                  + self.H5(self.enc_commitment_list(comm_list)))
        bf = {}
        for c in comm_list:
            i = c[0] % self.order
            if i not in bf:
                bf[i] = self.H1(prefix + self.enc_scalar(i))
        return bf

    def group_commitment(self, comm_list, bf):
        Q = self.G_identity()
        for (i, H, B) in comm_list:
            Q = self.G_add(Q, self.G_add(H, self.G_mul(bf[i % self.order], B)))
        return Q

    def lagrange(self, ident, idents):
        """derive_interpolating_value, with crrl's preconditions (x != 0,
        x in L, L strictly ascending) raising CrrlPanic."""
        q = self.order
        x = ident % q
        L = [v % q for v in idents]
        if x == 0 and L:
            raise CrrlPanic("derive_interpolating_value: x == 0")
        for i in range(1, len(L)):
            if not L[i - 1] < L[i]:
                raise CrrlPanic("derive_interpolating_value: list not strictly ascending")
        if x not in L:
            raise CrrlPanic("derive_interpolating_value: x not in L")
        num, den = 1, 1
        for xj in L:
            if xj != x:
                num = num * xj % q
                den = den * (xj - x) % q
        return num * pow(den, -1, q) % q

    def challenge(self, R, group_pk_enc, msg):
        return self.H2(self.enc_point(R) + bytes(group_pk_enc) + bytes(msg))

    # ---- signer: round two -------------------------------------------------------

    def sign_share(self, share, nonce, comm, msg, comm_list):
        """SignerPrivateKeyShare::sign -> zi, or None."""
        q = self.order
        me = share["ident"] % q
        if len(comm_list) < 2:
            return None
        for i in range(len(comm_list) - 1):
            if not (comm_list[i][0] % q) < (comm_list[i + 1][0] % q):
                return None
        ff = False
        for c in comm_list:
            if c[0] % q == me:
                ff = True
                if not self.G_eq(c[1], comm[1]) or not self.G_eq(c[2], comm[2]):
                    return None
        if not ff:
            return None
        if nonce[0] % q != comm[0] % q:
            raise CrrlPanic("sign: nonce.ident != comm.ident")
        gpk = share["group_pk"]
        bf = self.binding_factors(gpk, comm_list, msg)
        R = self.group_commitment(comm_list, bf)
        lam = self.lagrange(me, [c[0] for c in comm_list])
        ch = self.challenge(R, self.enc_point(gpk), msg)
        return (nonce[1] + nonce[2] * bf[me] + lam * share["sk"] * ch) % q

    # ---- coordinator: share verification, aggregation ------------------------------

    def _inner_verify_share(self, signer_pk, zi_ident, zi, comm_list, bf, ch):
        q = self.order
        me = signer_pk[0] % q
        if zi_ident % q != me:
            return False
        comm = None
        for c in comm_list:
            if c[0] % q == me:
                comm = c
                break
        if comm is None or me == 0:
            return False
        comm_share = self.G_add(comm[1], self.G_mul(bf[me], comm[2]))
        lam = self.lagrange(me, [c[0] for c in comm_list])
        return self._schnorr_eq(signer_pk[1], comm_share, zi, ch * lam)

    def verify_share(self, signer_pk, zi_ident, zi, comm_list, group_pk, msg):
        """SignerPublicKey::verify_signature_share."""
        bf = self.binding_factors(group_pk, comm_list, msg)
        R = self.group_commitment(comm_list, bf)
        ch = self.challenge(R, self.enc_point(group_pk), msg)
        return self._inner_verify_share(signer_pk, zi_ident, zi, comm_list, bf, ch)

    def aggregate(self, comm_list, shares, group_pk, msg):
        """RFC 9591 5.3 aggregate (no verification): (R, sum zi)."""
        bf = self.binding_factors(group_pk, comm_list, msg)
        R = self.group_commitment(comm_list, bf)
        return R, sum(zi for (_, zi) in shares) % self.order

    def assemble(self, t, group_pk, sig_shares, comm_list, signer_pks, msg):
        """Coordinator::assemble_signature -> (R, z) or None."""
        if t < 2:
            return None
        q = self.order
        bf = self.binding_factors(group_pk, comm_list, msg)
        R = self.group_commitment(comm_list, bf)
        ch = self.challenge(R, self.enc_point(group_pk), msg)
        z = 0
        for c in comm_list:
            i = c[0] % q
            ss = next((s for s in sig_shares if s[0] % q == i), None)
            if ss is None:
                return None
            spk = next((p for p in signer_pks if p[0] % q == i), None)
            if spk is None:
                return None
            if not self._inner_verify_share(spk, ss[0], ss[1], comm_list, bf, ch):
                return None
            z = (z + ss[1]) % q
        if not self._schnorr_eq(group_pk, R, z, ch):
            return None
        return R, z

    # ---- plain signatures ------------------------------------------------------------

    def verify(self, group_pk, R, z, msg):
        """GroupPublicKey::verify: c = H2(enc(R) || enc(PK) || msg), then
        Point::verify_helper_vartime, i.e. z*G == R + c*PK for ristretto255,
        p256, secp256k1, and the COFACTORED equation h*(z*B - R - c*PK) == 0
        for ed25519 (h = 8) and ed448 (h = 4)."""
        ch = self.challenge(R, self.enc_point(group_pk), msg)
        return self._schnorr_eq(group_pk, R, z, ch)

    def verify_esig(self, group_pk, esig, msg):
        sig = self.dec_signature(esig)
        if sig is None:
            return False
        return self.verify(group_pk, sig[0], sig[1], msg)

    def sign_seeded(self, sk, seed, msg):
        """GroupPrivateKey::sign_seeded."""
        q = self.order
        sk %= q
        seed = bytes(seed)
        pk_enc = self.enc_point(self.G_mulgen(sk))
        esksl = self.enc_scalar(sk) + len(seed).to_bytes(8, "little")
        k = self.H6(pk_enc, esksl, seed, msg)
        R = self.G_mulgen(k)
        ch = self.challenge(R, pk_enc, msg)
        return R, (k + ch * sk) % q

    def sign_random(self, take, sk, msg):
        """GroupPrivateKey::sign: one RNG read of 32 bytes used as seed."""
        return self.sign_seeded(sk, take(32), msg)

    # ---- wire formats ----------------------------------------------------------------

    def _dec_ident(self, b):
        i = self.dec_scalar(b)
        if i is None or i == 0:
            return None
        return i

    def enc_group_sk(self, sk):
        return self.enc_scalar(sk)

    def dec_group_sk(self, b):
        sk = self.dec_scalar(b)
        if sk is None or sk == 0:
            return None
        return sk

    def enc_group_pk(self, P):
        return self.enc_point(P)

    def dec_group_pk(self, b):
        return self.dec_point(b)

    def enc_share(self, share):
        return (self.enc_scalar(share["ident"]) + self.enc_scalar(share["sk"])
                + self.enc_point(share["group_pk"]))

    def dec_share(self, b):
        b = bytes(b)
        NS, NE = self.NS, self.NE
        if len(b) != 2 * NS + NE:
            return None
        ident = self._dec_ident(b[:NS])
        if ident is None:
            return None
        sk = self.dec_scalar(b[NS:2 * NS])
        if sk is None or sk == 0:
            return None
        gpk = self.dec_point(b[2 * NS:])
        if gpk is None:
            return None
        return {"ident": ident, "sk": sk, "pk": self.G_mulgen(sk), "group_pk": gpk}

    def enc_signer_pk(self, spk):
        return self.enc_scalar(spk[0]) + self.enc_point(spk[1])

    def dec_signer_pk(self, b):
        b = bytes(b)
        if len(b) != self.NS + self.NE:
            return None
        ident = self._dec_ident(b[:self.NS])
        if ident is None:
            return None
        P = self.dec_point(b[self.NS:])
        if P is None:
            return None
        return (ident, P)

    def enc_vss_list(self, vss):
        return b"".join(self.enc_point(P) for P in vss)

    def dec_vss_list(self, b):
        b = bytes(b)
        NE = self.NE
        if len(b) % NE != 0 or len(b) // NE < 2:
            return None
        out = []
        for i in range(len(b) // NE):
            P = self.dec_point(b[i * NE:(i + 1) * NE])
            if P is None:
                return None
            out.append(P)
        return out

    def enc_nonce(self, nonce):
        return b"".join(self.enc_scalar(v) for v in nonce)

    def dec_nonce(self, b):
        b = bytes(b)
        NS = self.NS
        if len(b) != 3 * NS:
            return None
        ident = self._dec_ident(b[:NS])
        if ident is None:
            return None
        hn = self.dec_scalar(b[NS:2 * NS])
        if hn is None:
            return None
        bn = self.dec_scalar(b[2 * NS:])
        if bn is None:
            return None
        return (ident, hn, bn)

    def enc_commitment(self, c):
        return self.enc_scalar(c[0]) + self.enc_point(c[1]) + self.enc_point(c[2])

    def dec_commitment(self, b):
        b = bytes(b)
        NS, NE = self.NS, self.NE
        if len(b) != NS + 2 * NE:
            return None
        ident = self._dec_ident(b[:NS])
        if ident is None:
            return None
        H = self.dec_point(b[NS:NS + NE])
        if H is None:
            return None
        B = self.dec_point(b[NS + NE:])
        if B is None:
            return None
        return (ident, H, B)

    def enc_commitment_list(self, comm_list):
        """= encode_group_commitment_list of RFC 9591 4.3."""
        return b"".join(self.enc_commitment(c) for c in comm_list)

    def dec_commitment_list(self, b):
        b = bytes(b)
        CL = self.NS + 2 * self.NE
        if len(b) % CL != 0 or len(b) // CL < 2:
            return None
        out = []
        for i in range(len(b) // CL):
            c = self.dec_commitment(b[i * CL:(i + 1) * CL])
            if c is None:
                return None
            if out and not out[-1][0] < c[0]:
                return None
            out.append(c)
        return out

    def enc_sig_share(self, ss):
        return self.enc_scalar(ss[0]) + self.enc_scalar(ss[1])

    def dec_sig_share(self, b):
        b = bytes(b)
        NS = self.NS
        if len(b) != 2 * NS:
            return None
        ident = self._dec_ident(b[:NS])
        if ident is None:
            return None
        zi = self.dec_scalar(b[NS:])
        if zi is None:
            return None
        return (ident, zi)

    def enc_signature(self, sig):
        return self.enc_point(sig[0]) + self.enc_scalar(sig[1])

    def dec_signature(self, b):
        b = bytes(b)
        if len(b) != self.NE + self.NS:
            return None
        R = self.dec_point(b[:self.NE])
        if R is None:
            return None
        z = self.dec_scalar(b[self.NE:])
        if z is None:
            return None
        return (R, z)


SUITES = {
    "ed25519": Suite("ed25519", _EdGroup(ED25519), 32, False,
                     b"FROST-ED25519-SHA512-v1", "sha512"),
    "ristretto255": Suite("ristretto255", _RistGroup(), 32, False,
                          b"FROST-RISTRETTO255-SHA512-v1", "sha512"),
    "ed448": Suite("ed448", _EdGroup(ED448), 57, False,
                   b"FROST-ED448-SHAKE256-v1", "shake256"),
    "p256": Suite("p256", _WGroup(P256), 32, True,
                  b"FROST-P256-SHA256-v1", "sha256xmd"),
    "secp256k1": Suite("secp256k1", _WGroup(SECP256K1), 32, True,
                       b"FROST-secp256k1-SHA256-v1", "sha256xmd"),
}


# ===========================================================================
# Known-answer vectors: RFC 9591 appendix E, as copied in crrl's
# frost::<suite>::tests (2-of-3, participants 1 and 3, message "test").
# ===========================================================================

KATS = {
    "ed25519": {
        "GROUP_SK": "7b1c33d3f5291d85de664833beb1ad469f7fb6025a0ec78b3a790c6e13a98304",
        "GROUP_PK": "15d21ccd7ee42959562fc8aa63224c8851fb3ec85a3faf66040d380fb9738673",
        "MSG": "74657374",
        "PCOEFF": "178199860edd8c62f5212ee91eff1295d0d670ab4ed4506866bae57e7030b204",
        "SK1": "929dcc590407aae7d388761cddb0c0db6f5627aea8e217f4a033f2ec83d93509",
        "SK2": "a91e66e012e4364ac9aaa405fcafd370402d9859f7b6685c07eed76bf409e80d",
        "SK3": "d3cb090a075eb154e82fdb4b3cb507f110040905468bb9c46da8bdea643a9a02",
        "S1_NR": "0fd2e39e111cdc266f6c0f4d0fd45c947761f1f5d3cb583dfcb9bbaf8d4c9fec69cd85f631d5f7f2721ed5e40519b1366f340a87c2f6856363dbdcda348a7501",
        "S1_HN": "812d6104142944d5a55924de6d49940956206909f2acaeedecda2b726e630407",
        "S1_BN": "b1110165fc2334149750b28dd813a39244f315cff14d4e89e6142f262ed83301",
        "S1_HC": "b5aa8ab305882a6fc69cbee9327e5a45e54c08af61ae77cb8207be3d2ce13de3",
        "S1_BC": "67e98ab55aa310c3120418e5050c9cf76cf387cb20ac9e4b6fdb6f82a469f932",
        "S1_BF": "f2cb9d7dd9beff688da6fcc83fa89046b3479417f47f55600b106760eb3b5603",
        "S3_NR": "86d64a260059e495d0fb4fcc17ea3da7452391baa494d4b00321098ed2a0062f13e6b25afb2eba51716a9a7d44130c0dbae0004a9ef8d7b5550c8a0e07c61775",
        "S3_HN": "c256de65476204095ebdc01bd11dc10e57b36bc96284595b8215222374f99c0e",
        "S3_BN": "243d71944d929063bc51205714ae3c2218bd3451d0214dfb5aeec2a90c35180d",
        "S3_HC": "cfbdb165bd8aad6eb79deb8d287bcc0ab6658ae57fdcc98ed12c0669e90aec91",
        "S3_BC": "7487bc41a6e712eea2f2af24681b58b1cf1da278ea11fe4e8b78398965f13552",
        "S3_BF": "b087686bf35a13f3dc78e780a34b0fe8a77fef1b9938c563f5573d71d8d7890f",
        "S1_SIG_SHARE": "001719ab5a53ee1a12095cd088fd149702c0720ce5fd2f29dbecf24b7281b603",
        "S3_SIG_SHARE": "bd86125de990acc5e1f13781d8e32c03a9bbd4c53539bbc106058bfd14326007",
        "SIG": "36282629c383bb820a88b71cae937d41f2f2adfcc3d02e55507e2fb9e2dd3cbebd9d2b0844e49ae0f3fa935161e1419aab7b47d21a37ebeae1f17d4987b3160b",
    },
    "ristretto255": {
        "GROUP_SK": "1b25a55e463cfd15cf14a5d3acc3d15053f08da49c8afcf3ab265f2ebc4f970b",
        "GROUP_PK": "e2a62f39eede11269e3bd5a7d97554f5ca384f9f6d3dd9c3c0d05083c7254f57",
        "MSG": "74657374",
        "PCOEFF": "410f8b744b19325891d73736923525a4f596c805d060dfb9c98009d34e3fec02",
        "SK1": "5c3430d391552f6e60ecdc093ff9f6f4488756aa6cebdbad75a768010b8f830e",
        "SK2": "b06fc5eac20b4f6e1b271d9df2343d843e1e1fb03c4cbb673f2872d459ce6f01",
        "SK3": "f17e505f0e2581c6acfe54d3846a622834b5e7b50cad9a2109a97ba7a80d5c04",
        "S1_NR": "f595a133b4d95c6e1f79887220c8b275ce6277e7f68a6640e1e7140f9be2fb5c34dd1001360e3513cb37bebfabe7be4a32c5bb91ba19fbd4360d039111f0fbdc",
        "S1_HN": "214f2cabb86ed71427ea7ad4283b0fae26b6746c801ce824b83ceb2b99278c03",
        "S1_BN": "c9b8f5e16770d15603f744f8694c44e335e8faef00dad182b8d7a34a62552f0c",
        "S1_HC": "965def4d0958398391fc06d8c2d72932608b1e6255226de4fb8d972dac15fd57",
        "S1_BC": "ec5170920660820007ae9e1d363936659ef622f99879898db86e5bf1d5bf2a14",
        "S1_BF": "8967fd70fa06a58e5912603317fa94c77626395a695a0e4e4efc4476662eba0c",
        "S3_NR": "daa0cf42a32617786d390e0c7edfbf2efbd428037069357b5173ae61d6dd5d5eb4387e72b2e4108ce4168931cc2c7fcce5f345a5297368952c18b5fc8473f050",
        "S3_HN": "3f7927872b0f9051dd98dd73eb2b91494173bbe0feb65a3e7e58d3e2318fa40f",
        "S3_BN": "ffd79445fb8030f0a3ddd3861aa4b42b618759282bfe24f1f9304c7009728305",
        "S3_HC": "480e06e3de182bf83489c45d7441879932fd7b434a26af41455756264fbd5d6e",
        "S3_BC": "3064746dfd3c1862ef58fc68c706da287dd925066865ceacc816b3a28c7b363b",
        "S3_BF": "f2c1bb7c33a10511158c2f1766a4a5fadf9f86f2a92692ed333128277cc31006",
        "S1_SIG_SHARE": "9285f875923ce7e0c491a592e9ea1865ec1b823ead4854b48c8a46287749ee09",
        "S3_SIG_SHARE": "7cb211fe0e3d59d25db6e36b3fb32344794139602a7b24f1ae0dc4e26ad7b908",
        "SIG": "fc45655fbc66bbffad654ea4ce5fdae253a49a64ace25d9adb62010dd9fb25552164141787162e5b4cab915b4aa45d94655dbb9ed7c378a53b980a0be220a802",
    },
    "ed448": {
        "GROUP_SK": "6298e1eef3c379392caaed061ed8a31033c9e9e3420726f23b404158a401cd9df24632adfe6b418dc942d8a091817dd8bd70e1c72ba52f3c00",
        "GROUP_PK": "3832f82fda00ff5365b0376df705675b63d2a93c24c6e81d40801ba265632be10f443f95968fadb70d10786827f30dc001c8d0f9b7c1d1b000",
        "MSG": "74657374",
        "PCOEFF": "dbd7a514f7a731976620f0436bd135fe8dddc3fadd6e0d13dbd58a1981e587d377d48e0b7ce4e0092967c5e85884d0275a7a740b6abdcd0500",
        "SK1": "4a2b2f5858a932ad3d3b18bd16e76ced3070d72fd79ae4402df201f525e754716a1bc1b87a502297f2a99d89ea054e0018eb55d39562fd0100",
        "SK2": "2503d56c4f516444a45b080182b8a2ebbe4d9b2ab509f25308c88c0ea7ccdc44e2ef4fc4f63403a11b116372438a1e287265cadeff1fcb0700",
        "SK3": "00db7a8146f995db0a7cf844ed89d8e94c2b5f259378ff66e39d172828b264185ac4decf7219e4aa4478285b9c0eef4fccdf3eea69dd980d00",
        "S1_NR": "9cda90c98863ef3141b75f09375757286b4bc323dd61aeb45c07de45e4937bbd781bf4881ffe1aa06f9341a747179f07a49745f8cd37d4696f226aa065683c0a",
        "S1_HN": "f922beb51a5ac88d1e862278d89e12c05263b945147db04b9566acb2b5b0f7422ccea4f9286f4f80e6b646e72143eeaecc0e5988f8b2b93100",
        "S1_BN": "1890f16a120cdeac092df29955a29c7cf29c13f6f7be60e63d63f3824f2d37e9c3a002dfefc232972dc08658a8c37c3ec06a0c5dc146150500",
        "S1_HC": "3518c2246c874569e54ab254cb1da666ca30f7879605cc43b4d2c47a521f8b5716080ab723d3a0cd04b7e41f3cc1d3031c94ccf3829b23fe80",
        "S1_BC": "11b3d5220c57d02057497de3c4eebab384900206592d877059b0a5f1d5250d002682f0e22dff096c46bb81b46d60fcfe7752ed47cea76c3900",
        "S1_BF": "71966390dfdbed73cf9b79486f3b70e23b243e6c40638fb55998642a60109daecbfcb879eed9fe7dbbed8d9e47317715a5740f772173342e00",
        "S3_NR": "b3adf97ceea770e703ab295babf311d77e956a20d3452b4b3344aa89a828e6df81dbe7742b0920930299197322b255734e52bbb91f50cfe8ce689f56fadbce31",
        "S3_HN": "ccb5c1e82f23e0a4b966b824dbc7b0ef1cc5f56eeac2a4126e2b2143c5f3a4d890c52d27803abcf94927faf3fc405c0b2123a57a93cefa3b00",
        "S3_BN": "e089df9bf311cf711e2a24ea27af53e07b846d09692fe11035a1112f04d8b7462a62f34d8c01493a22b57a1cbf1f0a46c77d64d46449a90100",
        "S3_HC": "1254546d7d104c04e4fbcf29e05747e2edd392f6787d05a6216f3713ef859efe573d180d291e48411e5e3006e9f90ee986ccc26b7a42490b80",
        "S3_BC": "3ef0cec20be15e56b3ddcb6f7b956fca0c8f71990f45316b537b4f64c5e8763e6629d7262ff7cd0235d0781f23be97bf8fa8817643ea19cd00",
        "S3_BF": "236a6f7239ac2019334bad21323ec93bef2fead37bd55114356419f3fc1fb59f797f44079f28b1a64f51dd0a113f90f2c3a1c27d2faa4f1300",
        "S1_SIG_SHARE": "e1eb9bfbef792776b7103891032788406c070c5c315e3bf5d64acd46ea8855e85b53146150a09149665cbfec71626810b575e6f4dbe9ba3700",
        "S3_SIG_SHARE": "815434eb0b9f9242d54b8baf2141fe28976cabe5f441ccfcd5ee7cdb4b52185b02b99e6de28e2ab086c7764068c5a01b5300986b9f084f3e00",
        "SIG": "cd642cba59c449dad8e896a78a60e8edfcbd9040df524370891ff8077d47ce721d683874483795f0d85efcbd642c4510614328605a19c6ed806ffb773b6956419537cdfdb2b2a51948733de192dcc4b82dc31580a536db6d435e0cb3ce322fbcf9ec23362dda27092c08767e607bf2093600",
    },
    "p256": {
        "GROUP_SK": "8ba9bba2e0fd8c4767154d35a0b7562244a4aaf6f36c8fb8735fa48b301bd8de",
        "GROUP_PK": "023a309ad94e9fe8a7ba45dfc58f38bf091959d3c99cfbd02b4dc00585ec45ab70",
        "MSG": "74657374",
        "PCOEFF": "80f25e6c0709353e46bfbe882a11bdbb1f8097e46340eb8673b7e14556e6c3a4",
        "SK1": "0c9c1a0fe806c184add50bbdcac913dda73e482daf95dcb9f35dbb0d8a9f7731",
        "SK2": "8d8e787bef0ff6c2f494ca45f4dad198c6bee01212d6c84067159c52e1863ad5",
        "SK3": "0e80d6e8f6192c003b5488ce1eec8f5429587d48cf001541e713b2d53c09d928",
        "S1_NR": "ec4c891c85fee802a9d757a67d1252e7f4e5efb8a538991ac18fbd0e06fb6fd39334e29d09061223f69a09421715a347e4e6deba77444c8f42b0c833f80f4ef9",
        "S1_HN": "9f0542a5ba879a58f255c09f06da7102ef6a2dec6279700c656d58394d8facd4",
        "S1_BN": "6513dfe7429aa2fc972c69bb495b27118c45bbc6e654bb9dc9be55385b55c0d7",
        "S1_HC": "0213b3e6298bf8ad46fd5e9389519a8665d63d98f4ec6a1fcca434e809d2d8070e",
        "S1_BC": "02188ff1390bf69374d7b272e454b1878ef10a6b6ea3ff36f114b300b4dbd5233b",
        "S1_BF": "7925f0d4693f204e6e59233e92227c7124664a99739d2c06b81cf64ddf90559e",
        "S3_NR": "c0451c5a0a5480d6c1f860e5db7d655233dca2669fd90ff048454b8ce983367b2ba5f7793ae700e40e78937a82f407dd35e847e33d1e607b5c7eb6ed2a8ed799",
        "S3_HN": "f73444a8972bcda9e506bbca3d2b1c083c10facdf4bb5d47fef7c2dc1d9f2a0d",
        "S3_BN": "44c6a29075d6e7e4f8b97796205f9e22062e7835141470afe9417fd317c1c303",
        "S3_HC": "033ac9a5fe4a8b57316ba1c34e8a6de453033b750e8984924a984eb67a11e73a3f",
        "S3_BC": "03a7a2480ee16199262e648aea3acab628a53e9b8c1945078f2ddfbdc98b7df369",
        "S3_BF": "e10d24a8a403723bcb6f9bb4c537f316593683b472f7a89f166630dde11822c4",
        "S1_SIG_SHARE": "400308eaed7a2ddee02a265abe6a1cfe04d946ee8720768899619cfabe7a3aeb",
        "S3_SIG_SHARE": "561da3c179edbb0502d941bb3e3ace3c37d122aaa46fb54499f15f3a3331de44",
        "SIG": "026d8d434874f87bdb7bc0dfd239b2c00639044f9dcb195e9a04426f70bfa4b70d9620acac6767e8e3e3036815fca4eb3a3caa69992b902bcd3352fc34f1ac192f",
    },
    "secp256k1": {
        "GROUP_SK": "0d004150d27c3bf2a42f312683d35fac7394b1e9e318249c1bfe7f0795a83114",
        "GROUP_PK": "02f37c34b66ced1fb51c34a90bdae006901f10625cc06c4f64663b0eae87d87b4f",
        "MSG": "74657374",
        "PCOEFF": "fbf85eadae3058ea14f19148bb72b45e4399c0b16028acaf0395c9b03c823579",
        "SK1": "08f89ffe80ac94dcb920c26f3f46140bfc7f95b493f8310f5fc1ea2b01f4254c",
        "SK2": "04f0feac2edcedc6ce1253b7fab8c86b856a797f44d83d82a385554e6e401984",
        "SK3": "00e95d59dd0d46b0e303e500b62b7ccb0e555d49f5b849f5e748c071da8c0dbc",
        "S1_NR": "7ea5ed09af19f6ff21040c07ec2d2adbd35b759da5a401d4c99dd26b82391cb247acab018f116020c10cb9b9abdc7ac10aae1b48ca6e36dc15acb6ec9be5cdc5",
        "S1_HN": "841d3a6450d7580b4da83c8e618414d0f024391f2aeb511d7579224420aa81f0",
        "S1_BN": "8d2624f532af631377f33cf44b5ac5f849067cae2eacb88680a31e77c79b5a80",
        "S1_HC": "03c699af97d26bb4d3f05232ec5e1938c12f1e6ae97643c8f8f11c9820303f1904",
        "S1_BC": "02fa2aaccd51b948c9dc1a325d77226e98a5a3fe65fe9ba213761a60123040a45e",
        "S1_BF": "3e08fe561e075c653cbfd46908a10e7637c70c74f0a77d5fd45d1a750c739ec6",
        "S3_NR": "e6cc56ccbd0502b3f6f831d91e2ebd01c4de0479e0191b66895a4ffd9b68d5447203d55eb82a5ca0d7d83674541ab55f6e76f1b85391d2c13706a89a064fd5b9",
        "S3_HN": "2b19b13f193f4ce83a399362a90cdc1e0ddcd83e57089a7af0bdca71d47869b2",
        "S3_BN": "7a443bde83dc63ef52dda354005225ba0e553243402a4705ce28ffaafe0f5b98",
        "S3_HC": "03077507ba327fc074d2793955ef3410ee3f03b82b4cdc2370f71d865beb926ef6",
        "S3_BC": "02ad53031ddfbbacfc5fbda3d3b0c2445c8e3e99cbc4ca2db2aa283fa68525b135",
        "S3_BF": "93f79041bb3fd266105be251adaeb5fd7f8b104fb554a4ba9a0becea48ddbfd7",
        "S1_SIG_SHARE": "c4fce1775a1e141fb579944166eab0d65eefe7b98d480a569bbbfcb14f91c197",
        "S3_SIG_SHARE": "0160fd0d388932f4826d2ebcd6b9eaba734f7c71cf25b4279a4ca2581e47b18d",
        "SIG": "0205b6d04d3774c8929413e3c76024d54149c372d57aae62574ed74319b5ea14d0c65dde8492a7471437e6c2fe3da49b90d23f642b5c6dbe7e36089f096dd97324",
    },
}


# ===========================================================================
# Self-test
# ===========================================================================

class _Tally:
    def __init__(self):
        self.n = {}
        self.bad = {}
        self.msgs = []

    def check(self, cat, cond, what=""):
        self.n[cat] = self.n.get(cat, 0) + 1
        if not cond:
            self.bad[cat] = self.bad.get(cat, 0) + 1
            if len(self.msgs) < 40:
                self.msgs.append("%s: %s" % (cat, what))
        return bool(cond)

    def ok(self):
        return not self.bad


def _st_kat(T, S):
    """Replica of crrl's tests::KAT (RFC 9591 appendix E vectors), plus the
    same data pushed through trusted_split / derive_group_info."""
    cat = "kat/" + S.name
    K = {k: bytes.fromhex(v) for k, v in KATS[S.name].items()}
    msg = K["MSG"]
    q = S.order
    sk = S.dec_group_sk(K["GROUP_SK"])
    gpk = S.dec_group_pk(K["GROUP_PK"])
    T.check(cat, sk is not None and gpk is not None, "group key decode")
    T.check(cat, S.G_eq(gpk, S.G_mulgen(sk)), "group pk = sk*G")
    T.check(cat, S.enc_group_pk(S.G_mulgen(sk)) == K["GROUP_PK"], "group pk bytes")
    T.check(cat, S.enc_group_sk(sk) == K["GROUP_SK"], "group sk bytes")
    pc = S.dec_scalar(K["PCOEFF"])
    sks = [S.dec_scalar(K["SK%d" % i]) for i in (1, 2, 3)]
    for i in (1, 2, 3):
        T.check(cat, sks[i - 1] == (sk + i * pc) % q, "share %d = f(%d)" % (i, i))

    # trusted_split with an RNG tape producing exactly that coefficient
    tape = Tape(pc.to_bytes(S.RS_LEN, "little"))
    shares, vss = S.trusted_split(tape, sk, 2, 3)
    T.check(cat, tape.sizes == [S.RS_LEN], "split RNG reads %r" % (tape.sizes,))
    T.check(cat, [s["sk"] for s in shares] == sks, "split shares")
    T.check(cat, [s["ident"] for s in shares] == [1, 2, 3], "split idents")
    T.check(cat, len(vss) == 2 and S.G_eq(vss[0], gpk)
            and S.G_eq(vss[1], S.G_mulgen(pc)), "vss")
    T.check(cat, all(S.vss_verify(s, vss) for s in shares), "vss_verify")
    spks, gpk2 = S.derive_group_info(3, vss)
    T.check(cat, S.G_eq(gpk2, gpk), "derive_group_info group pk")
    T.check(cat, all(spks[i][0] == i + 1 and S.G_eq(spks[i][1], shares[i]["pk"])
                     for i in range(3)), "derive_group_info signer pks")
    for i, s in enumerate(shares):
        e = S.enc_share(s)
        T.check(cat, e == S.enc_scalar(i + 1) + K["SK%d" % (i + 1)] + K["GROUP_PK"],
                "share wire layout")
    S1, S2, S3 = shares

    # round one
    st = {}
    for tag, sh in (("S1", S1), ("S3", S3)):
        hn = S.dec_scalar(K[tag + "_HN"])
        bn = S.dec_scalar(K[tag + "_BN"])
        hc = S.dec_point(K[tag + "_HC"])
        bc = S.dec_point(K[tag + "_BC"])
        T.check(cat, None not in (hn, bn) and hc is not None and bc is not None,
                tag + " decode")
        T.check(cat, S.G_eq(hc, S.G_mulgen(hn)) and S.G_eq(bc, S.G_mulgen(bn)),
                tag + " commitments = nonce*G")
        tape = Tape(K[tag + "_NR"])
        nonce, comm = S.commit(tape, sh["sk"], sh["ident"])
        T.check(cat, tape.sizes == [32, 32] and tape.pos == 64, tag + " commit RNG reads")
        T.check(cat, nonce == (sh["ident"], hn, bn), tag + " nonces")
        T.check(cat, comm[0] == sh["ident"] and S.enc_point(comm[1]) == K[tag + "_HC"]
                and S.enc_point(comm[2]) == K[tag + "_BC"], tag + " commitments")
        T.check(cat, S.enc_nonce(nonce) == S.enc_scalar(sh["ident"]) + K[tag + "_HN"]
                + K[tag + "_BN"], tag + " nonce wire layout")
        T.check(cat, S.enc_commitment(comm) == S.enc_scalar(sh["ident"])
                + K[tag + "_HC"] + K[tag + "_BC"], tag + " commitment wire layout")
        st[tag] = (nonce, comm)
    (n1, c1), (n3, c3) = st["S1"], st["S3"]

    comms = S.choose(2, [c3, c3, c1])
    T.check(cat, comms is not None and [c[0] for c in comms] == [1, 3], "choose")
    bf = S.binding_factors(gpk, comms, msg)
    T.check(cat, sorted(bf) == [1, 3], "binding factor idents")
    T.check(cat, S.enc_scalar(bf[1]) == K["S1_BF"], "binding factor 1")
    T.check(cat, S.enc_scalar(bf[3]) == K["S3_BF"], "binding factor 3")

    z1 = S.sign_share(S1, n1, c1, msg, comms)
    z3 = S.sign_share(S3, n3, c3, msg, comms)
    T.check(cat, z1 is not None and S.enc_scalar(z1) == K["S1_SIG_SHARE"], "sig share 1")
    T.check(cat, z3 is not None and S.enc_scalar(z3) == K["S3_SIG_SHARE"], "sig share 3")
    T.check(cat, S.enc_sig_share((1, z1)) == S.enc_scalar(1) + K["S1_SIG_SHARE"],
            "sig share wire layout")
    T.check(cat, S.verify_share(spks[0], 1, z1, comms, gpk, msg), "verify share 1")
    T.check(cat, S.verify_share(spks[2], 3, z3, comms, gpk, msg), "verify share 3")
    T.check(cat, not S.verify_share(spks[2], 3, z1, comms, gpk, msg), "wrong share")
    T.check(cat, not S.verify_share(spks[1], 2, z1, comms, gpk, msg), "non participant")

    sig = S.assemble(2, gpk, [(3, z3), (1, z1), (3, z3)], comms, spks, msg)
    T.check(cat, sig is not None and S.enc_signature(sig) == K["SIG"], "signature")
    R, z = S.aggregate(comms, [(1, z1), (3, z3)], gpk, msg)
    T.check(cat, S.enc_signature((R, z)) == K["SIG"], "aggregate")
    T.check(cat, S.verify_esig(gpk, K["SIG"], msg), "verify_esig")
    T.check(cat, not S.verify_esig(gpk, K["SIG"], msg + b"x"), "verify_esig wrong msg")
    ds = S.dec_signature(K["SIG"])
    T.check(cat, ds is not None and S.verify(gpk, ds[0], ds[1], msg), "verify")
    # Lagrange / interpolation on the KAT shares
    T.check(cat, (S.lagrange(1, [1, 3]) * sks[0] + S.lagrange(3, [1, 3]) * sks[2]) % q == sk,
            "interpolate {1,3}")
    T.check(cat, (S.lagrange(2, [2, 3]) * sks[1] + S.lagrange(3, [2, 3]) * sks[2]) % q == sk,
            "interpolate {2,3}")
    if S.name == "ed25519":
        T.check(cat, ref_ed.ed25519_verify(K["GROUP_PK"], K["SIG"], msg), "RFC 8032 verify")
    if S.name == "ed448":
        T.check(cat, ref_ed.ed448_verify(K["GROUP_PK"], K["SIG"], msg), "RFC 8032 verify")


def _st_hash(T):
    """Hash plumbing: RFC 9380 appendix K.1 expand_message_xmd(SHA-256)
    vectors; structure of H1..H6 per suite."""
    cat = "hash"
    dst = b"QUUX-V01-CS02-with-expander-SHA256-128"
    T.check(cat, expand_message_xmd_sha256(b"", dst, 0x20).hex() ==
            "68a985b87eb6b46952128911f2a4412bbc302a9d759667f87f7a21d803f07235", "xmd ''")
    T.check(cat, expand_message_xmd_sha256(b"abc", dst, 0x20).hex() ==
            "d8ccab23b5985ccea865c6c97b6e5b8350e794e603b4b97902f53a8a0d605615", "xmd abc")
    m = b"\x00\x01message\xff"
    for S in SUITES.values():
        q = S.order
        if S.hkind == "sha512":
            f = lambda p, d: int.from_bytes(hashlib.sha512(p + d).digest(), "little") % q
            g = lambda p, d: hashlib.sha512(p + d).digest()
        elif S.hkind == "shake256":
            f = lambda p, d: int.from_bytes(hashlib.shake_256(p + d).digest(114), "little") % q
            g = lambda p, d: hashlib.shake_256(p + d).digest(114)
        else:
            f = lambda p, d: int.from_bytes(expand_message_xmd_sha256(d, p, 48), "big") % q
            g = lambda p, d: hashlib.sha256(p + d).digest()
        c = S.ctx
        T.check(cat, S.H1(m) == f(c + b"rho", m), S.name + " H1")
        T.check(cat, S.H3(m) == f(c + b"nonce", m), S.name + " H3")
        T.check(cat, S.H4(m) == g(c + b"msg", m), S.name + " H4")
        T.check(cat, S.H5(m) == g(c + b"com", m), S.name + " H5")
        if S.name == "ed25519":
            T.check(cat, S.H2(m) == f(b"", m), "ed25519 H2")
        elif S.name == "ed448":
            T.check(cat, S.H2(m) == f(b"SigEd448" + bytes(2), m), "ed448 H2")
        else:
            T.check(cat, S.H2(m) == f(c + b"chal", m), S.name + " H2")
        T.check(cat, S.H6(b"P", b"S", b"seed", b"M") == f(c + b"single-signer", b"PSseedM"),
                S.name + " H6")
        T.check(cat, len(S.H4(m)) == {"sha512": 64, "shake256": 114, "sha256xmd": 32}[S.hkind],
                S.name + " H4 length")
    T.check(cat, {S.name: S.ctx for S in SUITES.values()} == {
        "ed25519": b"FROST-ED25519-SHA512-v1",
        "ristretto255": b"FROST-RISTRETTO255-SHA512-v1",
        "ed448": b"FROST-ED448-SHAKE256-v1",
        "p256": b"FROST-P256-SHA256-v1",
        "secp256k1": b"FROST-secp256k1-SHA256-v1"}, "context strings")
    T.check(cat, [(S.NS, S.NE, S.RS_LEN) for S in SUITES.values()] ==
            [(32, 32, 48), (32, 32, 48), (57, 57, 86), (32, 33, 48), (32, 33, 48)], "sizes")


def _st_rng(T):
    cat = "rng"
    t = Tape(b"\x01\x02\x03")
    T.check(cat, t(2) == b"\x01\x02" and t(5) == b"\x03\x01\x02\x03\x01" and t.calls == 2
            and t.pos == 7, "tape cyclic")
    T.check(cat, Tape(b"")(4) == bytes(4), "empty tape")
    d = DRNG(b"abc")
    h0 = hashlib.sha512(b"abc").digest()
    h1 = hashlib.sha512(h0).digest()
    T.check(cat, d(40) == h0[:32] + h1[:8] and d(24) == h1[8:32], "DRNG chain")
    for S in SUITES.values():
        q = S.order
        # random_scalar: one read of NS + ceil(NS/2) bytes, little-endian
        raw = bytes(range(1, S.RS_LEN + 1))
        t = Tape(raw + b"\xee" * 7)
        T.check(cat, S.random_scalar(t) == int.from_bytes(raw, "little") % q
                and t.sizes == [S.RS_LEN], S.name + " random_scalar")
        T.check(cat, S.keygen(Tape(b"")) == 1, S.name + " keygen 0 -> 1")
        T.check(cat, S.keygen(Tape(q.to_bytes(S.RS_LEN, "little"))) == 1,
                S.name + " keygen q -> 1")
        T.check(cat, S.keygen(Tape((q + 5).to_bytes(S.RS_LEN, "little"))) == 5,
                S.name + " keygen q+5 -> 5")
        # trusted_split: t-1 reads of RS_LEN; commit: two reads of 32;
        # sign: one read of 32
        t = Tape(bytes(range(251)))
        shares, vss = S.trusted_split(t, 7, 4, 5)
        T.check(cat, t.sizes == [S.RS_LEN] * 3, S.name + " split reads")
        coeffs = [7] + [int.from_bytes(bytes((j * S.RS_LEN + i) % 251 for i in range(S.RS_LEN)),
                                       "little") % q for j in range(3)]
        T.check(cat, all(sh["sk"] == sum(c * (sh["ident"] ** k) for k, c in enumerate(coeffs)) % q
                         for sh in shares), S.name + " split polynomial")
        T.check(cat, all(S.G_eq(vss[k], S.G_mulgen(coeffs[k])) for k in range(4)),
                S.name + " split vss")
        t = Tape(bytes(range(100)))
        nonce, comm = S.commit(t, 1234, 9)
        T.check(cat, t.sizes == [32, 32], S.name + " commit reads")
        T.check(cat, nonce == (9, S.H3(bytes(range(32)) + S.enc_scalar(1234)),
                               S.H3(bytes(range(32, 64)) + S.enc_scalar(1234))),
                S.name + " nonce_generate")
        t = Tape(bytes(range(100)))
        sg = S.sign_random(t, 77, b"m")
        sg2 = S.sign_seeded(77, bytes(range(32)), b"m")
        T.check(cat, t.sizes == [32] and S.enc_signature(sg) == S.enc_signature(sg2),
                S.name + " sign reads")
        for bad in ((1, 3), (3, 2), (2, 65536)):
            try:
                S.trusted_split(Tape(b"x"), 7, bad[0], bad[1])
                T.check(cat, False, S.name + " split assertion %r" % (bad,))
            except CrrlPanic:
                T.check(cat, True)


def _st_crrl_self_ops(T, S, min_signers, max_signers):
    """Replica of crrl's tests::test_self_ops, driven by the same DRNG."""
    cat = "crrl_self_ops/" + S.name
    rng = DRNG(((min_signers + (max_signers << 16)) & 0xFFFFFFFF).to_bytes(4, "little"))
    sk = S.keygen(rng)
    gpk = S.G_mulgen(sk)
    T.check(cat, S.dec_group_sk(S.enc_group_sk(sk)) == sk, "group sk round trip")
    g2 = S.dec_group_pk(S.enc_group_pk(gpk))
    T.check(cat, g2 is not None and S.G_eq(g2, gpk), "group pk round trip")
    for i in range(10):
        esig = S.enc_signature(S.sign_random(rng, sk, bytes([i])))
        T.check(cat, S.verify_esig(gpk, esig, bytes([i])), "single-signer verify")
        T.check(cat, not S.verify_esig(gpk, esig, bytes([i + 1])), "single-signer wrong msg")
    shares, vss = S.trusted_split(rng, sk, min_signers, max_signers)
    T.check(cat, len(shares) == max_signers and len(vss) == min_signers, "split sizes")
    vss2 = S.dec_vss_list(S.enc_vss_list(vss))
    T.check(cat, vss2 is not None and len(vss2) == len(vss)
            and all(S.G_eq(a, b) for a, b in zip(vss, vss2)), "vss round trip")
    spks = []
    for i, sh in enumerate(shares):
        sh2 = S.dec_share(S.enc_share(sh))
        T.check(cat, sh2 is not None and sh2["ident"] == i + 1 and sh2["sk"] == sh["sk"]
                and S.G_eq(sh2["pk"], sh["pk"]) and S.G_eq(sh2["group_pk"], gpk),
                "share round trip")
        T.check(cat, S.vss_verify(sh2, vss2), "verify_split")
        spks.append((sh2["ident"], sh2["pk"]))
    states = []
    ecomms = [None] * max_signers
    for sh in shares:
        nonce, comm = S.commit(rng, sh["sk"], sh["ident"])
        states.append((nonce, comm))
        ecomms.append(S.enc_commitment(comm))
    for i in range(max_signers):
        k = rng.next_u64() % max_signers
        ecomms[i] = ecomms[max_signers + k]
    round1 = [S.dec_commitment(e) for e in ecomms]
    T.check(cat, all(c is not None for c in round1), "commitment decode")
    comms1 = S.choose(min_signers, round1)
    T.check(cat, comms1 is not None and len(comms1) == min_signers
            and all(comms1[i][0] > comms1[i - 1][0] for i in range(1, len(comms1))), "choose")
    comms2 = S.dec_commitment_list(S.enc_commitment_list(comms1))
    T.check(cat, comms2 is not None and len(comms2) == len(comms1), "commitment list round trip")
    msg = b"sample"
    sig_shares = []
    for c in comms2:
        i = c[0] - 1
        T.check(cat, S.G_eq(c[1], states[i][1][1]) and S.G_eq(c[2], states[i][1][2]),
                "chosen commitment matches signer state")
        zi = S.sign_share(shares[i], states[i][0], states[i][1], msg, comms2)
        T.check(cat, zi is not None, "sign")
        sig_shares.append((c[0], zi))
    sig = S.assemble(min_signers, gpk, sig_shares, comms1, spks, msg)
    T.check(cat, sig is not None, "assemble")
    if sig is not None:
        T.check(cat, S.verify(gpk, sig[0], sig[1], msg), "verify")
        T.check(cat, not S.verify(gpk, sig[0], sig[1], b"not the same message"),
                "verify wrong msg")


def _st_interop(T):
    """Replicas of crrl's interop_ed25519 / interop_ed448 tests: single-signer
    FROST signatures verify under plain RFC 8032 Ed25519 / Ed448."""
    cat = "interop_rfc8032"
    for name, seed, vf in (("ed25519", b"interop_ed25519", ref_ed.ed25519_verify),
                           ("ed448", b"interop_ed448", ref_ed.ed448_verify)):
        S = SUITES[name]
        rng = DRNG(seed)
        sk = S.keygen(rng)
        esig = S.enc_signature(S.sign_random(rng, sk, b"sample"))
        pk = S.enc_group_pk(S.G_mulgen(sk))
        T.check(cat, vf(pk, esig, b"sample"), name + " accept")
        T.check(cat, not vf(pk, esig, b"Sample"), name + " reject")
        for j in range(4):
            esig = S.enc_signature(S.sign_seeded(sk, b"s" * j, b"msg%d" % j))
            T.check(cat, vf(pk, esig, b"msg%d" % j), name + " seeded accept")


def _other_point(S, P):
    """A valid group element different from P."""
    return S.G_add(P, S.G_mulgen(1))


def _expect_panic(T, cat, fn, what):
    try:
        fn()
        T.check(cat, False, what + " (no panic)")
    except CrrlPanic:
        T.check(cat, True)


def _st_e2e(T, S, t, n, seed):
    """Randomized end-to-end self-consistency + rejection of corrupted data."""
    import random
    rnd = random.Random("%s/%d/%d/%d" % (S.name, t, n, seed))
    take = lambda k: bytes(rnd.getrandbits(8) for _ in range(k))     # noqa: E731
    q = S.order
    cat = "e2e/" + S.name
    neg = "reject/" + S.name
    msg = take(rnd.randrange(0, 40))

    sk = S.keygen(take)
    gpk = S.G_mulgen(sk)
    shares, vss = S.trusted_split(take, sk, t, n)
    T.check(cat, len(shares) == n and len(vss) == t, "sizes")
    T.check(cat, all(S.vss_verify(sh, vss) for sh in shares), "vss_verify all")
    spks, gpk2 = S.derive_group_info(n, vss)
    T.check(cat, S.G_eq(gpk, gpk2) and all(
        spks[i][0] == shares[i]["ident"] and S.G_eq(spks[i][1], shares[i]["pk"])
        for i in range(n)), "derive_group_info")
    # any t shares interpolate to the secret
    for _ in range(3):
        sub = sorted(rnd.sample(range(n), t))
        ids = [shares[i]["ident"] for i in sub]
        T.check(cat, sum(S.lagrange(shares[i]["ident"], ids) * shares[i]["sk"]
                         for i in sub) % q == sk, "interpolation")
    # corrupted share fails vss_verify
    bad = dict(shares[0])
    bad["sk"] = (bad["sk"] + 1) % q
    bad["pk"] = S.G_mulgen(bad["sk"])
    T.check(neg, not S.vss_verify(bad, vss), "corrupted share sk")
    bad = dict(shares[0])
    bad["ident"] = shares[1]["ident"]
    T.check(neg, not S.vss_verify(bad, vss), "share with wrong ident")
    T.check(neg, not S.vss_verify(shares[0], [vss[0], _other_point(S, vss[1])] + vss[2:]),
            "corrupted vss")

    # round one; coordinator gets commitments shuffled, with duplicates
    states = [S.commit(take, sh["sk"], sh["ident"]) for sh in shares]
    pool = [c for (_, c) in states]
    sent = pool + [rnd.choice(pool) for _ in range(rnd.randrange(0, 4))]
    rnd.shuffle(sent)
    comms = S.choose(t, sent)
    T.check(cat, comms is not None and len(comms) == t
            and all(comms[i - 1][0] < comms[i][0] for i in range(1, t)), "choose")
    # model of choose: first t distinct identifiers in arrival order, sorted
    seen = []
    for c in sent:
        if c[0] not in seen:
            seen.append(c[0])
        if len(seen) == t:
            break
    T.check(cat, [c[0] for c in comms] == sorted(seen), "choose = first t distinct, sorted")
    T.check(cat, S.choose(t, [pool[0]] * 5 + pool[:t - 1]) is None, "choose not enough")
    T.check(cat, S.choose(n + 1, sent) is None and S.choose(1, sent) is None
            and S.choose(t, []) is None, "choose None cases")

    # round two
    zs = []
    for c in comms:
        i = c[0] - 1
        zi = S.sign_share(shares[i], states[i][0], states[i][1], msg, comms)
        T.check(cat, zi is not None, "sign")
        zs.append((c[0], zi))
        T.check(cat, S.verify_share(spks[i], c[0], zi, comms, gpk, msg), "verify share")
        T.check(neg, not S.verify_share(spks[i], c[0], (zi + 1) % q, comms, gpk, msg),
                "corrupted sig share")
        T.check(neg, not S.verify_share(spks[i], c[0], zi, comms, gpk, msg + b"!"),
                "sig share, other message")
        T.check(neg, not S.verify_share(spks[i], (c[0] % n) + 1, zi, comms, gpk, msg),
                "sig share, ident mismatch")
    shuffled = zs + [zs[0]]
    rnd.shuffle(shuffled)
    sig = S.assemble(t, gpk, shuffled, comms, list(reversed(spks)), msg)
    T.check(cat, sig is not None, "assemble")
    if sig is None:
        return
    R, z = sig
    T.check(cat, S.verify(gpk, R, z, msg), "verify")
    R2, z2 = S.aggregate(comms, zs, gpk, msg)
    T.check(cat, S.G_eq(R, R2) and z == z2, "aggregate = assemble")
    # the signature is a plain Schnorr signature: z*G = R + c*PK
    c = S.challenge(R, S.enc_point(gpk), msg)
    T.check(cat, S.G_eq(S.G_mulgen(z), S.G_add(R, S.G_mul(c, gpk))), "Schnorr equation")
    T.check(neg, not S.verify(gpk, R, (z + 1) % q, msg), "corrupted z")
    T.check(neg, not S.verify(gpk, _other_point(S, R), z, msg), "corrupted R")
    T.check(neg, not S.verify(_other_point(S, gpk), R, z, msg), "other key")
    T.check(neg, not S.verify(gpk, R, z, msg + b"\x00"), "other message")

    # sign_share None cases
    me = comms[0][0] - 1
    sh, (nonce, comm) = shares[me], states[me]
    T.check(neg, S.sign_share(sh, nonce, comm, msg, comms[:1]) is None, "sign: list too short")
    T.check(neg, S.sign_share(sh, nonce, comm, msg, []) is None, "sign: empty list")
    T.check(neg, S.sign_share(sh, nonce, comm, msg, list(reversed(comms))) is None,
            "sign: descending list")
    T.check(neg, S.sign_share(sh, nonce, comm, msg, comms + [comms[-1]]) is None,
            "sign: duplicate")
    outsider = [i for i in range(n) if (i + 1) not in [c[0] for c in comms]]
    if outsider:
        o = outsider[0]
        T.check(neg, S.sign_share(shares[o], states[o][0], states[o][1], msg, comms) is None,
                "sign: not in list")
    tam = [(comms[0][0], _other_point(S, comms[0][1]), comms[0][2])] + comms[1:]
    T.check(neg, S.sign_share(sh, nonce, comm, msg, tam) is None, "sign: own hiding changed")
    tam = [(comms[0][0], comms[0][1], _other_point(S, comms[0][2]))] + comms[1:]
    T.check(neg, S.sign_share(sh, nonce, comm, msg, tam) is None, "sign: own binding changed")
    _expect_panic(T, neg, lambda: S.sign_share(
        sh, (nonce[0] + 1, nonce[1], nonce[2]), comm, msg, comms), "sign: nonce/comm ident")
    # a tampered commitment of ANOTHER signer is not detected by sign, but
    # changes the share, which the coordinator (holding the true list) rejects
    tam = comms[:-1] + [(comms[-1][0], _other_point(S, comms[-1][1]), comms[-1][2])]
    zt = S.sign_share(sh, nonce, comm, msg, tam)
    T.check(neg, zt is not None and not S.verify_share(spks[me], sh["ident"], zt, comms, gpk, msg),
            "share computed over a tampered list")

    # assemble None cases
    T.check(neg, S.assemble(t, gpk, zs[1:], comms, spks, msg) is None, "assemble: missing share")
    T.check(neg, S.assemble(t, gpk, zs, comms, spks[:comms[0][0] - 1] + spks[comms[0][0]:], msg)
            is None, "assemble: missing signer pk")
    T.check(neg, S.assemble(t, gpk, [(zs[0][0], (zs[0][1] + 1) % q)] + zs[1:], comms, spks, msg)
            is None, "assemble: corrupted share")
    # first match wins: a bad duplicate placed BEFORE the good share is fatal,
    # placed AFTER it is ignored
    badz = (zs[0][0], (zs[0][1] + 5) % q)
    T.check(neg, S.assemble(t, gpk, [badz] + zs, comms, spks, msg) is None,
            "assemble: bad duplicate first")
    T.check(cat, S.assemble(t, gpk, zs + [badz], comms, spks, msg) is not None,
            "assemble: bad duplicate last is ignored")
    T.check(neg, S.assemble(t, gpk, zs, comms, spks, msg + b"x") is None, "assemble: other msg")
    T.check(neg, S.assemble(t, _other_point(S, gpk), zs, comms, spks, msg) is None,
            "assemble: other group key")
    T.check(neg, S.assemble(1, gpk, zs, comms, spks, msg) is None, "assemble: t < 2")
    T.check(neg, S.assemble(t, gpk, zs, [], spks, msg) is None, "assemble: empty list")
    if t >= 2:
        _expect_panic(T, neg, lambda: S.assemble(t, gpk, zs, list(reversed(comms)), spks, msg),
                      "assemble: unsorted list")
        _expect_panic(T, neg, lambda: S.verify_share(
            spks[me], sh["ident"], zs[0][1], comms + [comms[0]], gpk, msg),
            "verify_share: duplicate in list")

    # ---- wire round trips ----
    w = "wire/" + S.name
    T.check(w, S.dec_group_sk(S.enc_group_sk(sk)) == sk, "group sk")
    P = S.dec_group_pk(S.enc_group_pk(gpk))
    T.check(w, P is not None and S.G_eq(P, gpk), "group pk")
    for sh_ in shares[:2]:
        e = S.enc_share(sh_)
        d = S.dec_share(e)
        T.check(w, len(e) == S.ENC_LEN["share"] and d is not None and d["ident"] == sh_["ident"]
                and d["sk"] == sh_["sk"] and S.G_eq(d["pk"], sh_["pk"])
                and S.G_eq(d["group_pk"], gpk) and S.enc_share(d) == e, "share")
    for p_ in spks[:2]:
        e = S.enc_signer_pk(p_)
        d = S.dec_signer_pk(e)
        T.check(w, len(e) == S.ENC_LEN["signer_pk"] and d is not None and d[0] == p_[0]
                and S.G_eq(d[1], p_[1]) and S.enc_signer_pk(d) == e, "signer pk")
    e = S.enc_vss_list(vss)
    d = S.dec_vss_list(e)
    T.check(w, len(e) == t * S.NE and d is not None and len(d) == t
            and all(S.G_eq(a, b) for a, b in zip(d, vss)) and S.enc_vss_list(d) == e, "vss list")
    e = S.enc_nonce(nonce)
    T.check(w, len(e) == S.ENC_LEN["nonce"] and S.dec_nonce(e) == nonce, "nonce")
    e = S.enc_commitment(comm)
    d = S.dec_commitment(e)
    T.check(w, len(e) == S.ENC_LEN["commitment"] and d is not None and d[0] == comm[0]
            and S.G_eq(d[1], comm[1]) and S.G_eq(d[2], comm[2])
            and S.enc_commitment(d) == e, "commitment")
    dn = S.dec_nonce(S.enc_nonce(nonce))
    T.check(w, S.enc_commitment(S.nonce_commitment(dn)) == e, "nonce -> commitment")
    e = S.enc_commitment_list(comms)
    d = S.dec_commitment_list(e)
    T.check(w, len(e) == t * S.ENC_LEN["commitment"] and d is not None and len(d) == t
            and S.enc_commitment_list(d) == e, "commitment list")
    e = S.enc_sig_share(zs[0])
    T.check(w, len(e) == S.ENC_LEN["sig_share"] and S.dec_sig_share(e) == zs[0], "sig share")
    e = S.enc_signature(sig)
    d = S.dec_signature(e)
    T.check(w, len(e) == S.ENC_LEN["signature"] and d is not None and S.G_eq(d[0], R)
            and d[1] == z and S.enc_signature(d) == e and S.verify_esig(gpk, e, msg), "signature")
    # bit flips in an encoded signature never verify
    for _ in range(4):
        b = bytearray(e)
        b[rnd.randrange(len(b))] ^= 1 << rnd.randrange(8)
        T.check(neg, not S.verify_esig(gpk, bytes(b), msg), "bit-flipped esig")
    # unsorted / duplicate / short commitment lists do not decode
    T.check(neg, S.dec_commitment_list(S.enc_commitment_list(list(reversed(comms)))) is None,
            "dec list: descending")
    T.check(neg, S.dec_commitment_list(S.enc_commitment_list([comms[0], comms[0]])) is None,
            "dec list: duplicate")
    T.check(neg, S.dec_commitment_list(S.enc_commitment_list(comms[:1])) is None,
            "dec list: single")
    T.check(neg, S.dec_commitment_list(b"") is None, "dec list: empty")
    T.check(neg, S.dec_commitment_list(S.enc_commitment_list(comms) + b"\x00") is None,
            "dec list: trailing byte")
    T.check(neg, S.dec_vss_list(S.enc_vss_list(vss[:1])) is None and S.dec_vss_list(b"") is None
            and S.dec_vss_list(S.enc_vss_list(vss)[:-1]) is None, "dec vss: short")


def _st_decode_rules(T, S):
    """Which byte strings the decoders reject (RFC 9591 Deserialize* rules
    as applied by crrl)."""
    cat = "decode_rules/" + S.name
    q, NS, NE = S.order, S.NS, S.NE
    endian = "big" if S.big_endian else "little"
    one = S.enc_scalar(1)
    G = S.enc_point(S.G_mulgen(1))
    P5 = S.enc_point(S.G_mulgen(5))
    ident_enc = S.enc_point(S.G_identity())
    T.check(cat, len(one) == NS and len(G) == NE and len(ident_enc) == NE, "lengths")

    # scalars
    T.check(cat, S.dec_scalar(S.enc_scalar(q - 1)) == q - 1, "q-1 accepted")
    T.check(cat, S.dec_scalar(S.enc_scalar(0)) == 0, "0 accepted as scalar")
    T.check(cat, S.dec_scalar(q.to_bytes(NS, endian)) is None, "q rejected")
    T.check(cat, S.dec_scalar((q + 1).to_bytes(NS, endian)) is None, "q+1 rejected")
    T.check(cat, S.dec_scalar(b"\xff" * NS) is None, "all-ones rejected")
    T.check(cat, S.dec_scalar(one[:-1]) is None and S.dec_scalar(one + b"\x00") is None
            and S.dec_scalar(b"") is None, "scalar length")
    if S.name == "ed448":
        T.check(cat, one[56] == 0 and S.dec_scalar(one[:56] + b"\x01") is None
                and S.dec_scalar(one[:56] + b"\x80") is None, "ed448 57th byte must be 0")
        T.check(cat, S.dec_scalar(one[:56]) is None, "ed448 56-byte scalar rejected")
    if S.big_endian:
        T.check(cat, one == bytes(31) + b"\x01", "big-endian scalars")
    else:
        T.check(cat, one == b"\x01" + bytes(NS - 1), "little-endian scalars")

    # points
    T.check(cat, S.dec_point(G) is not None and S.dec_point(P5) is not None, "valid points")
    T.check(cat, S.dec_point(ident_enc) is None, "identity rejected")
    T.check(cat, S.dec_point(G[:-1]) is None and S.dec_point(G + b"\x00") is None
            and S.dec_point(b"") is None, "point length")
    if S.name in ("p256", "secp256k1"):
        C = S.grp.C
        T.check(cat, ident_enc == bytes(33), "identity encodes as 33 zeros")
        T.check(cat, S.dec_point(b"\x00") is None, "1-byte infinity rejected")
        T.check(cat, S.dec_point(C.encode_uncompressed(C.G)) is None, "uncompressed rejected")
        T.check(cat, S.dec_point(bytes([G[0] ^ 1]) + G[1:]) is not None, "other parity = -G")
        T.check(cat, S.dec_point(b"\x04" + G[1:]) is None and S.dec_point(b"\x06" + G[1:]) is None,
                "bad leading byte")
        x = C.G[0]
        T.check(cat, S.dec_point(b"\x02" + (x + C.p).to_bytes(33, "big")[1:]) is None
                if x + C.p < 2**256 else True, "x + p rejected")
        T.check(cat, S.dec_point(b"\x02" + C.p.to_bytes(32, "big")) is None, "x = p rejected")
        xx = 1
        while C.lift_x(xx, 0) is not None:
            xx += 1
        T.check(cat, S.dec_point(b"\x02" + xx.to_bytes(32, "big")) is None, "off-curve x rejected")
    elif S.name in ("ed25519", "ed448"):
        C = S.grp.C
        low = C.low_order_points()
        T.check(cat, all(S.dec_point(C.encode(Q)) is None for Q in low),
                "all low-order points rejected")
        mixed = [C.add(C.mul_base(3), Q) for Q in low[1:]]
        T.check(cat, all(C.decode(C.encode(Q)) is not None for Q in mixed)
                and all(S.dec_point(C.encode(Q)) is None for Q in mixed),
                "valid curve points outside the prime-order subgroup rejected")
        # non-canonical y (y + p) of a point with small y
        yy = 2
        while C.recover_x(yy, 0) is None or yy + C.p >= 1 << (8 * NE - 1):
            yy += 1
        enc_nc = (yy + C.p).to_bytes(NE, "little")
        T.check(cat, S.dec_point(enc_nc) is None, "non-canonical y rejected")
        # x = 0 with sign bit set (non-canonical neutral)
        b = bytearray(C.encode(C.neutral))
        b[-1] |= 0x80
        T.check(cat, S.dec_point(bytes(b)) is None, "x=0 with sign bit rejected")
        if S.name == "ed448":
            b = bytearray(G)
            b[56] |= 0x01
            T.check(cat, S.dec_point(bytes(b)) is None, "ed448 spare bits of last byte")
    else:
        Rr = S.grp.R
        T.check(cat, ident_enc == bytes(32), "ristretto identity = zeros")
        T.check(cat, S.dec_point(b"\x01" + bytes(31)) is None, "negative s rejected")
        T.check(cat, S.dec_point((Rr.p + 2).to_bytes(32, "little")) is None
                and S.dec_point(b"\xff" * 32) is None, "non-canonical s rejected")
        # all four coset representatives encode identically
        P = S.G_mulgen(11)
        T4 = [Q for Q in ED25519.low_order_points() if ED25519.is_neutral(ED25519.mul(4, Q))]
        T.check(cat, len(T4) == 4 and all(S.enc_point(ED25519.add(P, Q)) == S.enc_point(P)
                                          and S.G_eq(ED25519.add(P, Q), P) for Q in T4),
                "coset representatives")
        T.check(cat, sum(S.dec_point(bytes([i]) + bytes(31)) is not None for i in range(32)) < 32,
                "some small encodings invalid")

    # composite objects
    T.check(cat, S.dec_group_sk(S.enc_scalar(0)) is None, "group sk 0")
    T.check(cat, S.dec_group_sk(q.to_bytes(NS, endian)) is None, "group sk q")
    T.check(cat, S.dec_group_sk(one) == 1 and S.dec_group_sk(one + b"\x00") is None, "group sk len")
    T.check(cat, S.dec_group_pk(ident_enc) is None and S.dec_group_pk(G[1:]) is None, "group pk")
    zero = S.enc_scalar(0)
    good_share = one + S.enc_scalar(9) + P5
    T.check(cat, S.dec_share(good_share) is not None, "share ok")
    T.check(cat, S.dec_share(zero + S.enc_scalar(9) + P5) is None, "share ident 0")
    T.check(cat, S.dec_share(one + zero + P5) is None, "share sk 0")
    T.check(cat, S.dec_share(one + S.enc_scalar(9) + ident_enc) is None, "share identity pk")
    T.check(cat, S.dec_share(q.to_bytes(NS, endian) + S.enc_scalar(9) + P5) is None, "share ident q")
    T.check(cat, S.dec_share(good_share[:-1]) is None and S.dec_share(good_share + b"\x00") is None,
            "share length")
    d = S.dec_share(good_share)
    T.check(cat, d is not None and S.G_eq(d["pk"], S.G_mulgen(9)), "share pk recomputed from sk")
    T.check(cat, S.dec_signer_pk(one + P5) is not None and S.dec_signer_pk(zero + P5) is None
            and S.dec_signer_pk(one + ident_enc) is None and S.dec_signer_pk(one + P5 + b"\x00") is None,
            "signer pk")
    T.check(cat, S.dec_nonce(one + zero + zero) == (1, 0, 0), "nonce with zero scalars accepted")
    T.check(cat, S.dec_nonce(zero + one + one) is None
            and S.dec_nonce(one + q.to_bytes(NS, endian) + one) is None
            and S.dec_nonce(one + one + q.to_bytes(NS, endian)) is None
            and S.dec_nonce(one + one) is None, "nonce rejects")
    # a zero nonce gives identity commitments, which encode but do not decode
    c0 = S.nonce_commitment((1, 0, 5))
    T.check(cat, S.G_eq(c0[1], S.G_identity()) and S.dec_commitment(S.enc_commitment(c0)) is None,
            "identity commitment does not round trip")
    T.check(cat, S.dec_commitment(one + G + P5) is not None and S.dec_commitment(zero + G + P5) is None
            and S.dec_commitment(one + ident_enc + P5) is None
            and S.dec_commitment(one + G + ident_enc) is None
            and S.dec_commitment(one + G + P5 + b"\x00") is None, "commitment rejects")
    two = S.enc_scalar(2)
    T.check(cat, S.dec_commitment_list(one + G + P5 + two + P5 + G) is not None
            and S.dec_commitment_list(two + G + P5 + one + P5 + G) is None
            and S.dec_commitment_list(one + G + P5 + zero + P5 + G) is None
            and S.dec_commitment_list(one + G + P5 + two + ident_enc + G) is None, "commitment list")
    # identifiers are compared as integers, whatever the byte order
    big = S.enc_scalar(256)
    T.check(cat, S.dec_commitment_list(two + G + P5 + big + P5 + G) is not None
            and S.dec_commitment_list(big + G + P5 + two + P5 + G) is None, "identifier ordering")
    T.check(cat, S.dec_sig_share(one + zero) == (1, 0) and S.dec_sig_share(zero + one) is None
            and S.dec_sig_share(one + q.to_bytes(NS, endian)) is None
            and S.dec_sig_share(one) is None, "sig share")
    T.check(cat, S.dec_signature(G + zero) is not None and S.dec_signature(ident_enc + one) is None
            and S.dec_signature(G + q.to_bytes(NS, endian)) is None
            and S.dec_signature(G + one + b"\x00") is None and S.dec_signature(b"") is None,
            "signature")
    T.check(cat, S.dec_vss_list(G + P5) is not None and S.dec_vss_list(G) is None
            and S.dec_vss_list(G + ident_enc) is None and S.dec_vss_list(G + P5 + b"\x00") is None,
            "vss list")

    # a signature with R = identity is valid for `verify` on objects (sk = 0
    # is impossible, but z = c*sk with k = 0): it verifies as an object yet
    # cannot be transported (dec_signature rejects the identity)
    sk = 12345
    pk = S.G_mulgen(sk)
    Rn = S.G_identity()
    c = S.challenge(Rn, S.enc_point(pk), b"m")
    T.check(cat, S.verify(pk, Rn, c * sk % q, b"m")
            and not S.verify_esig(pk, S.enc_signature((Rn, c * sk % q)), b"m"),
            "identity R: verify() accepts, verify_esig() rejects")
    # lagrange preconditions
    _expect_panic(T, cat, lambda: S.lagrange(0, [0, 1]), "lagrange x = 0")
    _expect_panic(T, cat, lambda: S.lagrange(2, [1, 3]), "lagrange x not in L")
    _expect_panic(T, cat, lambda: S.lagrange(1, [3, 1]), "lagrange unsorted")
    _expect_panic(T, cat, lambda: S.lagrange(1, [1, 1]), "lagrange duplicate")
    _expect_panic(T, cat, lambda: S.lagrange(1, []), "lagrange empty")
    T.check(cat, S.lagrange(1, [1]) == 1, "lagrange singleton")
    T.check(cat, S.lagrange(1, [1, 2, 3]) == 3 and S.lagrange(2, [1, 2, 3]) == q - 3
            and S.lagrange(3, [1, 2, 3]) == 1, "lagrange {1,2,3}")
    _expect_panic(T, cat, lambda: S.vss_verify(d, []), "verify_split empty vss")
    _expect_panic(T, cat, lambda: S.derive_group_info(3, [pk]), "derive_group_info 1 element")
    _expect_panic(T, cat, lambda: S.derive_group_info(1, [pk, pk]), "derive_group_info n < t")


def _st_cofactor(T):
    """ed25519 / ed448: GroupPublicKey::verify uses the cofactored equation;
    with object-level inputs outside the prime-order subgroup (which no
    decoder lets through) it accepts where the strict equation fails."""
    cat = "cofactor"
    for name in ("ed25519", "ed448"):
        S = SUITES[name]
        C = S.grp.C
        q = S.order
        sk = 424242
        pk = S.G_mulgen(sk)
        msg = b"cofactor"
        Tt = C.low_order_points()[1]                 # generator of E[h]
        k = 999
        Rt = C.add(S.G_mulgen(k), Tt)                # R with a torsion component
        c = S.challenge(Rt, S.enc_point(pk), msg)
        z = (k + c * sk) % q
        T.check(cat, S.verify(pk, Rt, z, msg), name + " cofactored accept")
        T.check(cat, not C.eq(S.G_mulgen(z), C.add(Rt, S.G_mul(c, pk))),
                name + " strict equation fails")
        T.check(cat, S.dec_signature(S.enc_signature((Rt, z))) is None
                and not S.verify_esig(pk, S.enc_signature((Rt, z)), msg),
                name + " but such R cannot be decoded")
    # ristretto255: equation is exact on group elements, any representative
    S = SUITES["ristretto255"]
    sk, k, msg = 5151, 77, b"r"
    pk = S.G_mulgen(sk)
    T4 = [Q for Q in ED25519.low_order_points() if ED25519.is_neutral(ED25519.mul(4, Q))]
    for Q in T4:
        Rr = ED25519.add(S.G_mulgen(k), Q)
        c = S.challenge(Rr, S.enc_point(pk), msg)
        T.check(cat, S.verify(pk, Rr, (k + c * sk) % S.order, msg), "ristretto representative")
        T.check(cat, not S.verify(pk, Rr, (k + c * sk + 1) % S.order, msg), "ristretto wrong z")


def selftest(quick=False, verbose=True):
    T = _Tally()
    _st_hash(T)
    _st_rng(T)
    for S in SUITES.values():
        _st_kat(T, S)
    _st_interop(T)
    _st_cofactor(T)
    for S in SUITES.values():
        _st_decode_rules(T, S)
    for S in SUITES.values():
        for max_signers in range(2, 6):
            for min_signers in range(2, max_signers + 1):
                if quick and (min_signers, max_signers) not in ((2, 2), (3, 5)):
                    continue
                _st_crrl_self_ops(T, S, min_signers, max_signers)
    for S in SUITES.values():
        for t in range(2, 5):
            for n in range(t, 7):
                for seed in range(1 if quick else 2):
                    _st_e2e(T, S, t, n, seed)
    if verbose:
        for cat in sorted(T.n):
            print("%-28s %6d checks  %s" % (cat, T.n[cat],
                                             "ok" if cat not in T.bad else
                                             "%d FAILED" % T.bad[cat]))
        for m in T.msgs:
            print("FAIL", m)
        print("TOTAL %d checks, %d failed" % (sum(T.n.values()), sum(T.bad.values())))
    return T.ok()


if __name__ == "__main__":
    sys.exit(0 if selftest(quick="--quick" in sys.argv) else 1)
