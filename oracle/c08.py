"""C08 -- ECDSA (P-256, secp256k1): standard verification, documented nonce
derivation. Oracle: ref_weier (textbook verification predicate, RFC 6979 with
optional extra input, the documented SHA-512 nonce of secp256k1)."""

import sys
import os

sys.path.insert(0, os.path.dirname(os.path.abspath(__file__)))

from common import *          # noqa
import ref_weier as W
import c04
import groups


def hx(b):
    return b.hex() if b else "-"


def rb(rng, n):
    return bytes(rng.getrandbits(8) for _ in range(n))


def be(v, n):
    return v.to_bytes(n, "big")


def gen(rng, shard, nshards, n):
    cases = []
    for cname in ("p256", "secp256k1"):
        C = W.CURVES[cname]
        N = C.n
        T = "s %s " % cname
        for _ in range(n):
            d = rng.randrange(1, N) if rng.randrange(8) else rng.choice([1, 2, N - 1, N - 2])
            if rng.randrange(3) == 0:
                # structured private scalars (window-recoding carries, endomorphism-split rounding boundaries on secp256k1)
                hd, _ = c04.hostile_scalar(rng, groups.GROUPS[cname])
                if hd % N:
                    d = hd % N
            Q = C.mulgen(d)
            pk = C.encode_compressed(Q) if rng.randrange(2) else C.encode_uncompressed(Q)
            kind = rng.choices(["honest", "forged", "invalid"], [30, 35, 35])[0]
            cl = set()
            if kind == "honest":
                hl = rng.choice([0, 1, 20, 31, 32, 33, 48, 64, 70])
                hv = rb(rng, hl) if rng.randrange(6) else rng.choice([bytes(hl), b"\xff" * hl])
                extra = rb(rng, rng.choice([0, 0, 1, 32, 100]))
                sig = W.ecdsa_sign(C, d, hv, extra)
                lines = [T + "sign %s %s %s" % (be(d, 32).hex(), hx(hv), hx(extra)), T + "verify %s %s %s" % (pk.hex(), sig.hex(), hx(hv))]
                exp = ["OK " + sig.hex(), "OK T"]
                cl |= {"honest", "hashlen=%s" % (hl if hl in (0, 1, 31, 32, 33) else "other"), "extra=%s" % ("none" if not extra else "some")}
                # determinism + verification under truncated-equal hash
                if hl > 32:
                    lines.append(T + "verify %s %s %s" % (pk.hex(), sig.hex(), hv[:32].hex())); exp.append("OK T"); cl.add("hash-truncation")
                hv2 = bytearray(hv + b"\x00") if hl < 32 else bytearray(hv)
                hv2[0] ^= 1
                ok2 = W.ecdsa_verify(C, Q, sig, bytes(hv2))
                lines.append(T + "verify %s %s %s" % (pk.hex(), sig.hex(), bytes(hv2).hex())); exp.append("OK " + ("T" if ok2 else "F"))
                cases.append(Case(lines, exp, ["%s:%s" % (cname, c) for c in cl] + sorted(cl), "honest"))
                continue
            if kind == "forged" and rng.randrange(6) == 0:
                # x(R) in [n, p): honest signing reaches this with probability 2^-128, but a verifier must still apply
                # "x(R) mod n == r". Construct it backwards: pick R with x = n + t on the curve, r = t, any s and h,
                # and derive the public key Q = (s*R - h*G)/r (no private key is needed to test verification).
                t0 = rng.randrange(1, 1 << rng.choice([4, 16, 64, 120]))
                while True:
                    x = N + t0
                    if x < C.p:
                        Rp = C.lift_x(x, rng.randrange(2))
                        if Rp is not None:
                            break
                    t0 += 1
                r = x - N
                s = rng.randrange(1, N)
                h = rng.randrange(N)
                Qx = C.mul(pow(r, -1, N), C.sub(C.mul(s, Rp), C.mulgen(h)))
                if Qx is None or C.norm(Qx) is None:
                    continue
                Qx = C.norm(Qx)
                pkx = C.encode_compressed(Qx) if rng.randrange(2) else C.encode_uncompressed(Qx)
                hv = be(h, 32)
                sig = be(r, 32) + be(s, 32)
                ok = W.ecdsa_verify(C, Qx, sig, hv)
                cases.append(case1(T + "verify %s %s %s" % (pkx.hex(), sig.hex(), hv.hex()), "OK " + ("T" if ok else "F"),
                                   [cname + ":x(R)>=n", "x(R)>=n", cname + ":" + ("accept" if ok else "reject")], "x(R) >= n"))
                continue
            # forged-hash construction: h = s*k - r*d gives a valid signature for any chosen s and k
            k = rng.randrange(1, N)
            R = C.mulgen(k)
            r = R[0] % N
            t = rng.randrange(8)
            if t == 0:
                s = rng.choice([1, N - 1, 2, N - 2, (N + 1) // 2, (N - 1) // 2]); cl.add("s-boundary")
            else:
                s = rng.randrange(1, N)
            if r == 0:
                continue
            h = (s * k - r * d) % N
            if t == 1:
                # infinity outcome: h + r*d = 0
                h = (-r * d) % N; cl.add("infinity-outcome")
            hv = be(h, 32)
            if rng.randrange(4) == 0 and h < (1 << 248):
                # shorter hash with the same integer value
                ln = max(1, (h.bit_length() + 7) // 8)
                hv = be(h, ln); cl.add("short-hash")
            rs, ss = r, s
            fmt = 32
            if kind == "invalid":
                m = rng.randrange(12)
                if m == 0:
                    rs = rng.choice([0, N, N + 1, (1 << 256) - 1]); cl.add("r-out-of-range")
                elif m == 1:
                    ss = rng.choice([0, N, N + 1, (1 << 256) - 1]); cl.add("s-out-of-range")
                elif m == 2:
                    ss = (N - s); cl.add("s-negated")        # also valid in plain ECDSA
                elif m == 3:
                    rs = (r + 1) % N; cl.add("r+1")
                elif m == 4:
                    rs = r + N if r + N < (1 << 256) else r; cl.add("r+n")
                elif m in (5, 6):
                    fmt = rng.choice([33, 34, 64]); cl.add("long-form-zero-padded")
                elif m == 7:
                    fmt = 31 if (r < (1 << 248) and s < (1 << 248)) else 32; cl.add("short-form")
                elif m == 8:
                    fmt = -1; cl.add("odd-length")
                elif m == 9:
                    fmt = -2; cl.add("nonzero-padding")
                elif m == 10:
                    fmt = 0; cl.add("empty")
                else:
                    cl.add("bitflip")
            if fmt > 0:
                if rs >= (1 << (8 * fmt)) or ss >= (1 << (8 * fmt)):
                    fmt = 32
                sig = be(rs, fmt) + be(ss, fmt)
            elif fmt == -1:
                sig = be(rs, 32) + be(ss, 32) + b"\x00"
            elif fmt == -2:
                sig = b"\x01" + be(rs, 32) + b"\x00" + be(ss, 32) if rng.randrange(2) else b"\x00" + be(rs, 32) + b"\x01" + be(ss, 32)
            else:
                sig = b""
            if "bitflip" in cl:
                b = bytearray(sig); b[rng.randrange(len(b))] ^= 1 << rng.randrange(8); sig = bytes(b)
            ok = W.ecdsa_verify(C, Q, sig, hv)
            cl.add("accept" if ok else "reject")
            cl.add(kind)
            cases.append(case1(T + "verify %s %s %s" % (pk.hex(), hx(sig), hx(hv)), "OK " + ("T" if ok else "F"),
                               ["%s:%s" % (cname, c) for c in cl] + sorted(cl), kind))
        # key handling: from_seed / private key decode
        for _ in range(max(1, n // 20)):
            seed = rb(rng, rng.choice([0, 1, 16, 32, 64]))
            d = W.private_from_seed(C, seed)
            cases.append(case1(T + "from_seed " + hx(seed), "OK %s %s" % (be(d, 32).hex(), C.encode_compressed(C.mulgen(d)).hex()), [cname + ":from_seed", "from_seed"]))
            v = rng.choice([0, 1, N - 1, N, N + 1, (1 << 256) - 1, rng.randrange(1 << 256)])
            b = be(v, 32) if rng.randrange(6) else rb(rng, rng.choice([0, 31, 33]))
            ok = len(b) == 32 and 1 <= v < N
            if ok:
                e = "OK S %s %s" % (be(v, 32).hex(), C.encode_uncompressed(C.mulgen(v)).hex())
            else:
                e = "OK N"
            cases.append(case1(T + "skdec " + hx(b), e, [cname + ":skdec:" + ("accept" if ok else "reject"), "skdec"]))
    return cases


def main(argv):
    a = parse_args(argv)
    if a.replay:
        return do_replay(a.replay)
    rep = Report("C08", a.tier, a.seed)
    rep.rule = ("honest signatures (hash lengths 0..70, extra-randomness lengths 0/1/32/100) compared byte-for-byte with the reference nonce "
                "derivation and verified; valid signatures with chosen s and boundary values manufactured by the forged-hash construction "
                "h = s*k - r*d; the infinity outcome h + r*d = 0; invalid variants (r,s in {0,n,n+1,2^256-1}, r+1, r+n, odd / empty / "
                "non-zero-padded / zero-padded long / short forms, bit flips); private-key decoding and from_seed. x(R) in [n,p) (unreachable by honest signing) is constructed backwards from R with a derived public key. distinct_nontrivial = distinct requests in a class")
    rep.assumptions = ["ref_weier (RFC 6979 A.2.5 vectors, repository KATs)"]
    try:
        if a.tier == "quick":
            cfgs = (a.configs.split(",") if a.configs else ["default", "w32", "zz32"])
            n = int(10000 * a.scale)
        else:
            cfgs = (a.configs.split(",") if a.configs else ALL_CONFIGS)
            n = int(900000 * a.scale)
        exes = build_many(cfgs)
        m = run_sharded("c08", "gen", (n // NCPU + 1,), [(c, exes[c]) for c in cfgs], a.seed, timeout=3600)
        rep.merge(m)
        req = []
        for c in ("p256", "secp256k1"):
            req += [c + ":honest", c + ":s-boundary", c + ":infinity-outcome", c + ":r-out-of-range", c + ":s-out-of-range", c + ":long-form-zero-padded",
                    c + ":odd-length", c + ":nonzero-padding", c + ":empty", c + ":accept", c + ":reject", c + ":hashlen=0", c + ":hashlen=33",
                    c + ":extra=some", c + ":short-hash", c + ":from_seed", c + ":skdec:reject", c + ":x(R)>=n"]
        rep.require(*req)
    except Inconclusive as e:
        rep.incon.append(str(e))
    return rep.finish()


if __name__ == "__main__":
    sys.exit(main(sys.argv[1:]))
