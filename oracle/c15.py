"""C15 -- FROST: any qualifying signer set signs validly; bad shares are rejected.

One protocol run = trusted_split -> verify_split (every share) -> commit (chosen
subset, arrival order, duplicates) -> choose -> sign -> verify share ->
assemble -> verify / verify_esig (+ the plain RFC 8032 verifier for the two
EdDSA suites), every wire object passing through the library's encode/decode.
Oracle: an independent FROST reference (RFC 9591) that recomputes every
intermediate value from the RNG tapes; corruptions (one field of one message
at a time) are judged by the reference."""

import sys
import os
import itertools

sys.path.insert(0, os.path.dirname(os.path.abspath(__file__)))

from common import *          # noqa
import ref_frost as F
import ref_ed
import c19
import groups

STRUCT = {}


def hx(b):
    return b.hex() if b else "-"


def rb(rng, n):
    return bytes(rng.getrandbits(8) for _ in range(n))


def flip(rng, b, lo=0, hi=None):
    b = bytearray(b)
    hi = len(b) if hi is None else hi
    i = rng.randrange(lo, hi)
    b[i] ^= 1 << rng.randrange(8)
    return bytes(b)


def protocol_run(rng, S, t, n, exhaustive_subset=None, big_idents=None):
    """-> Case for one full honest run plus corruptions"""
    name = S.name
    T = "fr %s " % name
    lines, exp, cl = [], [], {name, "t=%d" % t, "n=%d" % n}
    msg = rb(rng, rng.choice([0, 1, 32, 100]))
    # --- key generation and split
    tape_k = rb(rng, 96)
    sk = S.keygen(F.Tape(tape_k))
    gpk = S.G_mulgen(sk)
    gsk_b, gpk_b = S.enc_group_sk(sk), S.enc_group_pk(gpk)
    lines.append(T + "keygen " + tape_k.hex()); exp.append("OK %s %s" % (gsk_b.hex(), gpk_b.hex()))
    tape_s = rb(rng, 64 * t + 17)
    if big_idents is None:
        shares, vss = S.trusted_split(F.Tape(tape_s), sk, t, n)
        shares_b = [S.enc_share(s) for s in shares]
        vss_b = S.enc_vss_list(vss)
        lines.append(T + "split %s %s %d %d" % (tape_s.hex(), gsk_b.hex(), t, n))
        exp.append("OK %s %s" % (",".join(x.hex() for x in shares_b), vss_b.hex()))
    else:
        # large group (identifiers beyond one byte): the reference evaluates the dealer's polynomial itself for the
        # chosen identifiers; the library's split is checked through split_big (three shares + all shares verify)
        n_total = n
        take = F.Tape(tape_s)
        coef = [sk] + [S.random_scalar(take) for _ in range(t - 1)]
        vss = [S.G_mulgen(c) for c in coef]

        def f_(x):
            y = 0
            for c in reversed(coef):
                y = (y * x + c) % S.order
            return y
        vss_b = S.enc_vss_list(vss)
        pick = [1, n_total // 2 + 1, n_total]
        pk3 = [S.enc_share(dict(ident=x, sk=f_(x), pk=S.G_mulgen(f_(x)), group_pk=vss[0])) for x in pick]
        lines.append(T + "split_big %s %s %d %d" % (tape_s.hex(), gsk_b.hex(), t, n_total))
        exp.append("OK %d %s %s T" % (n_total, ",".join(x.hex() for x in pk3), vss_b.hex()))
        shares = [dict(ident=x, sk=f_(x), pk=S.G_mulgen(f_(x)), group_pk=vss[0]) for x in big_idents]
        shares_b = [S.enc_share(sh) for sh in shares]
        n = len(shares)
        cl.add("identifiers>255")
    # every share passes share verification; a share with an altered secret or a foreign VSS commitment does not
    for i in range(n):
        lines.append(T + "verify_split %s %s" % (shares_b[i].hex(), vss_b.hex())); exp.append("OK T")
    spks = [(s["ident"], s["pk"]) for s in shares]
    spks_b = [S.enc_signer_pk(p) for p in spks]
    if big_idents is None:
        lines.append(T + "derive_group_info %d %s" % (n, vss_b.hex()))
        exp.append("OK %s %s" % (",".join(x.hex() for x in spks_b), gpk_b.hex()))
    for i in rng.sample(range(n), min(n, 2)):
        lines.append(T + "share_pub " + shares_b[i].hex()); exp.append("OK " + spks_b[i].hex())
    # any t shares interpolate to the group secret (reference-side check of the library's shares)
    idx = rng.sample(range(n), t)
    ids = [shares[i]["ident"] for i in idx]
    rec = sum(S.lagrange(shares[i]["ident"], sorted(ids)) * shares[i]["sk"] for i in idx) % S.order
    if rec != sk % S.order:
        lines.append("ping"); exp.append("ORACLE-INCONSISTENT: interpolation")
    # corrupted share (secret scalar altered -> pk recomputed on decode -> verify_split must fail)
    bad = bytearray(shares_b[0]);
    pos = S.NS + (0 if not S.big_endian else S.NS - 1)
    bad[pos] ^= 1
    bs = S.dec_share(bytes(bad))
    if bs is not None:
        lines.append(T + "verify_split %s %s" % (bytes(bad).hex(), vss_b.hex())); exp.append("OK " + ("T" if S.vss_verify(bs, vss) else "F"))
        cl.add("corrupt-share-secret")
    # VSS commitment with one element replaced
    vss2 = list(vss); vss2[rng.randrange(1, t)] = S.G_mulgen(rng.randrange(1, S.order))
    lines.append(T + "verify_split %s %s" % (shares_b[1 % n].hex(), S.enc_vss_list(vss2).hex()))
    exp.append("OK " + ("T" if S.vss_verify(shares[1 % n], vss2) else "F"))
    cl.add("corrupt-vss")
    # --- round 1: commitments from a subset, in arbitrary arrival order, with duplicates
    if exhaustive_subset is not None:
        members = list(exhaustive_subset)
    else:
        k = rng.randrange(t, n + 1)
        members = rng.sample(range(n), k)
    rng.shuffle(members)
    nonces, comms, nonces_b, comms_b = {}, {}, {}, {}
    for i in members:
        tp = rb(rng, 64)
        nn, cc = S.commit(F.Tape(tp), shares[i]["sk"], shares[i]["ident"])
        nonces[i], comms[i] = nn, cc
        nonces_b[i], comms_b[i] = S.enc_nonce(nn), S.enc_commitment(cc)
        lines.append(T + "commit %s %s" % (shares_b[i].hex(), tp.hex())); exp.append("OK %s %s" % (nonces_b[i].hex(), comms_b[i].hex()))
    arrival = list(members)
    if rng.randrange(2) and arrival:
        arrival.insert(rng.randrange(len(arrival) + 1), rng.choice(arrival)); cl.add("duplicate-commitment")
    arr_b = b"".join(comms_b[i] for i in arrival)
    # the arrival list is not sorted: Commitment::decode_list enforces ordering, so the coordinator receives them one by one;
    # the executor's choose op decodes a list, hence we feed a sorted list only when the arrival order is already valid, and
    # otherwise exercise choose through the sorted arrival (duplicates removed) -- the reference decides
    chosen = S.choose(t, [comms[i] for i in arrival])
    dl = S.dec_commitment_list(arr_b)
    if dl is None:
        lines.append(T + "choose %d %s %s" % (t, gpk_b.hex(), arr_b.hex())); exp.append("OK NODEC 2"); cl.add("unsorted-list-rejected-by-decoder")
        srt = sorted(set(arrival), key=lambda i: shares[i]["ident"])
        arr_b = b"".join(comms_b[i] for i in srt)
        chosen = S.choose(t, [comms[i] for i in srt])
        if len(srt) < 2:
            chosen = None
    if len(arr_b) // S.ENC_LEN["commitment"] >= 2:
        lines.append(T + "choose %d %s %s" % (t, gpk_b.hex(), arr_b.hex()))
        exp.append(("OK S " + S.enc_commitment_list(chosen).hex()) if chosen is not None else "OK N")
    if chosen is None:
        return Case(lines, exp, sorted(cl) + ["choose-none"], "frost run (not enough signers)")
    cl_b = S.enc_commitment_list(chosen)
    signers = [next(i for i in members if shares[i]["ident"] == c[0]) for c in chosen]
    # --- round 2
    zs = {}
    for i in signers:
        z = S.sign_share(shares[i], nonces[i], comms[i], msg, chosen)
        zs[i] = z
        lines.append(T + "sign %s %s %s %s %s" % (shares_b[i].hex(), nonces_b[i].hex(), comms_b[i].hex(), hx(msg), cl_b.hex()))
        exp.append(("OK S " + S.enc_sig_share((shares[i]["ident"], z)).hex()) if z is not None else "OK N")
    # a signer presented with a list in which exactly one point of one entry was replaced by another valid point: its own entry
    # (hiding only / binding only / both: must refuse) or somebody else's (signs, with other binding factors)
    for _ in range(2):
        i = rng.choice(signers)
        who = rng.choice(["own", "own", "own", "other"]) if len(signers) > 1 else "own"
        tgt = i if who == "own" else rng.choice([x for x in signers if x != i])
        idx = next(n_ for n_, c in enumerate(chosen) if c[0] == shares[tgt]["ident"])
        part = rng.choice(["hiding", "binding", "both"])
        newpt = lambda: rng.choice([S.G_mulgen(rng.randrange(1, S.order))] + [c[1] for c in chosen] + [c[2] for c in chosen])
        c = chosen[idx]
        H2 = newpt() if part in ("hiding", "both") else c[1]
        B2 = newpt() if part in ("binding", "both") else c[2]
        ch2 = list(chosen); ch2[idx] = (c[0], H2, B2)
        if S.enc_commitment(ch2[idx]) == S.enc_commitment(c):
            continue
        z2 = S.sign_share(shares[i], nonces[i], comms[i], msg, ch2)
        lines.append(T + "sign %s %s %s %s %s" % (shares_b[i].hex(), nonces_b[i].hex(), comms_b[i].hex(), hx(msg), S.enc_commitment_list(ch2).hex()))
        exp.append(("OK S " + S.enc_sig_share((shares[i]["ident"], z2)).hex()) if z2 is not None else "OK N")
        cl.add("sign:%s-entry-%s-replaced" % (who, part))
        if who == "own" and z2 is not None:
            lines.append("ping"); exp.append("ORACLE-INCONSISTENT: reference signs over a list that does not hold its own commitment")
    # a signer presented with a caller-built list (entries decoded one by one, not through decode_list) that is well-formed up to
    # and including its own entry but unordered / duplicated / truncated elsewhere: must refuse (None), never panic; the
    # well-formed list through the same entry point gives the same share
    for _ in range(2):
        i = rng.choice(signers)
        idx = next(n_ for n_, c in enumerate(chosen) if c[0] == shares[i]["ident"])
        kinds = ["wellformed", "single-entry"]
        if len(chosen) - idx - 1 >= 2: kinds += ["tail-swapped"] * 3
        if len(chosen) - idx - 1 >= 1: kinds += ["tail-duplicate", "tail-repeats-own", "tail-repeats-earlier"] * 2
        if idx >= 2: kinds += ["head-swapped"]
        if idx >= 1: kinds += ["head-duplicate"]
        kind = rng.choice(kinds)
        ch2 = list(chosen)
        if kind == "single-entry":
            ch2 = [chosen[idx]]
        elif kind == "tail-swapped":
            a_, b_ = sorted(rng.sample(range(idx + 1, len(chosen)), 2)); ch2[a_], ch2[b_] = ch2[b_], ch2[a_]
        elif kind == "tail-duplicate":
            j = rng.randrange(idx + 1, len(chosen)); ch2.insert(j, ch2[j])
        elif kind == "tail-repeats-own":
            ch2.insert(rng.randrange(idx + 1, len(chosen) + 1), chosen[idx])
        elif kind == "tail-repeats-earlier":
            ch2.insert(rng.randrange(idx + 1, len(chosen) + 1), chosen[rng.randrange(0, idx + 1)])
        elif kind == "head-swapped":
            a_, b_ = sorted(rng.sample(range(0, idx), 2)); ch2[a_], ch2[b_] = ch2[b_], ch2[a_]
        elif kind == "head-duplicate":
            j = rng.randrange(0, idx); ch2.insert(j, ch2[j])
        z2 = S.sign_share(shares[i], nonces[i], comms[i], msg, ch2)
        lines.append(T + "sign_raw %s %s %s %s %s" % (shares_b[i].hex(), nonces_b[i].hex(), comms_b[i].hex(), hx(msg), S.enc_commitment_list(ch2).hex()))
        exp.append(("OK S " + S.enc_sig_share((shares[i]["ident"], z2)).hex()) if z2 is not None else "OK N")
        cl.add("sign_raw:%s" % kind)
        if (kind == "wellformed") != (z2 is not None):
            lines.append("ping"); exp.append("ORACLE-INCONSISTENT: reference sign_share on a %s list" % kind)
    ss_b = {i: S.enc_sig_share((shares[i]["ident"], zs[i])) for i in signers}
    for i in signers:
        ok = S.verify_share(spks[i], shares[i]["ident"], zs[i], chosen, gpk, msg)
        lines.append(T + "verify_share %s %s %s %s %s" % (spks_b[i].hex(), ss_b[i].hex(), cl_b.hex(), gpk_b.hex(), hx(msg))); exp.append("OK " + ("T" if ok else "F"))
    # a signer not in the list / wrong commitment must refuse
    outsider = [i for i in range(n) if i not in signers]
    if outsider and outsider[0] in nonces:
        o = outsider[0]
        lines.append(T + "sign %s %s %s %s %s" % (shares_b[o].hex(), nonces_b[o].hex(), comms_b[o].hex(), hx(msg), cl_b.hex())); exp.append("OK N")
        cl.add("signer-not-in-list")
    # assemble (shares in arbitrary order, with extra public keys)
    order = list(signers); rng.shuffle(order)
    sig = S.assemble(t, gpk, [(shares[i]["ident"], zs[i]) for i in order], chosen, spks, msg)
    pk_order = list(range(n)); rng.shuffle(pk_order)
    lines.append(T + "assemble %d %s %s %s %s %s" % (t, gpk_b.hex(), ",".join(ss_b[i].hex() for i in order), cl_b.hex(), ",".join(spks_b[i].hex() for i in pk_order), hx(msg)))
    if sig is None:
        exp.append("OK N")
        return Case(lines, exp, sorted(cl) + ["assemble-none"], "frost run")
    sig_b = S.enc_signature(sig)
    exp.append("OK S " + sig_b.hex())
    lines.append(T + "verify %s %s %s" % (gpk_b.hex(), sig_b.hex(), hx(msg))); exp.append("OK T")
    lines.append(T + "verify_esig %s %s %s" % (gpk_b.hex(), sig_b.hex(), hx(msg))); exp.append("OK T")
    lines.append(T + "verify %s %s %s" % (gpk_b.hex(), sig_b.hex(), hx(msg + b"x"))); exp.append("OK F")
    # the aggregate verifies under the plain RFC 8032 verifier for the EdDSA suites (reference) and the library's own verifier
    if name == "ed25519":
        if not ref_ed.ed25519_verify(gpk_b, sig_b, msg):
            lines.append("ping"); exp.append("ORACLE-INCONSISTENT: RFC 8032 verifier rejects the aggregate")
        lines.append("s ed25519 verify %s %s raw - %s" % (gpk_b.hex(), sig_b.hex(), hx(msg))); exp.append("OK T"); cl.add("rfc8032-interop")
    if name == "ed448":
        if not ref_ed.ed448_verify(gpk_b, sig_b, msg, b"", False):
            lines.append("ping"); exp.append("ORACLE-INCONSISTENT: RFC 8032 verifier rejects the aggregate")
        lines.append("s ed448 verify %s %s raw - %s" % (gpk_b.hex(), sig_b.hex(), hx(msg))); exp.append("OK T"); cl.add("rfc8032-interop")
    cl.add("honest-run")
    # --- corruptions: one field of one message at a time, judged by the reference
    for _ in range(6):
        m = rng.randrange(8)
        i = rng.choice(signers)
        if m == 0:
            # altered signature share value
            bad = flip(rng, ss_b[i], S.NS, 2 * S.NS)
            d = S.dec_sig_share(bad)
            if d is None:
                lines.append(T + "dec sig_share " + bad.hex()); exp.append("OK N")
            else:
                ok = S.verify_share(spks[i], d[0], d[1], chosen, gpk, msg)
                lines.append(T + "verify_share %s %s %s %s %s" % (spks_b[i].hex(), bad.hex(), cl_b.hex(), gpk_b.hex(), hx(msg))); exp.append("OK " + ("T" if ok else "F"))
                # and the coordinator must refuse to assemble with it
                lst = [(shares[j]["ident"], zs[j]) if j != i else d for j in signers]
                r2 = S.assemble(t, gpk, lst, chosen, spks, msg)
                lines.append(T + "assemble %d %s %s %s %s %s" % (t, gpk_b.hex(), ",".join(S.enc_sig_share(x).hex() for x in lst), cl_b.hex(), ",".join(x.hex() for x in spks_b), hx(msg)))
                exp.append(("OK S " + S.enc_signature(r2).hex()) if r2 is not None else "OK N")
            cl.add("corrupt-sig-share")
        elif m == 1 and rng.randrange(2):
            # identifier of the share altered (value intact), checked against the real signer's key
            others = [shares[j]["ident"] for j in signers if j != i] + [shares[i]["ident"] + 1, 1, 65535]
            nid = rng.choice([x for x in others if x != shares[i]["ident"]])
            bad = S.enc_sig_share((nid, zs[i]))
            ok = S.verify_share(spks[i], nid, zs[i], chosen, gpk, msg)
            lines.append(T + "verify_share %s %s %s %s %s" % (spks_b[i].hex(), bad.hex(), cl_b.hex(), gpk_b.hex(), hx(msg))); exp.append("OK " + ("T" if ok else "F"))
            cl.add("share-ident-altered")
        elif m == 1:
            # share attributed to another signer
            j = rng.choice(signers)
            ok = S.verify_share(spks[j], shares[i]["ident"], zs[i], chosen, gpk, msg)
            lines.append(T + "verify_share %s %s %s %s %s" % (spks_b[j].hex(), ss_b[i].hex(), cl_b.hex(), gpk_b.hex(), hx(msg))); exp.append("OK " + ("T" if ok else "F"))
            cl.add("share-wrong-signer")
        elif m == 2:
            # commitment altered inside the list (hiding or binding point of one entry)
            off = chosen.index(comms[i]) * S.ENC_LEN["commitment"]
            bad = flip(rng, cl_b, off + S.NS, off + S.ENC_LEN["commitment"])
            d = S.dec_commitment_list(bad)
            if d is None:
                lines.append(T + "dec commitment_list " + bad.hex()); exp.append("OK N")
            else:
                try:
                    ok = S.verify_share(spks[i], shares[i]["ident"], zs[i], d, gpk, msg)
                    e = "OK " + ("T" if ok else "F")
                except F.CrrlPanic:
                    e = None
                lines.append(T + "verify_share %s %s %s %s %s" % (spks_b[i].hex(), ss_b[i].hex(), bad.hex(), gpk_b.hex(), hx(msg))); exp.append(e)
            cl.add("corrupt-commitment")
        elif m == 3:
            # other message
            ok = S.verify_share(spks[i], shares[i]["ident"], zs[i], chosen, gpk, msg + b"\x00")
            lines.append(T + "verify_share %s %s %s %s %s" % (spks_b[i].hex(), ss_b[i].hex(), cl_b.hex(), gpk_b.hex(), hx(msg + b"\x00"))); exp.append("OK " + ("T" if ok else "F"))
            cl.add("other-message")
        elif m == 4:
            # final signature altered
            bad = flip(rng, sig_b)
            d = S.dec_signature(bad)
            if d is None:
                lines.append(T + "verify %s %s %s" % (gpk_b.hex(), bad.hex(), hx(msg))); exp.append("OK NODEC 1")
            else:
                lines.append(T + "verify %s %s %s" % (gpk_b.hex(), bad.hex(), hx(msg))); exp.append("OK " + ("T" if S.verify(gpk, d[0], d[1], msg) else "F"))
            lines.append(T + "verify_esig %s %s %s" % (gpk_b.hex(), bad.hex(), hx(msg))); exp.append("OK " + ("T" if S.verify_esig(gpk, bad, msg) else "F"))
            cl.add("corrupt-signature")
        elif m == 5:
            # wire round trips and truncated objects
            ty, val = rng.choice([("share", shares_b[i]), ("signer_pk", spks_b[i]), ("nonce", nonces_b[i]), ("commitment", comms_b[i]),
                                  ("sig_share", ss_b[i]), ("signature", sig_b), ("group_pk", gpk_b), ("group_sk", gsk_b), ("vss_list", vss_b), ("commitment_list", cl_b)])
            lines.append(T + "dec %s %s" % (ty, val.hex())); exp.append("OK S " + val.hex())
            v2 = val[:-1] if rng.randrange(2) else val + b"\x00"
            dec = getattr(S, "dec_" + ty)(v2)
            lines.append(T + "dec %s %s" % (ty, hx(v2))); exp.append("OK N" if dec is None else None)
            cl.add("wire-roundtrip")
            # an embedded point replaced by a valid group element with a structured coordinate (0 / p plus or minus one limb unit):
            # the decoder's neutral / subgroup / canonicity tests run on exactly the values where a lost carry shows
            NS, NE = S.NS, S.NE
            offs = {"group_pk": [0], "share": [2 * NS], "signer_pk": [NS], "vss_list": list(range(0, len(val), NE)), "commitment": [NS, NS + NE],
                    "commitment_list": [k_ + o for k_ in range(0, len(val), NS + 2 * NE) for o in (NS, NS + NE)], "signature": [0]}.get(ty, [])
            sp = struct_encodings(S)
            if offs and sp:
                off = rng.choice(offs)
                v4 = val[:off] + rng.choice(sp) + val[off + NE:]
                dec = getattr(S, "dec_" + ty)(v4)
                lines.append(T + "dec %s %s" % (ty, hx(v4))); exp.append("OK N" if dec is None else "OK S " + v4.hex())
                cl.add("structured-point:" + ("accepted" if dec is not None else "rejected"))
                cl.add(name + ":structured-point:" + ("accepted" if dec is not None else "rejected"))
            v3 = c19.altform(rng, name, ty, val)
            if v3 is not None:
                # one embedded point re-encoded in another valid SEC1 format: not the wire format, must be refused
                dec = getattr(S, "dec_" + ty)(v3)
                lines.append(T + "dec %s %s" % (ty, hx(v3))); exp.append("OK N" if dec is None else None)
                cl.add("point-in-other-valid-format")
        elif m == 7:
            # one scalar field of one wire object replaced by a non-canonical encoding of the same value (value + k*order, or a set bit in
            # the padding above the order): every decoder must refuse it, and the verifiers with it
            NS, NE = S.NS, S.NE
            ty, val, offs = rng.choice([("share", shares_b[i], [0, NS]), ("signer_pk", spks_b[i], [0]), ("nonce", nonces_b[i], [0, NS, 2 * NS]),
                                        ("commitment", comms_b[i], [0]), ("sig_share", ss_b[i], [0, NS]), ("signature", sig_b, [NE]),
                                        ("group_sk", gsk_b, [0]), ("commitment_list", cl_b, [k * S.ENC_LEN["commitment"] for k in range(len(chosen))])])
            off = rng.choice(offs)
            bo = "big" if S.big_endian else "little"
            v = int.from_bytes(val[off:off + NS], bo)
            room = ((1 << (8 * NS)) - 1 - v) // S.order
            if room >= 1:
                how = rng.randrange(3)
                if how == 0:
                    v2 = v + S.order
                elif how == 1:
                    v2 = v + S.order * rng.randrange(1, room + 1)
                else:
                    # a single bit above the order's length (for ed448: inside the 57th byte)
                    hb = [b for b in range(S.order.bit_length(), 8 * NS)]
                    v2 = v | (1 << rng.choice(hb)) if hb else v + S.order
                bad = val[:off] + v2.to_bytes(NS, bo) + val[off + NS:]
                d = getattr(S, "dec_" + ty)(bad)
                lines.append(T + "dec %s %s" % (ty, bad.hex())); exp.append("OK N" if d is None else "ORACLE-INCONSISTENT: reference accepts a non-canonical scalar")
                if ty == "signature":
                    lines.append(T + "verify_esig %s %s %s" % (gpk_b.hex(), bad.hex(), hx(msg))); exp.append("OK F")
                    lines.append(T + "verify %s %s %s" % (gpk_b.hex(), bad.hex(), hx(msg))); exp.append("OK NODEC 1")
                elif ty == "sig_share":
                    lines.append(T + "verify_share %s %s %s %s %s" % (spks_b[i].hex(), bad.hex(), cl_b.hex(), gpk_b.hex(), hx(msg))); exp.append("OK NODEC 1")
                cl.add("noncanonical-scalar")
                cl.add("noncanonical-scalar:" + ty)
                cl.add(name + ":noncanonical-scalar")
                if v2 >> (8 * (NS - 1)) and not (v >> (8 * (NS - 1))):
                    cl.add("noncanonical-scalar:top-byte")
        else:
            # group public key replaced
            g2 = S.enc_group_pk(S.G_mulgen(rng.randrange(1, S.order)))
            d = S.dec_group_pk(g2)
            ok = S.verify(d, sig[0], sig[1], msg)
            lines.append(T + "verify %s %s %s" % (g2.hex(), sig_b.hex(), hx(msg))); exp.append("OK " + ("T" if ok else "F"))
            cl.add("other-group-key")
    # single-signer mode
    seed = rb(rng, rng.choice([0, 8, 32]))
    s1 = S.sign_seeded(sk, seed, msg)
    lines.append(T + "gsign %s %s %s" % (gsk_b.hex(), hx(seed), hx(msg))); exp.append("OK " + S.enc_signature(s1).hex())
    lines.append(T + "verify %s %s %s" % (gpk_b.hex(), S.enc_signature(s1).hex(), hx(msg))); exp.append("OK T")
    cs = Case(lines, exp, sorted(cl) + ["%s:run" % name], "frost run t=%d n=%d" % (t, n))
    cs.items = True
    return cs


def struct_encodings(S):
    """wire encodings of the group elements with a structured coordinate (groups.structured_points) for this suite"""
    sp = STRUCT.get(S.name)
    if sp is None:
        g_ = groups.GROUPS[S.name]
        sp = []
        for P_ in g_.structured_points():
            e_ = g_.C.encode_compressed(P_) if isinstance(g_, groups.WeierG) else bytes.fromhex(g_.enc(P_))
            if len(e_) == S.NE:
                sp.append(e_)
        STRUCT[S.name] = sp
    return sp


def special_runs(rng, S):
    """Runs outside the honest-configuration envelope (each expectation comes from the reference):
      * key generation from an RNG whose bytes reduce to 0 modulo the order (all-zero tape, the order itself, a multiple of it):
        the documented substitute key 1 must come with *its* public key;
      * a coordinator configured with a smaller threshold than the one the key was split with: every share verifies on its own
        (the Lagrange coefficients are those of the signer set) but the aggregate cannot verify, so nothing may be assembled;
      * large thresholds (i^(t-1) beyond 64 bits for the larger identifiers) through split / derive_group_info / verify_split."""
    name = S.name
    T = "fr %s " % name
    out = []
    # --- zero-scalar key generation
    L_ = S.order
    for tape_k in (bytes(96), L_.to_bytes(S.RS_LEN, "little") + bytes(96 - S.RS_LEN if S.RS_LEN < 96 else 0), (L_ * rng.randrange(2, 1 << 60)).to_bytes(S.RS_LEN, "little") + bytes(16)):
        if len(tape_k) < S.RS_LEN:
            continue
        sk = S.keygen(F.Tape(tape_k))
        e = "OK %s %s" % (S.enc_group_sk(sk).hex(), S.enc_group_pk(S.G_mulgen(sk)).hex())
        out.append(Case([T + "keygen " + tape_k.hex(), T + "gpk " + S.enc_group_sk(sk).hex()], [e, None], [name, "keygen-zero-scalar", name + ":keygen-zero-scalar"], "keygen with a zero draw"))
    # --- group public keys with a structured coordinate (some are outside the prime-order subgroup: the reference decides)
    sp = struct_encodings(S)
    acc = [e_ for e_ in sp if S.dec_group_pk(e_) is not None]
    rej = [e_ for e_ in sp if S.dec_group_pk(e_) is None]
    for e_ in rng.sample(acc, min(8, len(acc))):
        out.append(case1(T + "dec group_pk " + e_.hex(), "OK S " + e_.hex(), [name, "structured-point:accepted", name + ":structured-point:accepted"], "structured group key"))
    for e_ in rng.sample(rej, min(4, len(rej))):
        out.append(case1(T + "dec group_pk " + e_.hex(), "OK N", [name, "structured-point:rejected", name + ":structured-point:rejected"], "structured group key"))
    # --- threshold mismatch
    tc = rng.choice([2, 2, 3]); ts = tc + rng.choice([1, 1, 2]); n = ts + rng.randrange(0, 2)
    msg = rb(rng, 20)
    lines, exp = [], []
    tape_k = rb(rng, 96)
    sk = S.keygen(F.Tape(tape_k)); gpk = S.G_mulgen(sk)
    gsk_b, gpk_b = S.enc_group_sk(sk), S.enc_group_pk(gpk)
    tape_s = rb(rng, 64 * ts + 17)
    shares, vss = S.trusted_split(F.Tape(tape_s), sk, ts, n)
    shares_b = [S.enc_share(x) for x in shares]
    lines.append(T + "split %s %s %d %d" % (tape_s.hex(), gsk_b.hex(), ts, n)); exp.append("OK %s %s" % (",".join(x.hex() for x in shares_b), S.enc_vss_list(vss).hex()))
    spks = [(x["ident"], x["pk"]) for x in shares]
    spks_b = [S.enc_signer_pk(p) for p in spks]
    signers = sorted(rng.sample(range(n), tc))
    nonces, comms = {}, {}
    for i in signers:
        tp = rb(rng, 64)
        nonces[i], comms[i] = S.commit(F.Tape(tp), shares[i]["sk"], shares[i]["ident"])
        lines.append(T + "commit %s %s" % (shares_b[i].hex(), tp.hex())); exp.append("OK %s %s" % (S.enc_nonce(nonces[i]).hex(), S.enc_commitment(comms[i]).hex()))
    chosen = S.choose(tc, [comms[i] for i in signers])
    if chosen is not None:
        cl_b = S.enc_commitment_list(chosen)
        zs = {}
        for i in signers:
            zs[i] = S.sign_share(shares[i], nonces[i], comms[i], msg, chosen)
            lines.append(T + "sign %s %s %s %s %s" % (shares_b[i].hex(), S.enc_nonce(nonces[i]).hex(), S.enc_commitment(comms[i]).hex(), hx(msg), cl_b.hex()))
            exp.append(("OK S " + S.enc_sig_share((shares[i]["ident"], zs[i])).hex()) if zs[i] is not None else "OK N")
        if all(z is not None for z in zs.values()):
            for i in signers:
                ok = S.verify_share(spks[i], shares[i]["ident"], zs[i], chosen, gpk, msg)
                lines.append(T + "verify_share %s %s %s %s %s" % (spks_b[i].hex(), S.enc_sig_share((shares[i]["ident"], zs[i])).hex(), cl_b.hex(), gpk_b.hex(), hx(msg)))
                exp.append("OK " + ("T" if ok else "F"))
            sig = S.assemble(tc, gpk, [(shares[i]["ident"], zs[i]) for i in signers], chosen, spks, msg)
            lines.append(T + "assemble %d %s %s %s %s %s" % (tc, gpk_b.hex(), ",".join(S.enc_sig_share((shares[i]["ident"], zs[i])).hex() for i in signers), cl_b.hex(),
                                                            ",".join(x.hex() for x in spks_b), hx(msg)))
            exp.append("OK N" if sig is None else "ORACLE-INCONSISTENT: reference assembles a signature below the split threshold")
            out.append(Case(lines, exp, [name, "threshold-mismatch", name + ":threshold-mismatch"], "coordinator threshold below the split threshold"))
    # --- more signers than the threshold, list built by the caller (Coordinator::choose never returns more than min_signers)
    t2 = rng.choice([2, 2, 3]); n2 = t2 + rng.choice([1, 2, 3]); k2 = rng.randrange(t2 + 1, n2 + 1)
    msg = rb(rng, 17)
    lines, exp = [], []
    sk = S.keygen(F.Tape(rb(rng, 96))); gpk = S.G_mulgen(sk)
    gsk_b, gpk_b = S.enc_group_sk(sk), S.enc_group_pk(gpk)
    tape_s = rb(rng, 64 * t2 + 17)
    shares, vss = S.trusted_split(F.Tape(tape_s), sk, t2, n2)
    shares_b = [S.enc_share(x) for x in shares]
    lines.append(T + "split %s %s %d %d" % (tape_s.hex(), gsk_b.hex(), t2, n2)); exp.append("OK %s %s" % (",".join(x.hex() for x in shares_b), S.enc_vss_list(vss).hex()))
    spks = [(x["ident"], x["pk"]) for x in shares]
    spks_b = [S.enc_signer_pk(p) for p in spks]
    signers = sorted(rng.sample(range(n2), k2))
    nonces, comms = {}, {}
    for i in signers:
        tp = rb(rng, 64)
        nonces[i], comms[i] = S.commit(F.Tape(tp), shares[i]["sk"], shares[i]["ident"])
        lines.append(T + "commit %s %s" % (shares_b[i].hex(), tp.hex())); exp.append("OK %s %s" % (S.enc_nonce(nonces[i]).hex(), S.enc_commitment(comms[i]).hex()))
    full = [comms[i] for i in signers]
    cl_b = S.enc_commitment_list(full)
    zs = {i: S.sign_share(shares[i], nonces[i], comms[i], msg, full) for i in signers}
    if all(z is not None for z in zs.values()):
        for i in signers:
            lines.append(T + "sign %s %s %s %s %s" % (shares_b[i].hex(), S.enc_nonce(nonces[i]).hex(), S.enc_commitment(comms[i]).hex(), hx(msg), cl_b.hex()))
            exp.append("OK S " + S.enc_sig_share((shares[i]["ident"], zs[i])).hex())
        sig = S.assemble(t2, gpk, [(shares[i]["ident"], zs[i]) for i in signers], full, spks, msg)
        lines.append(T + "assemble %d %s %s %s %s %s" % (t2, gpk_b.hex(), ",".join(S.enc_sig_share((shares[i]["ident"], zs[i])).hex() for i in signers), cl_b.hex(),
                                                        ",".join(x.hex() for x in spks_b), hx(msg)))
        exp.append(("OK S " + S.enc_signature(sig).hex()) if sig is not None else "OK N")
        if sig is not None:
            lines.append(T + "verify %s %s %s" % (gpk_b.hex(), S.enc_signature(sig).hex(), hx(msg))); exp.append("OK T")
        out.append(Case(lines, exp, [name, "more-signers-than-threshold", name + ":more-signers-than-threshold"] + (["more-signers:assembled"] if sig is not None else []),
                        "signer set larger than the threshold"))
    # --- large thresholds
    t, n = rng.choice([(17, 17), (17, 18), (10, 140)] if name != "ed448" else [(17, 17)])
    tape_s = rb(rng, 64 * t + 17)
    sk = S.keygen(F.Tape(rb(rng, 96)))
    shares, vss = S.trusted_split(F.Tape(tape_s), sk, t, n)
    vss_b = S.enc_vss_list(vss)
    spks_b = [S.enc_signer_pk((x["ident"], x["pk"])) for x in shares]
    lines = [T + "split %s %s %d %d" % (tape_s.hex(), S.enc_group_sk(sk).hex(), t, n),
             T + "derive_group_info %d %s" % (n, vss_b.hex())]
    exp = ["OK %s %s" % (",".join(S.enc_share(x).hex() for x in shares), vss_b.hex()), "OK %s %s" % (",".join(x.hex() for x in spks_b), S.enc_group_pk(S.G_mulgen(sk)).hex())]
    for i in (0, n // 2, n - 2, n - 1):
        lines.append(T + "verify_split %s %s" % (S.enc_share(shares[i]).hex(), vss_b.hex())); exp.append("OK T")
    out.append(Case(lines, exp, [name, "large-threshold", name + ":large-threshold"], "large threshold"))
    return out


def gen(rng, shard, nshards, runs_per_suite, exhaustive_small):
    cases = []
    idx = 0
    for name, S in F.SUITES.items():
        cost = 3 if name == "ed448" else 1
        # exhaustive subsets for small n (each suite: n <= 5 quick)
        if exhaustive_small:
            for n in range(2, exhaustive_small + 1):
                for t in range(2, n + 1):
                    for k in range(t, n + 1):
                        for sub in itertools.combinations(range(n), k):
                            idx += 1
                            if idx % nshards != shard:
                                continue
                            if name == "ed448" and (idx // nshards) % 3:
                                continue
                            cases.append(protocol_run(rng, S, t, n, sub))
        for _ in range(max(1, runs_per_suite // cost)):
            idx += 1
            if idx % nshards != shard:
                continue
            t = rng.choice([2, 2, 3, 3, 4, 5, 6])
            n = rng.randrange(t, 10)
            cases.append(protocol_run(rng, S, t, n))
        idx += 1
        if idx % nshards == shard:
            cases.extend(special_runs(rng, S))
        # groups whose identifiers exceed one byte / two bytes boundaries
        for ids, ntot in (([255, 256], 300), ([1, 256, 300], 300), ([255, 256, 257, 511, 512], 600), ([256, 65535], 65535), ([65534, 65535, 2], 65535)):
            idx += 1
            if idx % nshards != shard:
                continue
            if name == "ed448" and ntot > 600:
                continue
            if ntot > 600 and exhaustive_small <= 4 and name not in ("ed25519", "p256"):
                ntot = 1000
                big = sorted(set(i for i in ids if i > 1000), reverse=True)
                ids = [i if i <= 1000 else 1000 - big.index(i) for i in ids]
            tt = rng.choice([2, min(3, len(ids))]) if len(ids) > 2 else 2
            cases.append(protocol_run(rng, S, tt, ntot, None, big_idents=ids))
        # large-n split (documented limit 65535): only the split, with three shares checked
        idx += 1
        if idx % nshards == shard:
            n = (rng.choice([200, 1000, 65535]) if exhaustive_small > 4 else rng.choice([200, 1000])) if name != "ed448" else 200
            t = 2
            tape_k = rb(rng, 96)
            sk = S.keygen(F.Tape(tape_k))
            tape_s = rb(rng, 150)
            take = F.Tape(tape_s)
            coef = [sk] + [S.random_scalar(take) for _ in range(t - 1)]
            vss = [S.G_mulgen(c) for c in coef]

            def f(x):
                y = 0
                for c in reversed(coef):
                    y = (y * x + c) % S.order
                return y
            pick = [0, n // 2, n - 1]
            sh = []
            for i in pick:
                x = i + 1
                sh.append(S.enc_share(dict(ident=x, sk=f(x), pk=S.G_mulgen(f(x)), group_pk=vss[0])))
            cases.append(case1("fr %s split_big %s %s %d %d" % (name, tape_s.hex(), S.enc_group_sk(sk).hex(), t, n),
                               "OK %d %s %s T" % (n, ",".join(x.hex() for x in sh), S.enc_vss_list(vss).hex()), [name + ":split-big", "split-big:n=%d" % n], "big split"))
    return cases


def main(argv):
    a = parse_args(argv)
    if a.replay:
        return do_replay(a.replay)
    rep = Report("C15", a.tier, a.seed)
    rep.rule = ("full protocol runs for the five ciphersuites: all signer subsets of size >= t for every (t, n) with n <= 4 (quick) / 6 (thorough) "
                "plus random (t in 2..6, n in t..9) runs with shuffled arrival order and duplicate commitments, and splits with n up to 65535; "
                "every intermediate value (shares, VSS commitments, nonces, commitments, chosen list, signature shares, aggregate) is compared "
                "with the reference computed from the same RNG tapes; any t shares interpolate to the secret; aggregates verify under the "
                "library's and (EdDSA suites) the RFC 8032 verifiers; one-field corruptions (signature share, commitment, message, signer, "
                "group key, final signature, truncated/extended wire objects) are judged by the reference. evaluations = checked calls; "
                "distinct_nontrivial = distinct calls")
    rep.assumptions = ["ref_frost (RFC 9591 appendix E vectors for all suites, repository KATs)", "min_signers < 2 and max_signers > 65535 are outside the documented domain"]
    try:
        if a.tier == "quick":
            cfgs = (a.configs.split(",") if a.configs else ["default", "w32", "m51"])
            runs, exh = int(24 * a.scale), 4
        else:
            cfgs = (a.configs.split(",") if a.configs else ["default", "m51", "w32", "zz32", "avx2"])
            runs, exh = int(2400 * a.scale), 6
        exes = build_many(cfgs)
        m = run_sharded("c15", "gen", (runs, exh), [(c, exes[c]) for c in cfgs], a.seed, timeout=7200)
        rep.merge(m)
        req = [s + ":run" for s in F.SUITES] + [s + ":split-big" for s in F.SUITES]
        req += [s + ":noncanonical-scalar" for s in F.SUITES] + ["noncanonical-scalar:top-byte"]
        req += ["honest-run", "duplicate-commitment", "corrupt-sig-share", "corrupt-commitment", "corrupt-signature", "corrupt-share-secret", "corrupt-vss",
                "share-wrong-signer", "share-ident-altered", "other-message", "wire-roundtrip", "rfc8032-interop", "signer-not-in-list", "other-group-key", "identifiers>255", "point-in-other-valid-format", "sign:own-entry-hiding-replaced", "sign:own-entry-binding-replaced",
                "sign:own-entry-both-replaced", "sign:other-entry-hiding-replaced",
                "sign_raw:wellformed", "sign_raw:single-entry", "sign_raw:tail-swapped", "sign_raw:tail-duplicate", "sign_raw:tail-repeats-own", "sign_raw:tail-repeats-earlier"]
        req += [s + ":structured-point:accepted" for s in F.SUITES]
        req += [s + ":threshold-mismatch" for s in F.SUITES] + [s + ":large-threshold" for s in F.SUITES] + [s + ":keygen-zero-scalar" for s in F.SUITES] + [s + ":more-signers-than-threshold" for s in F.SUITES] + ["more-signers:assembled"]
        rep.require(*req)
    except Inconclusive as e:
        rep.incon.append(str(e))
    return rep.finish()


if __name__ == "__main__":
    sys.exit(main(sys.argv[1:]))
