"""C17 -- hash functions match their standards for every input and call pattern.

History monitor: random walks over {new, update(len class), finalize*, reset,
clone, SHAKE flip/extract} on live contexts held by the executor; model =
hashlib object semantics (bytes since last reset; SHAKE output = prefix of one
long squeeze). Every digest/extract output is compared byte for byte."""

import sys
import os
import hashlib

sys.path.insert(0, os.path.dirname(os.path.abspath(__file__)))

from common import *          # noqa

FIXED = {
    "sha224": (hashlib.sha224, 64), "sha256": (hashlib.sha256, 64), "sha384": (hashlib.sha384, 128), "sha512": (hashlib.sha512, 128),
    "sha512_224": (lambda b=b"": hashlib.new("sha512_224", b), 128), "sha512_256": (lambda b=b"": hashlib.new("sha512_256", b), 128),
    "sha3_224": (hashlib.sha3_224, 144), "sha3_256": (hashlib.sha3_256, 136), "sha3_384": (hashlib.sha3_384, 104), "sha3_512": (hashlib.sha3_512, 72),
}
SHAKES = {"shake128": (hashlib.shake_128, 168), "shake256": (hashlib.shake_256, 136)}


def lens_around(rate):
    base = [0, 1, 2, 55, 56, 57, 63, 64, 65, 111, 112, 113, 119, 120, 127, 128, 129, rate - 1, rate, rate + 1, 2 * rate - 1, 2 * rate, 2 * rate + 1, 3 * rate]
    return [x for x in base if x >= 0]


def rbytes(rng, n):
    t = rng.randrange(4)
    if t == 0:
        return bytes(n)
    if t == 1:
        return b"\xff" * n
    return rng.getrandbits(8 * n).to_bytes(n, "little") if n else b""


def hx(b):
    return b.hex() if b else "-"


class Model:
    def __init__(self, kind, params=None):
        self.kind = kind
        self.params = params
        self.buf = b""
        self.dead = False        # finalized without reset (BLAKE2s)
        self.flipped = False     # SHAKE output mode
        self.extracted = 0

    def copy(self):
        m = Model(self.kind, self.params)
        m.buf, self.dead, m.flipped, m.extracted = self.buf, self.dead, self.flipped, self.extracted
        m.dead = self.dead
        return m

    def digest(self):
        k = self.kind
        if k in FIXED:
            return FIXED[k][0](self.buf).digest()
        if k == "blake2s":
            return hashlib.blake2s(self.buf, digest_size=self.params[0]).digest()
        if k == "kblake2s":
            return hashlib.blake2s(self.buf, digest_size=self.params[0], key=self.params[1]).digest()
        if k == "blake2s256":
            return hashlib.blake2s(self.buf).digest()
        raise ValueError(k)

    def squeeze(self, n):
        total = self.extracted + n
        out = SHAKES[self.kind][0](self.buf).digest(total)[self.extracted:]
        self.extracted = total
        return out


def gen_history(rng, kind, nops, tag):
    """one history on up to 3 handles of one function"""
    lines, exp, cl = [], [], set()
    hid = lambda i: "%s%d" % (tag, i)
    models = {}
    if kind in FIXED:
        rate = FIXED[kind][1]
    elif kind in SHAKES:
        rate = SHAKES[kind][1]
    else:
        rate = 64
    L = lens_around(rate)

    def new(i):
        if kind == "blake2s":
            n = rng.randrange(1, 33)
            lines.append("h new %s blake2s %d" % (hid(i), n)); models[i] = Model(kind, (n,))
            cl.add("blake2s:outlen=%s" % ("32" if n == 32 else ("1" if n == 1 else "mid")))
        elif kind == "kblake2s":
            n = rng.randrange(1, 33)
            kl = rng.choice([0, 1, 16, 31, 32, rng.randrange(33)])
            key = rbytes(rng, kl)
            lines.append("h new %s kblake2s %d %s" % (hid(i), n, hx(key))); models[i] = Model(kind, (n, key))
            cl.add("kblake2s:keylen=%s" % ("0" if kl == 0 else ("32" if kl == 32 else "mid")))
        else:
            lines.append("h new %s %s" % (hid(i), kind)); models[i] = Model(kind)
        exp.append("OK -")

    new(0)
    for _ in range(nops):
        i = rng.choice(list(models))
        m = models[i]
        if kind in SHAKES:
            ops = ["update", "update", "flip", "extract", "extract", "reset", "clone", "flip_extract", "flip_extract_reset"]
        elif kind in FIXED:
            ops = ["update", "update", "update", "finalize", "finalize_reset", "digest", "finalize_write", "finalize_reset_write", "reset", "clone"]
        elif kind == "blake2s256":
            ops = ["update", "update", "update", "finalize", "finalize_reset", "finalize_write", "finalize_reset_write", "new"]
        else:
            ops = ["update", "update", "update", "finalize_write", "finalize_reset_write", "reset", "new"]
        op = rng.choice(ops)
        if op == "new":
            new(i)
            continue
        if op == "clone":
            j = rng.randrange(3)
            lines.append("h clone %s %s" % (hid(i), hid(j))); exp.append("OK -")
            models[j] = m.copy()
            cl.add("clone")
            continue
        if op == "reset":
            lines.append("h reset %s" % hid(i)); exp.append("OK -")
            m.buf = b""; m.dead = False; m.flipped = False; m.extracted = 0
            cl.add("reset")
            continue
        if kind in SHAKES:
            if op == "update":
                if m.flipped:
                    continue          # documented panic: not generated
                n = rng.choice(L + [rng.randrange(0, 3 * rate)])
                d = rbytes(rng, n)
                lines.append("h %s %s %s" % (rng.choice(["update", "inject"]), hid(i), hx(d))); exp.append("OK -")
                m.buf += d
                cl.add("update:len=%s" % ("0" if n == 0 else ("rate" if n == rate else ("rate-1" if n == rate - 1 else ("rate+1" if n == rate + 1 else "other")))))
                if len(m.buf) % rate == 0 and m.buf: cl.add("total=multiple-of-rate")
                if len(m.buf) % rate == rate - 1: cl.add("total=rate-1")
            elif op == "flip":
                if m.flipped:
                    continue
                lines.append("h flip %s" % hid(i)); exp.append("OK -"); m.flipped = True
            elif op == "extract":
                if not m.flipped:
                    continue
                n = rng.choice([0, 1, 2, rate - 1, rate, rate + 1, 2 * rate, rng.randrange(0, 400)])
                out = m.squeeze(n)
                lines.append("h extract %s %d" % (hid(i), n)); exp.append("OK " + hx(out))
                cl.add("extract:n=%s" % ("0" if n == 0 else ("rate" if n == rate else ("rate-1" if n == rate - 1 else ("rate+1" if n == rate + 1 else "other")))))
                if m.extracted > rate: cl.add("extract:crosses-rate")
            elif op == "flip_extract":
                if m.flipped:
                    continue
                n = rng.choice([0, 1, rate, rate + 1, rng.randrange(0, 300)])
                m.flipped = True
                out = m.squeeze(n)
                lines.append("h flip_extract %s %d" % (hid(i), n)); exp.append("OK " + hx(out))
            else:
                if m.flipped:
                    continue
                n = rng.choice([0, 1, 32, 64, rate, rate + 1, rng.randrange(0, 300)])
                m.flipped = True
                out = m.squeeze(n)
                lines.append("h flip_extract_reset %s %d" % (hid(i), n)); exp.append("OK " + hx(out))
                m.buf = b""; m.flipped = False; m.extracted = 0
                cl.add("finalize-and-reset")
            continue
        # fixed-output functions
        if op == "update":
            if m.dead:
                continue              # documented precondition: must reset first
            n = rng.choice(L + [rng.randrange(0, 3 * rate)])
            d = rbytes(rng, n)
            lines.append("h update %s %s" % (hid(i), hx(d))); exp.append("OK -")
            m.buf += d
            cl.add("update:len=%s" % ("0" if n == 0 else "n"))
            t = len(m.buf)
            for b in (55, 56, 63, 64, 65, 111, 112, 127, 128, 129, rate - 1, rate, rate + 1):
                if t == b: cl.add("total=%d" % b if b < 130 else "total=rate%+d" % (b - rate))
            if t == rate: cl.add("total=rate")
            if t == rate - 1: cl.add("total=rate-1")
            if t == rate + 1: cl.add("total=rate+1")
        else:
            if m.dead:
                continue
            dg = m.digest()
            if kind in ("blake2s", "kblake2s"):
                lines.append("h %s %s" % (op, hid(i))); exp.append("OK %s %d" % (hx(dg), m.params[0]))
            else:
                lines.append("h %s %s" % (op, hid(i))); exp.append("OK " + hx(dg))
            cl.add("finalize:" + ("empty" if not m.buf else "data"))
            resets = (kind in FIXED) or op in ("finalize_reset", "finalize_reset_write")
            if resets:
                m.buf = b""
                cl.add("finalize-and-reset")
            else:
                m.dead = True
    return Case(lines, exp, ["%s:%s" % (kind, c) for c in cl] + sorted(cl), "hash history " + kind)


def gen_oneshot(rng, kind):
    n = rng.choice([0, 1, 55, 56, 63, 64, 65, 111, 112, 127, 128, 129, 135, 136, 137, rng.randrange(0, 1000)])
    d = rbytes(rng, n)
    if kind in FIXED:
        return case1("h hash %s %s" % (kind, hx(d)), "OK " + FIXED[kind][0](d).hexdigest(), ["oneshot", kind + ":oneshot"])
    if kind == "blake2s256":
        return case1("h hash blake2s256 %s" % hx(d), "OK " + hashlib.blake2s(d).hexdigest(), ["oneshot", kind + ":oneshot"])
    ol = rng.randrange(1, 33)
    if kind == "blake2s":
        return case1("h hash blake2s %s %d" % (hx(d), ol), "OK " + hashlib.blake2s(d, digest_size=ol).hexdigest(), ["oneshot", kind + ":oneshot"])
    kl = rng.randrange(0, 33)
    key = rbytes(rng, kl)
    return case1("h hash kblake2s %s %d %s" % (hx(d), ol, hx(key)), "OK " + hashlib.blake2s(d, digest_size=ol, key=key).hexdigest(), ["oneshot", kind + ":oneshot"])


KINDS = list(FIXED) + list(SHAKES) + ["blake2s", "kblake2s", "blake2s256"]

# total lengths at which a message-length counter crosses a word boundary: 2^29 bytes = 2^32 bits (SHA-2 counts bits),
# 2^32 bytes (byte counters kept in two 32-bit words: BLAKE2s t0/t1, vectorised code that moves 32-bit lanes)
LONG_PLAN = [("sha256", (1 << 29) + 1), ("sha224", 1 << 29), ("sha256", (1 << 32) + 77), ("sha512", (1 << 29) + 3), ("sha512", (1 << 32) + 129), ("sha384", 1 << 32),
             ("blake2s", (1 << 32) - 1), ("blake2s", 1 << 32), ("blake2s", (1 << 32) + 65), ("kblake2s", (1 << 32) - 64), ("kblake2s", (1 << 32) - 65),
             ("blake2s256", (1 << 32) + 1), ("sha512_256", (1 << 32) - 1), ("sha3_256", (1 << 32) + 5), ("shake128", (1 << 32) + 9), ("sha512_224", (1 << 29) - 1)]


def gen_long(rng, idx):
    """one message of about 2^29 or 2^32 bytes, fed as head + chunk*count + tail (so that the internal buffer is misaligned);
    reference = hashlib fed the same way"""
    kind, total = LONG_PLAN[idx % len(LONG_PLAN)]
    head = rbytes(rng, rng.choice([0, 1, 13, 63]))
    chunk = rbytes(rng, rng.choice([65536, 65536 + 17, 1 << 20]))
    cnt = (total - len(head)) // len(chunk)
    tail = rbytes(rng, total - len(head) - cnt * len(chunk))
    T = "lg%d" % idx
    if kind == "blake2s":
        ol = rng.randrange(1, 33); lines = ["h new %s blake2s %d" % (T, ol)]; h = hashlib.blake2s(digest_size=ol)
    elif kind == "kblake2s":
        ol = rng.randrange(1, 33); key = rbytes(rng, rng.randrange(1, 33)); lines = ["h new %s kblake2s %d %s" % (T, ol, key.hex())]; h = hashlib.blake2s(digest_size=ol, key=key)
    elif kind == "blake2s256":
        lines = ["h new %s blake2s256" % T]; h = hashlib.blake2s()
    elif kind in SHAKES:
        lines = ["h new %s %s" % (T, kind)]; h = SHAKES[kind][0]()
    else:
        lines = ["h new %s %s" % (T, kind)]; h = FIXED[kind][0]()
    exp = ["OK -"]
    if head:
        lines.append("h update %s %s" % (T, head.hex())); exp.append("OK -"); h.update(head)
    lines.append("h update_rep %s %s %d" % (T, chunk.hex(), cnt)); exp.append("OK -")
    for _ in range(cnt):
        h.update(chunk)
    if tail:
        lines.append("h update %s %s" % (T, tail.hex())); exp.append("OK -"); h.update(tail)
    if kind in SHAKES:
        lines.append("h flip_extract %s 48" % T); exp.append("OK " + h.digest(48).hex())
    elif kind in ("blake2s", "kblake2s"):
        lines.append("h finalize_reset_write %s" % T); exp.append("OK %s %d" % (h.hexdigest(), ol))
        # and the context is usable again after the long message (counter words reset)
        d2 = rbytes(rng, 70)
        lines.append("h update %s %s" % (T, d2.hex())); exp.append("OK -")
        h2 = hashlib.blake2s(d2, digest_size=ol, key=key) if kind == "kblake2s" else hashlib.blake2s(d2, digest_size=ol)
        lines.append("h finalize_write %s" % T); exp.append("OK %s %d" % (h2.hexdigest(), ol))
    else:
        lines.append("h finalize_reset %s" % T); exp.append("OK " + h.hexdigest())
        d2 = rbytes(rng, 70)
        lines.append("h update %s %s" % (T, d2.hex())); exp.append("OK -")
        h2 = hashlib.blake2s(d2) if kind == "blake2s256" else FIXED[kind][0](d2)
        lines.append("h finalize %s" % T); exp.append("OK " + h2.hexdigest())
    bound = "2^29" if total < (1 << 30) else "2^32"
    return Case(lines, exp, ["long-message", "long-message:%s@%s" % (kind, bound)], "long message", only=("default", "avx2"))


def gen(rng, shard, nshards, n_hist, full_grid, long_per_shard=0):
    cases = []
    for j in range(long_per_shard):
        cases.append(gen_long(rng, shard + j * nshards))
    if full_grid:
        # every (out_len, key_len) pair of BLAKE2s once
        idx = 0
        for ol in range(1, 33):
            for kl in range(0, 33):
                idx += 1
                if idx % nshards != shard:
                    continue
                key = rbytes(rng, kl)
                d = rbytes(rng, rng.choice([0, 1, 63, 64, 65, 128, 200]))
                cases.append(case1("h hash kblake2s %s %d %s" % (hx(d), ol, hx(key)),
                                   "OK " + hashlib.blake2s(d, digest_size=ol, key=key).hexdigest(), ["blake2s-grid"]))
    for k, kind in enumerate(KINDS):
        for j in range(n_hist):
            cases.append(gen_history(rng, kind, rng.randrange(4, 40), "h%d_" % k))
            if j % 4 == 0:
                cases.append(gen_oneshot(rng, kind))
    return cases


def main(argv):
    a = parse_args(argv)
    if a.replay:
        return do_replay(a.replay)
    rep = Report("C17", a.tier, a.seed)
    rep.rule = ("random call histories (4..40 calls on up to 3 live contexts incl. clones) per function with update lengths around every "
                "block/rate boundary, finalize variants, resets, update-after-finalize, SHAKE extract chunkings; all (out_len,key_len) "
                "BLAKE2s pairs once; one message per worker whose total length crosses 2^29 bytes (2^32 bits) or 2^32 bytes, fed as head + chunk x count + tail "
                "(default and AVX2 builds); model = hashlib on the bytes since the last reset. An event is one call with a checked output; "
                "distinct_nontrivial = distinct histories touching a boundary class")
    rep.assumptions = ["CPython hashlib (OpenSSL / reference BLAKE2) implements the standards"]
    try:
        if a.tier == "quick":
            cfgs = (a.configs.split(",") if a.configs else ["default", "avx2", "w32"])
            n = int(1600 * a.scale)
        else:
            cfgs = (a.configs.split(",") if a.configs else ALL_CONFIGS)
            n = int(150000 * a.scale)
        exes = build_many(cfgs)
        m = run_rounds(1 if a.tier == "quick" else 4, "c17", "gen", (n // NCPU + 1, True, 1), [(c, exes[c]) for c in cfgs], a.seed, timeout=3600)
        rep.merge(m)
        req = ["blake2s-grid", "clone", "reset", "finalize-and-reset", "finalize:empty", "total=rate", "total=rate-1", "total=rate+1", "total=55", "total=56",
               "total=64", "total=111", "total=112", "total=128", "extract:crosses-rate", "extract:n=0", "shake128:extract:n=rate", "shake256:total=multiple-of-rate",
               "kblake2s:kblake2s:keylen=32", "blake2s:blake2s:outlen=1", "oneshot", "long-message:sha256@2^29", "long-message:sha256@2^32",
               "long-message:sha512@2^32", "long-message:blake2s@2^32", "long-message:kblake2s@2^32"]
        req += [k + ":finalize:data" for k in list(FIXED) + ["blake2s", "kblake2s", "blake2s256"]]
        rep.require(*req)
    except Inconclusive as e:
        rep.incon.append(str(e))
    return rep.finish()


if __name__ == "__main__":
    sys.exit(main(sys.argv[1:]))
