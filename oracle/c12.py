"""C12 -- division, inversion, square root, Legendre symbol (and binary-field
inversion / sqrt / trace / half-trace / quadratic solver).

Oracle: Python modular arithmetic (pow), Euler criterion, textbook square
roots for q = 3 mod 4 and q = 5 mod 8; defining equations for the binary
fields."""

import sys
import os

sys.path.insert(0, os.path.dirname(os.path.abspath(__file__)))

from common import *          # noqa
from fieldmodel import *      # noqa

OKST = "ffffffff"
NOST = "00000000"


def hostile_divisor(rng, f):
    """Divisors engineered against the approximate binary GCD: the 31/63-bit
    approximations of y and q coincide for many rounds, operands collapse
    early, long runs of zeros/ones."""
    q = f.q
    top = 1 << f.bits
    t = rng.randrange(14)
    if t == 0:
        v = q - (rng.randrange(1, 1 << 16) << rng.randrange(0, q.bit_length() - 16))
    elif t == 1:
        v = q >> rng.randrange(1, q.bit_length())
    elif t == 2:
        # shares the top 33..66 bits with q
        k = rng.choice([33, 34, 62, 63, 64, 65, 66, 31, 32])
        sh = q.bit_length() - k
        v = ((q >> sh) << sh) | rng.getrandbits(sh)
    elif t == 3:
        v = 1 << rng.randrange(f.bits)
    elif t == 4:
        v = (1 << rng.randrange(1, f.bits)) + rng.choice([1, -1])
    elif t == 5:
        v = int(q / 1.6180339887498949) + rng.randrange(-3, 4)
    elif t == 6:
        # long zero runs
        v = (rng.getrandbits(20) << rng.randrange(f.bits - 20)) | rng.getrandbits(20)
    elif t == 7:
        v = rng.choice([0, 1, 2, 3, q - 1, q - 2, q + 1, 2 * q - 1 if 2 * q - 1 < top else 1, (q + 1) // 2, (q - 1) // 2, q, top - 1])
    elif t == 8:
        # small odd multiples / fractions of q
        v = (q * rng.randrange(1, 8)) // rng.randrange(1, 8) + rng.randrange(-2, 3)
    elif t == 9:
        v = hostile_raw(rng, f)
    elif t == 10:
        # u/v with small u, v: continued-fraction structure
        a = rng.getrandbits(rng.randrange(1, 64)) | 1
        b = rng.getrandbits(rng.randrange(1, 64)) | 1
        v = a * pow(b, -1, q) % q
    elif t == 11:
        # alternating patterns at 31/32/63/64-bit periods
        per = rng.choice([31, 32, 62, 63, 64])
        pat = rng.getrandbits(per) | 1
        v = 0
        for i in range(0, f.bits, per):
            v |= pat << i
    elif t == 12:
        v = limb_pattern_value(rng, f.nl)
    else:
        v = rng.randrange(q)
    return v % top


def sqrt_mod(v, q):
    """A square root of v modulo prime q (q % 8 != 1), or None."""
    v %= q
    if v == 0:
        return 0
    if pow(v, (q - 1) // 2, q) != 1:
        return None
    if q % 4 == 3:
        r = pow(v, (q + 1) // 4, q)
    else:
        assert q % 8 == 5
        r = pow(v, (q + 3) // 8, q)
        if r * r % q != v:
            r = r * pow(2, (q - 1) // 4, q) % q
    assert r * r % q == v
    return r


def legendre(v, q):
    e = pow(v % q, (q - 1) // 2, q)
    return 0 if e == 0 else (1 if e == 1 else -1)


def expect_sqrt_ext(f, v):
    q = f.q

    def chk(resp):
        if not resp.startswith("OK "):
            return "unexpected " + resp[:60]
        t = strip_steps(resp)[0].split()
        y = int.from_bytes(bytes.fromhex(t[1]), "little")
        st = t[2]
        if y >= q:
            return "non-canonical output"
        s = sqrt_mod(v, q)
        if s is not None:
            r = s if s % 2 == 0 else q - s
            if v % q == 0:
                r = 0
            if st != OKST or y != r:
                return "square input: expected root %x status ffffffff" % r
            return None
        if st != NOST:
            return "non-square input must give status 0"
        yy = y * y % q
        if q % 4 == 3:
            okv = [(-v) % q]
        else:
            okv = [(2 * v) % q, (-2 * v) % q]
        if yy not in okv:
            return "substitute root does not satisfy the documented equation"
        return None
    return chk


def gen_prime(rng, f, n):
    out = []
    T = "f %s " % f.name
    q = f.q
    if "ringonly" in f.caps:
        return out
    has_sqrt = (q % 8 != 1)
    kinds = ["div", "div", "div", "legendre", "sqrt", "batch", "inv1"]
    w = [30, 10, 10, 14, 18, 1, 6]
    for _ in range(n):
        kind = rng.choices(kinds, w)[0]
        if kind in ("div", "inv1"):
            y = hostile_divisor(rng, f)
            x = hostile_raw(rng, f) if kind == "div" else 1
            vy, vx = y % q, x % q
            r = vx * pow(vy, -1, q) % q if vy else 0
            cl = ["div:" + c for c in classes_of_raw(f, y)]
            if vy == 0:
                cl.append("div:by-zero" + ("-nontrivial" if y else ""))
            if vx == 0:
                cl.append("div:zero-dividend")
            if y.bit_length() <= 64:
                cl.append("div:divisor<=64bits")
            if (y >> (q.bit_length() - 33)) == (q >> (q.bit_length() - 33)):
                cl.append("div:shares-top33-with-q")
            op = rng.choice(["div", "div", "diva"])
            if "invert" in f.caps and kind == "inv1" and rng.randrange(2):
                out.append(case1(T + "invert " + f.w(y, rng), "OK " + f.enc(r), cl + ["invert"], "invert"))
            else:
                out.append(case1(T + "%s %s %s" % (op, f.w(x, rng) if kind == "div" else "1", f.w(y, rng)), "OK " + f.enc(r), cl or ["div:plain"], "div"))
        elif kind == "legendre":
            y = hostile_divisor(rng, f)
            if rng.randrange(3) == 0:
                # force residues / non-residues of structured values
                b = hostile_raw(rng, f) % q
                y = b * b % q
                if rng.randrange(2):
                    y = y * rng.choice([2, 3, 5, 7, q - 1]) % q
            lg = legendre(y, q)
            cl = ["legendre:%d" % lg] + ["legendre:" + c for c in classes_of_raw(f, y)]
            out.append(case1(T + "legendre " + f.w(y, rng), "OK %d" % lg, cl, "legendre"))
        elif kind == "sqrt":
            if not has_sqrt:
                continue
            b = hostile_divisor(rng, f) % q
            t = rng.randrange(4)
            if t == 0:
                v = b * b % q
            elif t == 1:
                v = b
            elif t == 2:
                v = (-(b * b)) % q
            else:
                v = rng.choice([0, 1, 4, q - 1, 2, q - 4, 9])
            # re-represent redundantly when possible
            x = v
            k = rng.randrange(0, max(1, (1 << f.bits) // q))
            if x + k * q < (1 << f.bits):
                x += k * q
            s = sqrt_mod(v, q)
            if "sqrt_ext" in f.caps and rng.randrange(2):
                out.append(case1(T + "sqrt_ext " + f.w(x, rng), expect_sqrt_ext(f, v), ["sqrt_ext:" + ("square" if s is not None else "nonsquare")], "sqrt_ext"))
            else:
                if s is None:
                    exp = "OK %s %s" % (f.enc(0), NOST)
                else:
                    r = s if s % 2 == 0 else q - s
                    if v == 0:
                        r = 0
                    exp = "OK %s %s" % (f.enc(r), OKST)
                cl = ["sqrt:" + ("square" if s is not None else "nonsquare")]
                if v == 0:
                    cl.append("sqrt:zero")
                if x >= q:
                    cl.append("sqrt:operand>=q")
                out.append(case1(T + "sqrt " + f.w(x, rng), exp, cl, "sqrt"))
        else:
            # batch inversion; sizes around the internal block size (200)
            # (the backends cut the batch in blocks of 200, 100 or 1024/limbs = 73, 128, 146, 170, 204, 256, 341, 512 elements)
            BLK = rng.choice([200, 200, 200, 100, 73, 146, 128, 170, 204, 256, 341, 512, 10])
            if rng.randrange(3):
                nn = rng.choice([0, 1, 2, 3, 199, 200, 201, 399, 400, 401, rng.randrange(1, 60)])
                BLK = 200
            else:
                nn = BLK * rng.choice([1, 1, 2]) + rng.choice([-1, 0, 0, 1])
            base = hostile_raw(rng, f)
            step = hostile_raw(rng, f)
            vb, vs = base % q, step % q
            zmode = rng.randrange(6)
            zs = set()
            if nn:
                if zmode == 0:
                    zs = {0}
                elif zmode == 1:
                    zs = {nn - 1}
                elif zmode == 2:
                    zs = {i for i in (BLK - 1, BLK, BLK + 1, 0, nn - 1) if 0 <= i < nn}
                elif zmode == 3:
                    zs = set(range(nn))
                elif zmode == 4:
                    zs = {rng.randrange(nn) for _ in range(rng.randrange(1, 6))}
            vals = []
            for i in range(nn):
                v = (vb + i * vs) % q
                if i in zs:
                    v = 0
                vals.append(v)
            exp = " ".join(f.enc(pow(v, -1, q) if v else 0) for v in vals) or "-"
            nz = sum(1 for v in vals if v == 0)
            cl = ["batch:n=%d" % nn if nn in (0, 1, 2, 199, 200, 201, 400, 401) else "batch:n=other", "batch:block=%d:%s" % (BLK, "exact" if nn and nn % BLK == 0 else "other"),
                  "batch:zeros=%s" % ("none" if nz == 0 else ("all" if nz == nn else "some"))]
            line = T + "batch_invert_seq %d %s %s %s" % (nn, f.w(base, rng), f.w(step, rng), " ".join(str(z) for z in sorted(zs)))
            out.append(case1(line.rstrip(), "OK " + exp, cl, "batch"))
    return out


def gen_binary(rng, n):
    out = []
    for _ in range(n):
        if rng.randrange(2):
            T = "f gfb127 "
            a = hostile_b128(rng); b = hostile_b128(rng)
            va, vb = b127_red(a), b127_red(b)
            da = "w" + a.to_bytes(16, "little").hex(); db = "w" + b.to_bytes(16, "little").hex()
            op = rng.choice(["invert", "div", "sqrt", "trace", "halftrace"])
            cl = ["b127:" + op] + (["b127:%s-bit127" % op] if a >> 127 else []) + (["b127:%s-zero" % op] if va == 0 else [])
            if op == "invert":
                out.append(case1(T + "invert " + da, "OK " + b127_enc(b127_inv(va)), cl))
            elif op == "div":
                out.append(case1(T + rng.choice(["div", "diva"]) + " %s %s" % (db, da), "OK " + b127_enc(b127_mul(vb, b127_inv(va))), cl))
            elif op == "sqrt":
                out.append(case1(T + "sqrt " + da, "OK " + b127_enc(b127_sqrt(va)), cl))
            elif op == "trace":
                out.append(case1(T + "trace " + da, "OK %08x" % b127_trace(va), cl))
            else:
                out.append(case1(T + "halftrace " + da, "OK " + b127_enc(b127_halftrace(va)), cl))
        else:
            T = "f gfb254 "
            a = (hostile_b128(rng), hostile_b128(rng)); b = (hostile_b128(rng), hostile_b128(rng))
            va = (b127_red(a[0]), b127_red(a[1])); vb = (b127_red(b[0]), b127_red(b[1]))
            da = "w" + a[0].to_bytes(16, "little").hex() + a[1].to_bytes(16, "little").hex()
            db = "w" + b[0].to_bytes(16, "little").hex() + b[1].to_bytes(16, "little").hex()
            op = rng.choice(["invert", "div", "sqrt", "trace", "qsolve"])
            cl = ["b254:" + op] + (["b254:%s-bit127" % op] if (a[0] | a[1]) >> 127 else []) + (["b254:%s-zero" % op] if va == (0, 0) else [])
            if op == "invert":
                out.append(case1(T + "invert " + da, "OK " + b254_enc(b254_inv(va)), cl))
            elif op == "div":
                out.append(case1(T + rng.choice(["div", "diva"]) + " %s %s" % (db, da), "OK " + b254_enc(b254_mul(vb, b254_inv(va))), cl))
            elif op == "sqrt":
                # sqrt(a0 + a1 u): squaring is (a0^2 + a1^2) + a1^2 u
                s1 = b127_sqrt(va[1]); s0 = b127_sqrt(va[0]) ^ s1
                out.append(case1(T + "sqrt " + da, "OK " + b254_enc((s0, s1)), cl))
            elif op == "trace":
                out.append(case1(T + "trace " + da, "OK %08x" % b127_trace(va[1]), cl))
            else:
                tr = b127_trace(va[1])
                rhs = (va[0], va[1] ^ tr)   # a + u*Tr(a)

                def chk(resp, rhs=rhs):
                    if not resp.startswith("OK "):
                        return "unexpected " + resp[:60]
                    bb = bytes.fromhex(resp.split()[1])
                    x = (int.from_bytes(bb[:16], "little"), int.from_bytes(bb[16:], "little"))
                    if (x[0] >> 127) or (x[1] >> 127):
                        return "non-canonical output"
                    if b254_add(b254_sq(x), x) != rhs:
                        return "x^2 + x != a + u*Tr(a)"
                    return None
                out.append(case1(T + "qsolve " + da, chk, cl + ["b254:qsolve-tr%d" % tr]))
    return out


def gen(rng, shard, nshards, names, n_per_field, n_binary):
    cases = []
    for nm in names:
        f = FIELDS[nm]
        cs = gen_prime(rng, f, n_per_field)
        if f.configs:
            for c in cs:
                c.only = tuple(c.only or ()) + tuple(f.configs)
        cases.extend(cs)
    cases.extend(gen_binary(rng, n_binary))
    return vary_forms(cases, rng)


def main(argv):
    a = parse_args(argv)
    if a.replay:
        return do_replay(a.replay)
    rep = Report("C12", a.tier, a.seed)
    rep.rule = ("dividends from the hostile raw generator; divisors engineered against the approximate binary GCD (q - d*2^k, q>>k, "
                "top 31..66 bits shared with q, 2^k, 2^k+-1, q/phi, long zero runs, periodic patterns, small fractions a/b); "
                "squares, negated squares and structured non-residues for sqrt/sqrt_ext/legendre in redundant representations; "
                "batch inversion of 0..401 elements with zeros at block boundaries; binary-field inverse/sqrt/trace/halftrace/"
                "qsolve against their defining equations. distinct_nontrivial = distinct requests in a boundary class")
    rep.assumptions = ["moduli in fieldmodel.py are prime (Miller-Rabin at start of the run) except the two ring-only GF255 instances, which are skipped here"]
    names = [n for n in FIELDS if "ringonly" not in FIELDS[n].caps]
    try:
        for n in names:
            if not is_probable_prime(FIELDS[n].q):
                raise Inconclusive("modulus of %s is not prime" % n)
        if a.tier == "quick":
            cfgs = (a.configs.split(",") if a.configs else ["default", "m51", "w32"])
            per, nbin = int(12000 * a.scale), int(12000 * a.scale)
        else:
            cfgs = (a.configs.split(",") if a.configs else ALL_CONFIGS)
            per, nbin = int(400000 * a.scale), int(200000 * a.scale)
        exes = build_many(cfgs)
        m = run_rounds(1 if a.tier == "quick" else 2, "c12", "gen", (names, per // NCPU + 1, nbin // NCPU + 1), [(c, exes[c]) for c in cfgs], a.seed,
                       split=1 if a.tier == "quick" else 3, count_idx=(1, 2))
        rep.merge(m)
        rep.require("div:by-zero", "div:by-zero-nontrivial", "div:operand>=q", "div:divisor<=64bits", "div:shares-top33-with-q",
                    "legendre:0", "legendre:1", "legendre:-1", "sqrt:square", "sqrt:nonsquare", "sqrt:zero", "sqrt_ext:nonsquare",
                    "batch:n=200", "batch:n=201", "batch:n=401", "batch:block=73:exact", "batch:block=146:exact", "batch:block=100:exact", "batch:block=256:exact", "batch:zeros=all", "batch:zeros=some", "b127:invert-zero", "b254:qsolve-tr1",
                    "b254:qsolve-tr0", "b127:halftrace")
    except Inconclusive as e:
        rep.incon.append(str(e))
    return rep.finish()


if __name__ == "__main__":
    sys.exit(main(sys.argv[1:]))
