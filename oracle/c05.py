"""C05 -- field / scalar encodings are canonical; decoding is strict.

Events: decoder calls on hostile byte strings (every length 0..ENC_LEN+2, the
acceptance boundary q-1/q/q+1, unused top bits, all-ones), reducing decodes
of 0..4 blocks+1 bytes, and encode of redundant representations. Oracle:
int.from_bytes + comparison with the modulus."""

import sys
import os

sys.path.insert(0, os.path.dirname(os.path.abspath(__file__)))

from common import *          # noqa
from fieldmodel import *      # noqa

OKST = "ffffffff"
NOST = "00000000"


def hostile_bytes_value(rng, f, n):
    """An integer < 2^(8n) near the acceptance boundary."""
    top = 1 << (8 * n) if n else 1
    q = f.q
    t = rng.randrange(12)
    if t == 0:
        v = q - 1
    elif t == 1:
        v = q
    elif t == 2:
        v = q + 1
    elif t == 3:
        v = top - 1
    elif t == 4:
        v = q + rng.randrange(1 << 16)
    elif t == 5:
        v = q - 1 - rng.randrange(1 << 16)
    elif t == 6:
        v = rng.randrange(q)
    elif t == 7:
        v = rng.randrange(q) | (1 << (8 * n - 1)) if n else 0
    elif t == 8:
        v = (q + (rng.getrandbits(64) << rng.randrange(0, max(1, 8 * n - 64)))) if n else 0
    elif t == 9:
        v = rng.choice([0, 1, 2, q - 2, 2 * q, 2 * q - 1, 2 * q + 1, q >> 1, (q >> 1) + 1])
    elif t == 10:
        # differs from q in exactly one limb/byte
        i = rng.randrange(max(1, n))
        v = q ^ (rng.randrange(1, 256) << (8 * i))
    else:
        v = rng.getrandbits(8 * n) if n else 0
    return v % top


def gen_prime(rng, f, n):
    out = []
    T = "f %s " % f.name
    q = f.q
    L = f.enc_len
    zero = f.enc(0)
    for _ in range(n):
        kind = rng.choices(["decode_ct", "set_decode_ct", "decode", "decode32", "reduce", "enc", "roundtrip"],
                           [22, 8, 14, 10, 22, 14, 10])[0]
        if kind in ("decode_ct", "set_decode_ct", "decode"):
            ln = L if rng.randrange(4) else rng.choice([0, 1, L - 1, L + 1, L + 2, 2 * L, rng.randrange(0, L + 3)])
            v = hostile_bytes_value(rng, f, ln)
            b = v.to_bytes(ln, "little")
            ok = (ln == L and v < q)
            cl = ["%s:len=%s" % (kind, "L" if ln == L else ("L-1" if ln == L - 1 else ("L+1" if ln == L + 1 else ("0" if ln == 0 else "other"))))]
            if ln == L:
                if v == q: cl.append(kind + ":v=q")
                elif v == q - 1: cl.append(kind + ":v=q-1")
                elif v == q + 1: cl.append(kind + ":v=q+1")
                elif v == (1 << (8 * L)) - 1: cl.append(kind + ":all-ones")
                elif v >= q: cl.append(kind + ":v>q")
                if v >> (q.bit_length()) and v < (1 << (8 * L)): cl.append(kind + ":unused-bits-set")
            if kind == "decode":
                exp = ("OK S " + f.enc(v)) if ok else "OK N"
            else:
                exp = "OK %s %s" % (f.enc(v) if ok else zero, OKST if ok else NOST)
            out.append(case1(T + kind + " " + (b.hex() or "-"), exp, cl, kind))
        elif kind == "decode32":
            if "decode32" not in f.caps:
                continue
            ln = 32 if rng.randrange(4) else rng.choice([0, 31, 33, L, 64])
            v = hostile_bytes_value(rng, f, ln)
            b = v.to_bytes(ln, "little")
            ok = (ln == 32 and v < q)
            cl = ["decode32:len=%s" % ("32" if ln == 32 else "other")]
            if ln == 32 and v >= q: cl.append("decode32:v>=q")
            out.append(case1(T + "decode32 " + (b.hex() or "-"), "OK %s %s" % (f.enc(v) if ok else zero, OKST if ok else NOST), cl, kind))
        elif kind == "reduce":
            blk = L
            ln = rng.choice([0, 1, blk - 1, blk, blk + 1, 2 * blk - 1, 2 * blk, 2 * blk + 1, 3 * blk, 4 * blk, 4 * blk + 1,
                             rng.randrange(0, 4 * blk + 2), 16, 31, 32, 33, 48, 63, 64, 65, 96, 127, 128, 129])
            t = rng.randrange(6)
            if t == 0:
                b = b"\xff" * ln
            elif t == 1:
                # every block equals the modulus
                qb = q.to_bytes(L, "little")
                b = (qb * (ln // L + 1))[:ln]
            elif t == 2:
                b = bytes(rng.getrandbits(8) for _ in range(ln))
            elif t == 3:
                v = hostile_bytes_value(rng, f, ln)
                b = v.to_bytes(ln, "little")
            elif t == 4:
                b = b"\x00" * max(0, ln - 1) + (b"\x01" if ln else b"")
            else:
                b = bytes(rng.choice([0, 0xff, 0x80, 0x7f, 1]) for _ in range(ln))
            solved = False
            if rng.randrange(5) == 0 and 8 * L == f.bits:
                # solved multi-block input: choose the low block so that the folding of (high blocks)*2^w + low lands on a
                # carry boundary: hi*c + lo = k*2^w + (2^w - delta) with delta chosen so that the second fold overflows 2^w
                # and the wrapped low limb sits just below 2^64 (third fold must carry out of the low limb), or exactly on
                # the overflow threshold.
                w = f.bits
                c = (1 << w) % q
                nb = rng.choice([2, 2, 3])
                hi = hostile_raw(rng, f) | (rng.choice([0, 1, 1]) << (w - 1)) | (rng.choice([0, 1]) << (w - 2))
                if nb == 3:
                    # the state after two blocks is some reduced-ish value; use a 2-block prefix and fold it ourselves
                    hi2 = hostile_raw(rng, f)
                    acc = (hi2 * (1 << w) + hi) % q
                else:
                    hi2 = None
                    acc = hi
                tt = acc * c
                k = tt >> w
                e = rng.choice([0, 1, 2, c - 1, c, c + 1, rng.randrange(1, 2 * c + 2)])
                target = rng.choice([(1 << w) - 1, (1 << w) - k * c, (1 << w) - k * c - 1, (1 << w) - k * c + 1,
                                     (1 << w) - k * c + (1 << 64) - 1 - e, (1 << w) - k * c + (1 << 64) - e, (1 << w) - k * c + (1 << 32) - 1 - (e % (1 << 32)),
                                     (1 << w) - c, (1 << w) - 2 * c, q - 1 - (tt % (1 << w)) % 3])
                lo = target - (tt & ((1 << w) - 1))
                if 0 <= lo < (1 << w) and 0 < target < (1 << w):
                    b = lo.to_bytes(L, "little") + hi.to_bytes(L, "little") + (hi2.to_bytes(L, "little") if hi2 is not None else b"")
                    ln = len(b)
                    solved = True
            v = int.from_bytes(b, "little")
            op = rng.choice(["decode_reduce", "set_decode_reduce"])
            cl = ["reduce:len%s" % ("=0" if ln == 0 else ("<L" if ln < L else ("=L" if ln == L else ("<=2L" if ln <= 2 * L else ">2L"))))]
            if t == 0: cl.append("reduce:all-ones")
            if t == 1: cl.append("reduce:blocks=q")
            if solved: cl.append("reduce:solved-fold-boundary")
            out.append(case1(T + op + " " + (b.hex() or "-"), "OK " + f.enc(v), cl, kind))
        elif kind == "enc":
            x = hostile_raw(rng, f)
            cl = ["enc:" + c for c in classes_of_raw(f, x)] or ["enc:plain"]
            if "enc32" in f.caps and rng.randrange(3) == 0:
                out.append(case1(T + "enc32 " + f.w(x, rng), "OK " + (x % q).to_bytes(32, "little").hex(), cl + ["enc32"], kind))
            else:
                out.append(case1(T + "enc " + f.w(x, rng), "OK " + f.enc(x), cl, kind))
        else:
            # decode(encode(x)) == x and encode(decode(b)) == b, through a register
            x = hostile_raw(rng, f)
            e = (x % q).to_bytes(L, "little").hex()
            lines = [T + "enc " + f.w(x, rng), T + "decode_ct >1 " + e, T + "enc $1", T + "equals $1 " + f.w(x, rng)]
            exp = ["OK " + f.enc(x), "OK %s %s" % (f.enc(x), OKST), "OK " + f.enc(x), "OK " + OKST]
            out.append(Case(lines, exp, ["roundtrip"], kind))
    return out


def gen_binary(rng, n):
    out = []
    for _ in range(n):
        big = rng.randrange(2)
        T = "f gfb254 " if big else "f gfb127 "
        L = 32 if big else 16
        kind = rng.choice(["decode_ct", "set_decode_ct", "decode", "enc"])
        if kind == "enc":
            if big:
                a = (hostile_b128(rng), hostile_b128(rng))
                out.append(case1(T + "enc w" + a[0].to_bytes(16, "little").hex() + a[1].to_bytes(16, "little").hex(),
                                 "OK " + b254_enc((b127_red(a[0]), b127_red(a[1]))), ["benc:254"] + (["benc:bit127"] if (a[0] | a[1]) >> 127 else [])))
            else:
                a = hostile_b128(rng)
                out.append(case1(T + "enc w" + a.to_bytes(16, "little").hex(), "OK " + b127_enc(a), ["benc:127"] + (["benc:bit127"] if a >> 127 else [])))
            continue
        ln = L if rng.randrange(4) else rng.choice([0, 1, L - 1, L + 1, 15, 16, 17, 31, 32, 33, 64])
        t = rng.randrange(5)
        if t == 0:
            b = bytes(rng.getrandbits(8) for _ in range(ln))
        elif t == 1:
            b = bytearray(rng.getrandbits(8) & 0x7f if (i % 16) == 15 else rng.getrandbits(8) for i in range(ln))
            b = bytes(b)
        elif t == 2:
            b = b"\xff" * ln
        elif t == 3:
            b = bytearray(ln)
            if ln:
                b[rng.choice([15, 31, 0, ln - 1]) % ln] = rng.choice([0x80, 0x7f, 0xff, 0x01])
            b = bytes(b)
        else:
            b = bytearray(rng.getrandbits(8) & 0x7f if (i % 16) == 15 else rng.getrandbits(8) for i in range(ln))
            if ln >= 16:
                b[15 if rng.randrange(2) or ln < 32 else 31] |= 0x80
            b = bytes(b)
        ok = ln == L and all((b[i] & 0x80) == 0 for i in range(15, ln, 16))
        cl = ["b%s:len=%s" % (kind, "L" if ln == L else "other")]
        if ln == L and not ok:
            cl.append("b%s:topbit-set" % kind)
        zero = "00" * L
        if kind == "decode":
            exp = ("OK S " + b.hex()) if ok else "OK N"
        else:
            exp = "OK %s %s" % (b.hex() if ok else zero, OKST if ok else NOST)
        out.append(case1(T + kind + " " + (b.hex() or "-"), exp, cl, kind))
    return out


def gen(rng, shard, nshards, names, n_per_field, n_binary):
    cases = []
    for nm in names:
        f = FIELDS[nm]
        cs = gen_prime(rng, f, n_per_field)
        if f.configs:
            for c in cs:
                c.only = tuple(c.only or ()) + tuple(f.configs)
        cases.extend(cs)
    cases.extend(gen_binary(rng, n_binary))
    return cases


def main(argv):
    a = parse_args(argv)
    if a.replay:
        return do_replay(a.replay)
    rep = Report("C05", a.tier, a.seed)
    rep.rule = ("hostile byte strings for every decoder of every field/scalar type: all lengths 0..ENC_LEN+2, values q-1/q/q+1/"
                "2^(8L)-1, unused top bits, one-byte deviations from q; reducing decodes of 0..4 blocks+1 incl. all-0xFF and "
                "every-block-equals-q; encode of redundant raw representations; encode/decode round trips. An event is one "
                "decoder/encoder call compared with int.from_bytes and the modulus; distinct_nontrivial = distinct requests "
                "in a boundary class")
    rep.assumptions = ["moduli constants in fieldmodel.py (checked against the library's MINUS_ONE by C01)"]
    names = list(FIELDS)
    try:
        if a.tier == "quick":
            cfgs = (a.configs.split(",") if a.configs else ["default", "m51", "w32", "clmul"])
            per, nbin = int(30000 * a.scale), int(60000 * a.scale)
        else:
            cfgs = (a.configs.split(",") if a.configs else ALL_CONFIGS)
            per, nbin = int(600000 * a.scale), int(1200000 * a.scale)
        exes = build_many(cfgs)
        m = run_rounds(1 if a.tier == "quick" else 4, "c05", "gen", (names, per // NCPU + 1, nbin // NCPU + 1), [(c, exes[c]) for c in cfgs], a.seed,
                       split=1 if a.tier == "quick" else 3, count_idx=(1, 2))
        rep.merge(m)
        rep.require("decode_ct:v=q", "decode_ct:v=q-1", "decode_ct:v=q+1", "decode_ct:all-ones", "decode_ct:len=L-1", "decode_ct:len=L+1",
                    "decode_ct:len=0", "decode:v=q", "decode32:v>=q", "reduce:all-ones", "reduce:blocks=q", "reduce:solved-fold-boundary", "reduce:len>2L", "reduce:len=0",
                    "enc:operand>=q", "roundtrip", "bdecode_ct:topbit-set")
    except Inconclusive as e:
        rep.incon.append(str(e))
    return rep.finish()


if __name__ == "__main__":
    sys.exit(main(sys.argv[1:]))
