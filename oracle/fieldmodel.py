"""Descriptions of the field types exposed by the executor, with the
reference arithmetic (Python integers / GF(2) polynomials) and hostile value
generators. Independent of crrl: only moduli and documented API shape."""

import random

M64 = (1 << 64) - 1


class PF:
    """A prime (or at least odd-modulus) field type of the executor."""

    def __init__(self, name, q, nlimbs, kind, caps=(), enc_len=None, raw_redundant=False, configs=None):
        self.name = name
        self.q = q
        self.nl = nlimbs
        self.kind = kind          # gf255 | modint | secp | gf448 | gfgen
        self.caps = set(caps)
        self.bits = 64 * nlimbs
        self.enc_len = enc_len if enc_len is not None else (q.bit_length() + 7) // 8
        self.enc_out = self.enc_len    # length of the executor's canonical output
        # raw_redundant: the raw-limb constructors store any 64*nl-bit value
        # unreduced (GF255, GF448?): representation-independence is testable.
        self.raw_redundant = raw_redundant
        self.configs = configs

    # -- encodings -----------------------------------------------------------
    def enc(self, v):
        return (v % self.q).to_bytes(self.enc_out, "little").hex()

    def limbs_hex(self, x):
        return (x % (1 << self.bits)).to_bytes(8 * self.nl, "little").hex()

    def w(self, x, rng=None):
        """An operand descriptor for the raw 64*nl-bit integer x, through one
        of the four raw-limb constructors."""
        k = "w" if rng is None else rng.choice("wwcWC")
        return k + self.limbs_hex(x)

    def r(self, x, nbytes=None):
        nb = nbytes if nbytes is not None else max(1, (x.bit_length() + 7) // 8)
        return "r" + x.to_bytes(nb, "little").hex()


P25519 = (1 << 255) - 19
P255E = (1 << 255) - 18651
P255S = (1 << 255) - 3957
PP256 = (1 << 256) - (1 << 224) + (1 << 192) + (1 << 96) - 1
PSECP = (1 << 256) - (1 << 32) - 977
P448 = (1 << 448) - (1 << 224) - 1
L25519 = (1 << 252) + 27742317777372353535851937790883648493
NP256 = 0xFFFFFFFF00000000FFFFFFFFFFFFFFFFBCE6FAADA7179E84F3B9CAC2FC632551
NSECP = 0xFFFFFFFFFFFFFFFFFFFFFFFFFFFFFFFEBAAEDCE6AF48A03BBFD25E8CD0364141
RJQ255E = (1 << 254) - 131528281291764213006042413802501683931
RJQ255S = (1 << 254) + 56904135270672826811114353017034461895
RGLS254 = (1 << 253) + 83877821160623817322862211711964450037
L448 = (1 << 446) - 13818066809895115352007386748515426880336692474882178609894547503885


def _limbs(*ws):
    v = 0
    for i, w in enumerate(ws):
        v |= w << (64 * i)
    return v


GF255_CAPS = ("mul_small", "enc32", "decode32", "sqrt", "sqrt_ext", "split", "lookup16", "noreduce", "legendre")
MODINT_CAPS = ("mul3", "enc32", "decode32", "sqrt", "split", "legendre")
GFGEN_CAPS = ("mul3", "mul_small", "invert", "sqrt", "sqrt_ext", "split_bytes", "legendre")

FIELDS = {}


def _add(f):
    FIELDS[f.name] = f
    return f


_add(PF("gf25519", P25519, 4, "gf255", GF255_CAPS, 32, raw_redundant=True))
_add(PF("gf255e", P255E, 4, "gf255", GF255_CAPS, 32, raw_redundant=True))
_add(PF("gf255s", P255S, 4, "gf255", GF255_CAPS, 32, raw_redundant=True))
# generic instances (ring operations + what primality allows); 2^255-31 and
# 2^255-32765 are not claimed prime: only +,-,*,square,half,mul_small,
# encode/decode are exercised on them.
_add(PF("gf255_mq31", (1 << 255) - 31, 4, "gf255", ("mul_small", "enc32", "decode32", "ringonly", "noreduce"), 32, raw_redundant=True))
_add(PF("gf255_mq32765", (1 << 255) - 32765, 4, "gf255", ("mul_small", "enc32", "decode32", "ringonly", "noreduce"), 32, raw_redundant=True))
# MQ between the thresholds the backends use to pick their code paths (3827 / 4095 / 7656): both prime
_add(PF("gf255_mq4111", (1 << 255) - 4111, 4, "gf255", ("mul_small", "enc32", "decode32", "ringonly", "noreduce"), 32, raw_redundant=True))
_add(PF("gf255_mq7549", (1 << 255) - 7549, 4, "gf255", ("mul_small", "enc32", "decode32", "ringonly", "noreduce"), 32, raw_redundant=True))
_add(PF("gfp256", PP256, 4, "modint", MODINT_CAPS, 32))
_add(PF("gfsecp256k1", PSECP, 4, "secp", ("mul3", "mul21", "mul_u16", "enc32", "decode32", "sqrt", "legendre"), 32, raw_redundant=True))
_add(PF("gf448", P448, 7, "gf448", ("mul_small", "sqrt", "sqrt_ext", "legendre"), 56, raw_redundant=True))
_add(PF("sc25519", L25519, 4, "modint", MODINT_CAPS, 32))
_add(PF("scp256", NP256, 4, "modint", MODINT_CAPS, 32))
_add(PF("scsecp", NSECP, 4, "modint", MODINT_CAPS, 32))
_add(PF("scjq255e", RJQ255E, 4, "modint", MODINT_CAPS, 32))
_add(PF("scjq255s", RJQ255S, 4, "modint", MODINT_CAPS, 32))
_add(PF("scgls254", RGLS254, 4, "modint", MODINT_CAPS, 32))
_add(PF("sc448", L448, 7, "gfgen", GFGEN_CAPS, 56))
_add(PF("mi_25519", P25519, 4, "modint", MODINT_CAPS, 32))
_add(PF("mi_spec1", _limbs(0xFFFFFFFFFFFFFF27, 0xFFFFFFFFFFFFFFFE, 0, 0xFFFFFFFFFFFFFFFF), 4, "modint", MODINT_CAPS, 32))
_add(PF("mi_spec2", _limbs(0xFFFFFFFFFFFFFF43, M64, M64, M64), 4, "modint", MODINT_CAPS, 32))
_add(PF("mi_spec3", _limbs(0x20CD9255FD615923, 0xACAFC103CD968A25, 0xFFFFFFFFFFFFFFFE, M64), 4, "modint", MODINT_CAPS, 32))
# long runs of ones in the low limbs: 2^256 - 2^194 - 1, 2^256 - 143*2^128 - 1, 2^255 + 34*2^192 - 1 (all prime)
_add(PF("mi_spec4", _limbs(M64, M64, M64, 0xFFFFFFFFFFFFFFFB), 4, "modint", MODINT_CAPS, 32))
_add(PF("mi_spec5", _limbs(M64, M64, 0xFFFFFFFFFFFFFF70, M64), 4, "modint", MODINT_CAPS, 32))
_add(PF("mi_spec6", _limbs(M64, M64, M64, 0x8000000000000021), 4, "modint", MODINT_CAPS, 32))
# BLS12-381 scalar field (q = 1 mod 2^32: low limb 1; sqrt is Tonelli-Shanks territory, q % 8 == 1)
_add(PF("mi_bls", 0x73eda753299d7d483339d80809a1d80553bda402fffe5bfeffffffff00000001, 4, "modint", MODINT_CAPS, 32))
_add(PF("mi_193", (1 << 192) + 133, 4, "modint", MODINT_CAPS, 25))
# 194-bit primes with top limb 2: n mod 2^192 tiny (sparse), generic (dense) and huge (just below 3*2^192)
_add(PF("mi_194s", 0x20000000000002000000000000000000009c1bbf90735c9d7, 4, "modint", MODINT_CAPS, 25))
_add(PF("mi_194d", 0x2d77a0cb424b63937ea0cf04256be1d9701434be3ebf87f35, 4, "modint", MODINT_CAPS, 25))
_add(PF("mi_194h", 0x2ffffffffffffffffffffffefffffffffffffffe479b4df7d, 4, "modint", MODINT_CAPS, 25))
_add(PF("g127", (1 << 127) - 1, 2, "gfgen", GFGEN_CAPS, 16))
_add(PF("g192", (1 << 192) - (1 << 64) - 1, 3, "gfgen", GFGEN_CAPS, 24))
_add(PF("g256", NP256, 4, "gfgen", GFGEN_CAPS, 32))
_add(PF("g25519", P25519, 4, "gfgen", GFGEN_CAPS, 32))
_add(PF("g320", (1 << 320) - 197, 5, "gfgen", GFGEN_CAPS, 40))
_add(PF("g384", (1 << 384) - (1 << 128) - (1 << 96) + (1 << 32) - 1, 6, "gfgen", GFGEN_CAPS, 48))
_add(PF("g512", (1 << 512) - 569, 8, "gfgen", GFGEN_CAPS, 64))

# harness-defined gfgen types cannot be instantiated on the w32 backend (its
# define_gfgen! refers to crate-private helpers)
for _n in ("g127", "g192", "g256", "g25519", "g320", "g384", "g512"):
    FIELDS[_n].configs = ("!w32",)

# ModInt256 types print through encode32 (always 32 bytes)
for _f in FIELDS.values():
    if _f.kind == "modint":
        _f.enc_out = 32


def is_probable_prime(n, rng=random.Random(12345)):
    if n < 2:
        return False
    for p in (2, 3, 5, 7, 11, 13, 17, 19, 23, 29, 31, 37):
        if n % p == 0:
            return n == p
    d = n - 1
    s = 0
    while d % 2 == 0:
        d //= 2
        s += 1
    for _ in range(24):
        a = rng.randrange(2, n - 1)
        x = pow(a, d, n)
        if x in (1, n - 1):
            continue
        for _ in range(s - 1):
            x = x * x % n
            if x == n - 1:
                break
        else:
            return False
    return True


# ---------------------------------------------------------------------------
# Hostile integer generators

LIMB_PATTERNS = [0, 1, 2, M64, M64 - 1, 1 << 63, (1 << 63) - 1, 1 << 32, (1 << 32) - 1,
                 (1 << 51), (1 << 51) - 1, (1 << 51) - 2, (1 << 52) - 1, 0xFFFFFFFF00000000,
                 0x00000000FFFFFFFF, 0x8000000000000001, 0xAAAAAAAAAAAAAAAA, 0x5555555555555555]


def limb_pattern_value(rng, nl, q=None):
    """Value whose 64-bit limbs are drawn from boundary patterns."""
    v = 0
    mode = rng.randrange(6)
    for i in range(nl):
        t = rng.randrange(10)
        if t < 5:
            w = rng.choice(LIMB_PATTERNS)
        elif t < 6:
            w = rng.randrange(1 << 16)
        elif t < 7:
            w = M64 - rng.randrange(1 << 16)
        elif t < 8:
            k = rng.randrange(64)
            w = (1 << k) - rng.randrange(2)
        elif t < 9:
            w = rng.getrandbits(64) >> rng.randrange(64)
        else:
            w = rng.getrandbits(64)
        if mode == 0:
            w = M64 if rng.randrange(4) else w
        elif mode == 1:
            w = 0 if rng.randrange(4) else w
        v |= (w & M64) << (64 * i)
    return v


def limb_pattern_value_w(rng, bits, W, q):
    """Value whose W-bit digits (W = 51, 32, 28 ... : the limb width of an alternative backend) are drawn from boundary
    patterns; the top digit takes whatever bits remain, so that values >= 2^(bits-1) (whose fold back into the low limb can
    leave that limb one past its nominal width) are included."""
    mq = (1 << q.bit_length()) - q if q.bit_length() < bits else (1 << bits) - q
    if mq >= (1 << (W - 1)):
        mq = 19
    M = (1 << W) - 1
    v = 0
    i = 0
    mode = rng.randrange(5)
    while W * i < bits:
        t = rng.randrange(12)
        if t < 2:
            w = M
        elif t < 4:
            w = 0
        elif t < 5:
            w = M - rng.randrange(4)
        elif t < 6:
            w = (M + 1 - mq + rng.randrange(-2, 3)) & M
        elif t < 7:
            w = rng.randrange(4)
        elif t < 8:
            w = (1 << rng.randrange(W)) - rng.randrange(2)
        elif t < 9:
            w = (mq * rng.randrange(1, 4) + rng.randrange(-1, 2)) & M
        else:
            w = rng.getrandbits(W)
        if mode == 0 and rng.randrange(4):
            w = M
        elif mode == 1 and rng.randrange(4):
            w = 0
        v |= (w & M) << (W * i)
        i += 1
    v &= (1 << bits) - 1
    if rng.randrange(3) == 0:
        v |= 1 << (bits - 1)
    return v


def anchored_value(rng, q, bits):
    """base +/- delta with base in a list of structurally interesting values."""
    top = 1 << bits
    bases = [0, q, top - 1, top >> 1, (q + 1) // 2, (q - 1) // 2, q // 3, q >> rng.randrange(1, 130),
             int(q / 1.6180339887), 1 << rng.randrange(bits), q - (1 << rng.randrange(bits - 2))]
    k = 2
    while k * q < top and k < 8:
        bases.append(k * q)
        k += 1
    base = rng.choice(bases)
    t = rng.randrange(6)
    if t == 0:
        d = 0
    elif t == 1:
        d = rng.randrange(3)
    elif t == 2:
        d = rng.randrange(1 << 17)
    elif t == 3:
        d = rng.getrandbits(32) | (1 << 31)
    elif t == 4:
        d = rng.getrandbits(64)
    else:
        d = rng.randrange(1, 40)
    v = base + d if rng.randrange(2) else base - d
    return v % top


def hostile_raw(rng, f):
    """A raw (64*nl)-bit integer to feed a raw-limb constructor."""
    t = rng.randrange(10)
    if t < 4 and rng.randrange(4) == 0:
        W = rng.choice([51, 51, 32] if (f.bits == 256 and f.q.bit_length() == 255) else ([56, 28, 32] if f.bits == 448 else [32, 32, 52]))
        return limb_pattern_value_w(rng, f.bits, W, f.q)
    if t < 4:
        return limb_pattern_value(rng, f.nl, f.q)
    if t < 8:
        return anchored_value(rng, f.q, f.bits)
    if t < 9:
        return rng.getrandbits(f.bits)
    return rng.randrange(f.q)


def classes_of_raw(f, x):
    """Boundary classes a raw operand value falls in."""
    c = []
    if x >= f.q:
        c.append("operand>=q")
    if x >= 2 * f.q:
        c.append("operand>=2q")
    if x >> (f.bits - 1):
        c.append("topbit")
    if x != 0 and x % f.q == 0:
        c.append("nonzero-repr-of-zero")
    if f.q - 40 < x < f.q + 40:
        c.append("near-q")
    return c


# ---------------------------------------------------------------------------
# Binary fields GF(2^127), GF(2^254): reference arithmetic

B127_MOD = (1 << 127) | (1 << 63) | 1


def _spread_tables():
    # carry-less multiply by 8-bit windows
    return None


def clmul(a, b):
    """Carry-less product of two non-negative ints."""
    r = 0
    while b:
        lsb = b & -b
        r ^= a * lsb   # a << k
        b ^= lsb
    return r


def clmul_fast(a, b):
    # 4-bit window version
    if a < b:
        a, b = b, a
    tab = [0] * 16
    tab[1] = a
    for i in range(2, 16):
        tab[i] = (tab[i >> 1] << 1) ^ (a if i & 1 else 0)
    r = 0
    sh = 0
    while b:
        r ^= tab[b & 15] << sh
        b >>= 4
        sh += 4
    return r


def b127_red(x):
    # reduce modulo z^127 + z^63 + 1
    while x >> 127:
        h = x >> 127
        x = (x & ((1 << 127) - 1)) ^ h ^ (h << 63)
    return x


def b127_mul(a, b):
    return b127_red(clmul_fast(a, b))


def b127_sq(a):
    return b127_mul(a, a)


def b127_pow(a, e):
    r = 1
    while e:
        if e & 1:
            r = b127_mul(r, a)
        a = b127_mul(a, a)
        e >>= 1
    return r


def b127_inv(a):
    if a == 0:
        return 0
    return b127_pow(a, (1 << 127) - 2)


def b127_sqrt(a):
    return b127_pow(a, 1 << 126)


def b127_trace(a):
    t = 0
    x = a
    for _ in range(127):
        t ^= x
        x = b127_sq(x)
    return t & 1 if t in (0, 1) else None


def b127_halftrace(a):
    # H(a) = sum_{i=0}^{63} a^(2^(2i))
    h = 0
    x = a
    for _ in range(64):
        h ^= x
        x = b127_sq(b127_sq(x))
    return h


def b254_add(a, b):
    return (a[0] ^ b[0], a[1] ^ b[1])


def b254_mul(a, b):
    # (a0 + a1 u)(b0 + b1 u), u^2 = u + 1
    a0b0 = b127_mul(a[0], b[0])
    a1b1 = b127_mul(a[1], b[1])
    mid = b127_mul(a[0] ^ a[1], b[0] ^ b[1])
    return (a0b0 ^ a1b1, mid ^ a0b0)


def b254_sq(a):
    return b254_mul(a, a)


def b254_pow(a, e):
    r = (1, 0)
    while e:
        if e & 1:
            r = b254_mul(r, a)
        a = b254_mul(a, a)
        e >>= 1
    return r


def b254_inv(a):
    if a == (0, 0):
        return (0, 0)
    # norm-based: a^-1 = conj(a)/N(a), conj(a0+a1u) = (a0+a1) + a1 u
    n = b127_mul(a[0], a[0]) ^ b127_mul(a[0], a[1]) ^ b127_mul(a[1], a[1])
    ni = b127_inv(n)
    return (b127_mul(a[0] ^ a[1], ni), b127_mul(a[1], ni))


def b254_sqrt(a):
    return b254_pow(a, 1 << 253)


def b254_trace(a):
    t = (0, 0)
    x = a
    for _ in range(254):
        t = b254_add(t, x)
        x = b254_sq(x)
    return t[0] & 1 if t in ((0, 0), (1, 0)) else None


def b127_enc(a):
    return b127_red(a).to_bytes(16, "little").hex()


def b254_enc(a):
    return b127_enc(a[0]) + b127_enc(a[1])


def b127_raw_value(x):
    """Value of a raw 128-bit limb pair (internal values are tolerated up to
    128 bits: bit 127 is z^127 = z^63 + 1)."""
    return b127_red(x)


def hostile_b128(rng):
    t = rng.randrange(8)
    if t < 3:
        return limb_pattern_value(rng, 2)
    if t < 4:
        k = rng.randrange(128)
        return (1 << k) ^ rng.randrange(2)
    if t < 5:
        return ((1 << 128) - 1) ^ rng.getrandbits(128) >> rng.randrange(100, 128)
    if t < 6:
        return rng.choice([0, 1, (1 << 127), (1 << 127) | (1 << 63) | 1, (1 << 63) | 1, (1 << 128) - 1, (1 << 127) - 1, 1 << 126, 1 << 63, 1 << 64])
    return rng.getrandbits(128)
