"""C06 -- group-element encodings are canonical, injective and strictly decoded.

Oracle: an independent reference *decoder* per format (accepting exactly the
canonical encodings of valid elements), reference encoders, the RFC 9496 /
documented byte-to-group maps."""

import sys
import os
import hashlib

sys.path.insert(0, os.path.dirname(os.path.abspath(__file__)))

from common import *          # noqa
import groups as G
import ref_ed
import ref_weier
import ref_do
import ref_gls
import c03

OKST = "ffffffff"
NOST = "00000000"


def ref_decode(g, b):
    """-> (accepted, element or None)"""
    if isinstance(g, G.EdG):
        P = g.C.decode(b)
        return (P is not None), P
    if isinstance(g, G.QuotG):
        P = g.Q.decode(b)
        return (P is not None), P
    if isinstance(g, G.WeierG):
        r = g.C.decode(b)
        if r is None:
            return False, None
        return True, g.C.norm(r)
    r = g.D.decode(b)
    return (r is not None), r


def valid_encoding(g, rng):
    P = g.rand_point(rng)
    if isinstance(g, G.WeierG):
        if P is None:
            return b"\x00", P
        return (g.C.encode_compressed(P) if rng.randrange(2) else g.C.encode_uncompressed(P)), P
    return bytes.fromhex(g.enc(P)), P


def fe(v, n):
    return (v % (1 << (8 * n))).to_bytes(n, "little")


def hostile_strings(g, rng):
    """yield (bytes, class)"""
    name = g.name
    t = rng.randrange(12)
    if t < 2:
        b, _ = valid_encoding(g, rng)
        return b, "valid"
    if t < 5:
        b, _ = valid_encoding(g, rng)
        b = bytearray(b)
        m = rng.randrange(4)
        if m == 0 and b:
            b[rng.randrange(len(b))] ^= 1 << rng.randrange(8)
            return bytes(b), "one-bit-mutation"
        if m == 1 and b:
            b[-1] ^= 0x80
            return bytes(b), "top-bit-flipped"
        if m == 2:
            return bytes(b[:-1]) if rng.randrange(2) else bytes(b) + bytes([rng.getrandbits(8)]), "length+-1"
        if b:
            b[0] ^= rng.choice([1, 2, 4, 6, 0x80])
        return bytes(b), "first-byte-mutation"
    if t == 5:
        n = rng.choice([0, 1, 2, 16, 31, 32, 33, 34, 55, 56, 57, 58, 64, 65, 66, 114])
        return bytes(rng.getrandbits(8) for _ in range(n)), "random-length"
    # format-specific boundary constructions
    if isinstance(g, G.EdG):
        p = g.p
        n = g.C.enc_len
        sign = rng.randrange(2)
        y = rng.choice([p - 1, p, p + 1, 0, 1, 2, p - 2, rng.randrange(p), rng.randrange(19) + p if n == 32 else p + rng.randrange(5),
                        (1 << (8 * n - 1)) - 1 if n == 32 else (1 << 448) - 1])
        if n == 32:
            v = (y & ((1 << 255) - 1)) | (sign << 255)
            cl = "edwards-boundary-y"
            if y in (1, p - 1) and sign:
                cl = "x=0-with-sign-bit"
            if y >= p:
                cl = "y>=p"
            return fe(v, 32), cl
        else:
            last = (sign << 7) | rng.choice([0, 0, 0, 1, 0x40, 0x7f, rng.getrandbits(7)])
            b = fe(y, 56) + bytes([last])
            cl = "edwards-boundary-y"
            if last & 0x7f:
                cl = "unused-bits-set"
            elif y >= p:
                cl = "y>=p"
            elif y in (1, p - 1) and sign:
                cl = "x=0-with-sign-bit"
            return b, cl
    if isinstance(g, G.QuotG):
        p = g.p
        n = g.slen
        m = rng.randrange(5)
        if m == 0:
            s = rng.choice([p - 1, p, p + 1, 0, 1, 2, p - 2])
            return fe(s, n), "s-boundary"
        if m == 1:
            # negated valid encoding (negative s must be rejected)
            b, _ = valid_encoding(g, rng)
            s = int.from_bytes(b, "little")
            return fe(p - s, n) if s else b, "negated-s"
        if m == 2:
            # an edwards point encoding is (almost never) a valid ristretto/decaf encoding
            P = g.C.mul_base(rng.randrange(g.n))
            return g.C.encode(P)[:n], "edwards-encoding-as-quotient"
        if m == 3:
            b, _ = valid_encoding(g, rng)
            s = int.from_bytes(b, "little")
            return fe(s + p, n) if s + p < (1 << (8 * n)) else fe(s | (1 << (8 * n - 1)), n), "s+p-or-topbit"
        return bytes(rng.getrandbits(8) for _ in range(n)), "random"
    if isinstance(g, G.WeierG):
        p = g.p
        C = g.C
        m = rng.randrange(10)
        if m >= 8:
            # a coordinate field that is out of range, chosen so that the point would be valid if the field were silently
            # replaced by 0 (what a failed field decoding leaves behind) or reduced modulo p
            top = 1 << 256
            y0 = C.sqrt(C.b % p)
            how = rng.randrange(4)
            if how <= 1 and y0 is not None:
                xf = rng.choice([p, p + 1, top - 1, rng.randrange(p, top)])
                y = rng.choice([y0, p - y0])
                if how == 0:
                    return b"\x04" + xf.to_bytes(32, "big") + y.to_bytes(32, "big"), "field>=p-valid-if-zeroed"
                return bytes([2 + (y & 1)]) + xf.to_bytes(32, "big"), "field>=p-valid-if-zeroed"
            for _ in range(64):
                x0 = rng.randrange(top - p)
                P0 = C.lift_x(x0, rng.randrange(2))
                if P0 is not None:
                    break
            else:
                return bytes(65), "all-zero-fixed-length"
            if how == 2:
                return b"\x04" + (x0 + p).to_bytes(32, "big") + P0[1].to_bytes(32, "big"), "field>=p-valid-if-reduced"
            return bytes([2 + (P0[1] & 1)]) + (x0 + p).to_bytes(32, "big"), "field>=p-valid-if-reduced"
        if m == 0:
            return bytes([rng.choice([0, 0, 1, 2, 3, 4, 5, 6, 7, 0xff])]), "one-byte"
        if m == 1:
            return bytes(33 if rng.randrange(2) else 65), "all-zero-fixed-length"
        if m == 2:
            P = g.rand_point(rng)
            if P is None:
                return b"\x00", "valid"
            u = bytearray(C.encode_uncompressed(P))
            u[0] = 6 + (P[1] & 1) if rng.randrange(2) else rng.choice([6, 7])
            return bytes(u), "hybrid-06-07"
        if m == 3:
            x = rng.choice([p, p + 1, p - 1, 0, 1, (1 << 256) - 1, rng.randrange(p)])
            return bytes([rng.choice([2, 3])]) + (x % (1 << 256)).to_bytes(32, "big"), "compressed-boundary-x"
        if m == 4:
            P = g.rand_point(rng)
            if P is None:
                return b"\x00", "valid"
            x, y = P
            y2 = rng.choice([p - y, (y + 1) % p, y + p if y + p < (1 << 256) else y ^ 1, y])
            return b"\x04" + x.to_bytes(32, "big") + (y2 % (1 << 256)).to_bytes(32, "big"), "uncompressed-y-variant"
        if m == 5:
            P = g.rand_point(rng)
            if P is None:
                return b"\x00", "valid"
            c = bytearray(C.encode_compressed(P)); c[0] ^= 1
            return bytes(c), "compressed-sign-flipped"
        if m == 6:
            x = rng.randrange(p)
            return bytes([2]) + x.to_bytes(32, "big"), "compressed-random-x"
        return bytes([4]) + bytes(rng.getrandbits(8) for _ in range(64)), "uncompressed-random"
    if isinstance(g, G.DoG):
        p = g.p
        m = rng.randrange(5)
        if m == 0:
            u = rng.choice([0, 1, p - 1, p, p + 1, (1 << 255) - 1, 2, p - 2])
            return fe(u, 32), "u-boundary"
        if m == 1:
            b, _ = valid_encoding(g, rng)
            u = int.from_bytes(b, "little")
            return fe((p - u) % p, 32), "negated-u"
        if m == 2:
            b, _ = valid_encoding(g, rng)
            u = int.from_bytes(b, "little")
            return fe(u + p, 32) if u + p < (1 << 256) else fe(u | (1 << 255), 32), "u+p-or-topbit"
        return bytes(rng.getrandbits(8) & (0x7f if i == 31 else 0xff) for i in range(32)), "random-255-bit"
    # gls254
    m = rng.randrange(4)
    if m == 0:
        b = bytearray(rng.getrandbits(8) for _ in range(32))
        b[15] &= 0x7f; b[31] &= 0x7f
        return bytes(b), "random-well-formed"
    if m == 1:
        b, _ = valid_encoding(g, rng)
        b = bytearray(b); b[rng.choice([15, 31])] |= 0x80
        return bytes(b), "field-top-bit-set"
    if m == 2:
        return bytes(32), "zero"
    b = bytearray(32); b[rng.randrange(32)] = 1 << rng.randrange(8)
    return bytes(b), "single-bit"


KEYOBJ = ("ed25519", "ed448", "jq255e", "jq255s", "gls254")


def gen_curve(rng, g, n):
    out = []
    T = "g %s " % g.name
    for _ in range(n):
        kind = rng.choices(["decode", "reps", "batch", "map", "keyobj"], [60, 20, 8, 12, 4 if g.name in KEYOBJ else 0])[0]
        if kind == "keyobj":
            # key objects built from group elements / scalars (PublicKey::from_point on an arbitrary representative,
            # PrivateKey::from_scalar): their encoding is the canonical one, and they verify what the key verifies
            msg = bytes(rng.getrandbits(8) for _ in range(rng.choice([0, 1, 32, 100])))
            if g.name in ("ed25519", "ed448"):
                seed = bytes(rng.getrandbits(8) for _ in range(32 if g.name == "ed25519" else 57))
                if g.name == "ed25519":
                    pk = ref_ed.ed25519_public_key(seed); sig = ref_ed.ed25519_sign(seed, msg)
                else:
                    pk = ref_ed.ed448_public_key(seed); sig = ref_ed.ed448_sign(seed, msg, b"", False)
                P = g.C.decode(pk)
                lines = [T + "pkfp %s %s %s" % (c03.D(g, P, rng), sig.hex(), msg.hex() if msg else "-"),
                         T + "pkfp %s %s %s" % (c03.D(g, P, rng), sig.hex(), (msg + b"?").hex())]
                exp = ["OK %s T" % pk.hex(), "OK %s F" % pk.hex()]
            else:
                d = rng.randrange(1, g.n) if rng.randrange(6) else rng.choice([1, 2, g.n - 1])
                P = g.mulgen(d)
                sig = g.D.sign(d, "", msg)
                e = g.enc(P)
                lines = [T + "pkfp %s %s %s" % (c03.D(g, P, rng), sig.hex(), msg.hex() if msg else "-"),
                         T + "pkfp %s %s %s" % (c03.D(g, P, rng), sig.hex(), (msg + b"?").hex()),
                         T + "skfs " + d.to_bytes(32, "little").hex()]
                exp = ["OK %s T" % e, "OK %s F" % e, "OK %s %s" % (d.to_bytes(32, "little").hex(), e)]
            out.append(Case(lines, exp, ["keyobj", g.name + ":keyobj"], "key objects"))
            continue
        if kind == "decode":
            b, cl = hostile_strings(g, rng)
            ok, P = ref_decode(g, b)
            h = b.hex() if b else "-"
            cls = ["decode:" + cl, "decode:" + ("accept" if ok else "reject"), g.name + ":decode:" + ("accept" if ok else "reject")]
            if ok:
                e = g.enc(P)
                lines = [T + "decode " + h, T + "set_decode >1 " + h]
                exp = ["OK S " + e, "OK %s %s %s" % (OKST, e, OKST if g.is_neutral(P) else NOST)]
                if not isinstance(g, G.WeierG):
                    # encode(decode(b)) == b
                    if e != b.hex():
                        exp = ["ORACLE-INCONSISTENT", None]
                else:
                    lines.append(T + "encc $1")
                    exp.append("OK " + g.C.encode_compressed(P).hex())
                    if P is None:
                        cls.append("weier:0x00-infinity-accepted")
                out.append(Case(lines, exp, cls, "decode"))
            else:
                # on failure the point is set to the neutral
                # ... and the receiver of the failed in-place decoding really is the neutral: it is used as an operand
                Rr = g.rand_point(rng)
                dr = (g.desc(Rr, rng) if isinstance(g, G.WeierG) else g.desc(Rr))
                lines = [T + "decode " + h, T + "set_decode >1 " + h, T + "add $1 " + dr, T + "sub %s $1" % dr]
                exp = ["OK N", "OK %s %s %s" % (NOST, g.enc(g.neutral), OKST), "OK " + g.enc(Rr), "OK " + g.enc(Rr)]
                out.append(Case(lines, exp, cls, "decode"))
        elif kind == "reps":
            # several representatives of one element encode identically and compare equal
            P = g.rand_point(rng)
            base = g.desc(P, rng) if isinstance(g, G.WeierG) else g.desc(P)
            lines, exp = [], []
            k = rng.randrange(2, 5)
            for i in range(k):
                d = base + g.mods(P, rng)
                lines.append(T + "enc " + d); exp.append("OK " + g.enc(P))
                lines.append(T + "equals %s %s" % (d, base)); exp.append("OK " + OKST)
                lines.append(T + "isneutral " + d); exp.append("OK " + (OKST if g.is_neutral(P) else NOST))
            # computed representative: (P + Q) - Q
            Q = g.rand_point(rng)
            dq = g.desc(Q, rng) if isinstance(g, G.WeierG) else g.desc(Q)
            lines += [T + "add >1 %s %s" % (base, dq), T + "sub >2 $1 %s" % dq, T + "enc $2", T + "equals $2 " + base]
            exp += ["OK " + g.enc(g.add(P, Q)), "OK " + g.enc(P), "OK " + g.enc(P), "OK " + OKST]
            out.append(Case(lines, exp, ["reps", g.name + ":reps"], "representatives"))
        elif kind == "batch":
            # pairwise: equals <=> encodings identical, inside a batch with deliberate repeats
            pts = [g.rand_point(rng) for _ in range(4)]
            pts += [pts[0], g.neg(pts[1]), g.add(pts[2], g.neutral)]
            if isinstance(g, G.EdG):
                # the full curve is the group: a point and its translate by a low-order point are different elements
                pts += [g.add(pts[0], rng.choice([L for L in g.low if not g.is_neutral(L)])), g.add(pts[3], g.low[1] if not g.is_neutral(g.low[1]) else g.low[0])]
            elif isinstance(g, G.QuotG):
                pass
            lines, exp = [], []
            for i in range(len(pts)):
                for j in range(i + 1, len(pts)):
                    di = (g.desc(pts[i], rng) if isinstance(g, G.WeierG) else g.desc(pts[i])) + g.mods(pts[i], rng)
                    dj = (g.desc(pts[j], rng) if isinstance(g, G.WeierG) else g.desc(pts[j])) + g.mods(pts[j], rng)
                    same = g.enc(pts[i]) == g.enc(pts[j])
                    if same != g.eq(pts[i], pts[j]):
                        lines.append("ping"); exp.append("ORACLE-INCONSISTENT: eq vs encoding")
                    lines.append(T + "equals %s %s" % (di, dj)); exp.append("OK " + (OKST if same else NOST))
            out.append(Case(lines, exp, ["batch-injectivity", g.name + ":batch"], "injectivity"))
        else:
            if g.name in ("ristretto255", "decaf448") and rng.randrange(3) == 0:
                # directed halves: field elements on which the element-derivation map has exceptional intermediate values
                # (t = 0, +-1, p-1, values with t^2 = +-i or +-1/d style coincidences, non-canonical representations)
                p_ = g.p
                hl = 32 if g.name == "ristretto255" else 56
                top = 1 << (8 * hl)
                sq = []
                for c_ in (1, p_ - 1, 2, p_ - 2, (p_ + 1) // 2, 486662 % p_, 39081 % p_, p_ - 39081, 121665, 121666):
                    r_ = ref_ed._sqrt_mod(c_, p_) if hasattr(ref_ed, "_sqrt_mod") else None
                    if r_ is not None:
                        sq += [r_, p_ - r_]
                SQRT_M1 = pow(2, (p_ - 1) // 4, p_) if p_ % 4 == 1 else None
                if SQRT_M1:
                    for c_ in (SQRT_M1, p_ - SQRT_M1):
                        r_ = ref_ed._sqrt_mod(c_, p_)
                        if r_ is not None:
                            sq += [r_, p_ - r_]
                        sq += [c_]
                pool = [0, 1, 2, p_ - 1, p_ - 2, p_, p_ + 1, top - 1, (1 << (8 * hl - 1)) - 1, 1 << (8 * hl - 1)] + sq
                h1 = rng.choice(pool) % top
                h2 = rng.choice(pool + [rng.getrandbits(8 * hl)]) % top
                b = h1.to_bytes(hl, "little") + h2.to_bytes(hl, "little")
                P = g.Q.one_way_map(b)
                out.append(case1(T + "one_way_map " + b.hex(), "OK " + g.enc(P), ["map", g.name + ":map", "map:directed-halves"]))
            elif g.name == "ristretto255":
                b = bytes(rng.getrandbits(8) for _ in range(64)) if rng.randrange(4) else rng.choice([bytes(64), b"\xff" * 64])
                P = g.Q.one_way_map(b)
                out.append(case1(T + "one_way_map " + b.hex(), "OK " + g.enc(P), ["map", "ristretto255:map"]))
            elif g.name == "decaf448":
                b = bytes(rng.getrandbits(8) for _ in range(112)) if rng.randrange(4) else rng.choice([bytes(112), b"\xff" * 112])
                P = g.Q.one_way_map(b)
                out.append(case1(T + "one_way_map " + b.hex(), "OK " + g.enc(P), ["map", "decaf448:map"]))
            elif g.name in ("jq255e", "jq255s", "gls254") and rng.randrange(2):
                # the underlying field-to-group map on directed field elements (0, +-1, small values, values that make the
                # intermediate numerators / denominators of the documented map vanish), through the verification hook
                if g.name == "gls254":
                    c0 = rng.choice([0, 1, 2, 3, (1 << 127) - 1, 1 << 126, rng.getrandbits(127), rng.getrandbits(127) & ~3])
                    c1 = rng.choice([0, 1, 2, 3, (1 << 127) - 1, rng.getrandbits(127), rng.getrandbits(127)])
                    fb = ref_gls.b254_encode((c0, c1))
                    P = g.D.map_to_curve((c0, c1))
                else:
                    p_ = g.p
                    cands = [0, 1, p_ - 1, 2, p_ - 2, (p_ + 1) // 2, (p_ - 1) // 2, 3, rng.randrange(p_), rng.randrange(p_)]
                    for c_ in (7 * pow(4, -1, p_) % p_, (-7 * pow(4, -1, p_)) % p_, 2, p_ - 2, pow(2, -1, p_), p_ - 1, 8, p_ - 8):
                        r_ = ref_ed._sqrt_mod(c_, p_)
                        if r_ is not None:
                            cands += [r_, p_ - r_]
                    fv = rng.choice(cands)
                    fb = fv.to_bytes(32, "little")
                    P = g.D.map_to_curve(fv)
                ok = g.D.decode(bytes.fromhex(g.enc(P))) is not None
                out.append(case1(T + "map_to_curve " + fb.hex(), "OK " + g.enc(P) if ok else "ORACLE-INCONSISTENT", ["map", g.name + ":map", "map:map_to_curve-directed", g.name + ":map_to_curve"]))
            elif g.name in ("jq255e", "jq255s", "gls254"):
                hn = rng.choice(["-", "-", "sha256", "sha512", "sha3256", "blake2s", "sha224", "sha384", "sha512224", "sha512256", "sha3224", "sha3384", "sha3512", "blake2b", "blake3"])
                ln = rng.choice([0, 1, 20, 32, 64, 100]) if hn == "-" else {"sha224": 28, "sha256": 32, "sha384": 48, "sha512": 64, "sha512224": 28,
                                                                             "sha512256": 32, "sha3224": 28, "sha3256": 32, "sha3384": 48, "sha3512": 64,
                                                                             "blake2b": 64, "blake2s": 32, "blake3": 32}[hn]
                d = bytes(rng.getrandbits(8) for _ in range(ln))
                P = g.D.hash_to_curve("" if hn == "-" else hn, d)
                ok = g.D.decode(bytes.fromhex(g.enc(P))) is not None
                out.append(case1(T + "hash_to_curve %s %s" % (hn, d.hex() if d else "-"), "OK " + g.enc(P) if ok else "ORACLE-INCONSISTENT",
                                 ["map", g.name + ":map", "map:" + ("raw" if hn == "-" else "hashed")]))
    return out


COST = {"ed25519": 1, "ed448": 3, "ristretto255": 1.5, "decaf448": 4, "p256": 1, "secp256k1": 1, "jq255e": 1.5, "jq255s": 1.5, "gls254": 6}


def gen(rng, shard, nshards, curves, n):
    cases = []
    for c in curves:
        cases.extend(gen_curve(rng, G.GROUPS[c], max(1, int(n / COST[c]))))
    return cases


def main(argv):
    a = parse_args(argv)
    if a.replay:
        return do_replay(a.replay)
    rep = Report("C06", a.tier, a.seed)
    rep.rule = ("hostile byte strings per format (valid encodings and their one-bit / sign / length mutations; y or s or u in {p-1,p,p+1}; "
                "x=0 with sign bit; unused bits; off-curve; non-residue; negated s/u; wrong coset; SEC1 00/02/03/04/06/07 forms, all-zero "
                "fixed-length infinity; lengths 0..len+2) judged accept/reject by an independent reference decoder; encode() of several "
                "representatives (lambda-scaled, torsion-shifted, (e,u)->(-e,-u), computed (P+Q)-Q); pairwise equals <=> identical bytes in "
                "batches; one_way_map / hash_to_curve outputs against the reference maps; PublicKey::from_point on arbitrary representatives and PrivateKey::from_scalar (canonical bytes, same verification outcome). distinct_nontrivial = distinct requests in a class")
    rep.assumptions = ["reference decoders/maps in ref_ed, ref_weier, ref_do, ref_gls (validated against the repository KAT lists of valid and invalid encodings)"]
    try:
        curves = G.ALL_CURVES
        if a.tier == "quick":
            cfgs = (a.configs.split(",") if a.configs else ["default", "m51", "w32"])
            n = int(8000 * a.scale)
        else:
            cfgs = (a.configs.split(",") if a.configs else ALL_CONFIGS)
            n = int(600000 * a.scale)
        exes = build_many(cfgs)
        m = run_sharded("c06", "gen", (curves, n // NCPU + 1), [(c, exes[c]) for c in cfgs], a.seed, timeout=3600)
        rep.merge(m)
        req = []
        for c in curves:
            req += [c + ":decode:accept", c + ":decode:reject", c + ":reps", c + ":batch"]
        req += ["decode:x=0-with-sign-bit", "decode:y>=p", "decode:unused-bits-set", "decode:negated-s", "decode:negated-u", "decode:hybrid-06-07",
                "decode:all-zero-fixed-length", "decode:field>=p-valid-if-zeroed", "decode:field>=p-valid-if-reduced", "weier:0x00-infinity-accepted", "decode:field-top-bit-set", "decode:length+-1", "ristretto255:map",
                "decaf448:map", "jq255e:map", "jq255s:map", "gls254:map", "map:hashed", "map:directed-halves", "jq255e:map_to_curve", "jq255s:map_to_curve", "gls254:map_to_curve"] + [c + ":keyobj" for c in KEYOBJ]
        rep.require(*req)
    except Inconclusive as e:
        rep.incon.append(str(e))
    return rep.finish()


if __name__ == "__main__":
    sys.exit(main(sys.argv[1:]))
