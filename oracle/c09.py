"""C09 -- jq255e/jq255s/GLS254 Schnorr signatures and ECDH behave as specified."""

import sys
import os

sys.path.insert(0, os.path.dirname(os.path.abspath(__file__)))

from common import *          # noqa
import ref_do
import ref_gls
import c04
import groups

REFS = {"jq255e": ref_do.JQ255E, "jq255s": ref_do.JQ255S, "gls254": ref_gls.GLS254}
HASHLEN = {"sha224": 28, "sha256": 32, "sha384": 48, "sha512": 64, "sha512224": 28, "sha512256": 32, "sha3224": 28, "sha3256": 32,
           "sha3384": 48, "sha3512": 64, "blake2b": 64, "blake2s": 32, "blake3": 32}


def hx(b):
    return b.hex() if b else "-"


def rb(rng, n):
    return bytes(rng.getrandbits(8) for _ in range(n))


def order(D):
    return D.r


def enc_pub(D, d):
    P = D.mulgen(d) if hasattr(D, "mulgen") else D.mul(d, D.base)
    return D.encode(P)


def gen(rng, shard, nshards, n):
    cases = []
    for name, D in REFS.items():
        T = "s %s " % name
        r = order(D)
        cnt = max(1, n // (6 if name == "gls254" else 1))
        for _ in range(cnt):
            d = rng.randrange(1, r) if rng.randrange(8) else rng.choice([1, 2, r - 1])
            if rng.randrange(3) == 0:
                # structured secret scalars (recoding carries, endomorphism-split rounding boundaries): the public key is d*G
                hd, hc = c04.hostile_scalar(rng, groups.GROUPS[name])
                if hd % r:
                    d = hd % r
            sk = d.to_bytes(32, "little")
            pk = enc_pub(D, d)
            if rng.randrange(3) == 0:
                hn = rng.choice(list(HASHLEN)); data = rb(rng, HASHLEN[hn])
            else:
                hn = ""; data = rb(rng, rng.choice([0, 1, 32, 100]))
            hname = hn or "-"
            kind = rng.choices(["sign", "verify-bad", "ecdh"], [40, 35, 25])[0]
            cl = {kind}
            if kind == "sign":
                mode = rng.choice(["sign", "sign_seeded", "sign_rand"])
                if mode == "sign":
                    sig = D.sign(d, hn, data)
                    lines = [T + "sign %s %s %s" % (sk.hex(), hname, hx(data))]
                    exp = ["OK " + sig.hex()]
                elif mode == "sign_seeded":
                    seed = rb(rng, rng.choice([0, 1, 8, 32, 100]))
                    sig = D.sign(d, hn, data, seed)
                    lines = [T + "sign_seeded %s %s %s %s" % (sk.hex(), hx(seed), hname, hx(data))]
                    exp = ["OK " + sig.hex()]
                else:
                    tape = rb(rng, 64)
                    sig = None
                    lines = [T + "sign_rand %s %s %s %s" % (sk.hex(), tape.hex(), hname, hx(data))]

                    def chk(resp, D=D, pk=pk, hn=hn, data=data):
                        if not resp.startswith("OK "):
                            return "no signature: " + resp[:80]
                        s = bytes.fromhex(resp.split()[1])
                        return None if D.verify(pk, s, hn, data) else "randomized signature rejected by the reference verifier"
                    exp = [chk]
                cl.add(mode)
                if sig is not None:
                    lines.append(T + "verify %s %s %s %s" % (pk.hex(), sig.hex(), hname, hx(data))); exp.append("OK T")
                    # same signature, other message / other domain
                    lines.append(T + "verify %s %s %s %s" % (pk.hex(), sig.hex(), hname, hx(data[:-1] if data else b"x"))) if not hn else lines.append(
                        T + "verify %s %s %s %s" % (pk.hex(), sig.hex(), "-", hx(data)))
                    exp.append("OK F")
                cl.add("hashed" if hn else "raw")
            elif kind == "verify-bad":
                sig = bytearray(D.sign(d, hn, data))
                m = rng.randrange(9)
                if m == 0:
                    s = int.from_bytes(sig[16:], "little") + r
                    if s < (1 << 256):
                        sig[16:] = s.to_bytes(32, "little")
                    cl.add("s+r-noncanonical")
                elif m == 1:
                    sig = sig[:-1]; cl.add("47-bytes")
                elif m == 2:
                    sig = sig + b"\x00"; cl.add("49-bytes")
                elif m == 3:
                    sig[rng.randrange(16)] ^= 1 << rng.randrange(8); cl.add("c-bitflip")
                elif m == 4:
                    sig[16 + rng.randrange(32)] ^= 1 << rng.randrange(8); cl.add("s-bitflip")
                elif m == 5:
                    sig = bytearray(rb(rng, 48)); sig[47] &= 0x1f; cl.add("random-sig")
                elif m == 6:
                    sig[:16] = rng.choice([bytes(16), b"\xff" * 16, (1).to_bytes(16, "little")]); cl.add("extreme-c")
                elif m == 7:
                    sig = bytearray(rb(rng, rng.choice([0, 1, 16, 32, 64, 96]))); cl.add("wrong-length")
                else:
                    sig[16:] = bytes(32); cl.add("s=0")
                pkb = pk
                if rng.randrange(6) == 0:
                    pkb = rng.choice([bytes(32), rb(rng, 32), pk[:-1]]); cl.add("bad-pk")
                pkdec = D.public_decode(pkb) if len(pkb) == 32 else None
                if pkdec is None:
                    e = "OK NOPK"
                else:
                    e = "OK " + ("T" if D.verify(pkb, bytes(sig), hn, data) else "F")
                lines = [T + "verify %s %s %s %s" % (hx(pkb), hx(bytes(sig)), hname, hx(data))]
                exp = [e]
            else:
                d2 = rng.randrange(1, r)
                sk2 = d2.to_bytes(32, "little")
                pk2 = enc_pub(D, d2)
                m = rng.randrange(8)
                if m < 3:
                    k1, ok1 = D.ecdh(d, pk, pk2)
                    k2, ok2 = D.ecdh(d2, pk2, pk)
                    lines = [T + "ecdh %s %s" % (sk.hex(), pk2.hex()), T + "ecdh %s %s" % (sk2.hex(), pk.hex())]
                    exp = ["OK %s ffffffff" % k1.hex(), "OK %s ffffffff" % k1.hex()]
                    if k1 != k2 or not ok1:
                        exp = ["ORACLE-INCONSISTENT", None]
                    cl.add("ecdh-agreement")
                else:
                    if m == 3:
                        peer = bytes(32); cl.add("ecdh-neutral-peer")
                    elif m == 4:
                        peer = rb(rng, rng.choice([0, 1, 31, 33, 64])); cl.add("ecdh-wrong-length")
                    elif m == 5:
                        b = bytearray(pk2); b[31] |= 0x80; peer = bytes(b); cl.add("ecdh-topbit")
                    elif m == 6:
                        peer = pk; cl.add("ecdh-own-key")
                    else:
                        peer = rb(rng, 32); cl.add("ecdh-random-peer")
                    k1, ok1 = D.ecdh(d, pk, peer)
                    lines = [T + "ecdh %s %s" % (sk.hex(), hx(peer))]
                    exp = ["OK %s %s" % (k1.hex(), "ffffffff" if ok1 else "00000000")]
                    if not ok1:
                        cl.add("ecdh-failure")
                        # the substitute key depends on the local secret
                        k3, _ = D.ecdh(d2, pk2, peer)
                        lines.append(T + "ecdh %s %s" % (sk2.hex(), hx(peer)))
                        exp.append("OK %s 00000000" % k3.hex())
                        if k3 == k1:
                            exp = ["ORACLE-INCONSISTENT", None]
            cases.append(Case(lines, exp, ["%s:%s" % (name, c) for c in cl] + sorted(cl), kind))
        # key decoding
        for _ in range(max(1, cnt // 10)):
            v = rng.choice([0, 1, r - 1, r, r + 1, (1 << 256) - 1, rng.randrange(1 << 255)])
            b = v.to_bytes(32, "little") if rng.randrange(5) else rb(rng, rng.choice([0, 31, 33]))
            ok = len(b) == 32 and 1 <= v < r
            e = ("OK S %s %s" % (b.hex(), enc_pub(D, v).hex())) if ok else "OK N"
            cases.append(case1(T + "skdec " + hx(b), e, [name + ":skdec", "skdec:" + ("accept" if ok else "reject")]))
            pb = rng.choice([bytes(32), enc_pub(D, rng.randrange(1, r)), rb(rng, 32), rb(rng, 31)])
            okp = len(pb) == 32 and D.public_decode(pb) is not None
            cases.append(case1(T + "pkdec " + hx(pb), ("OK S " + pb.hex()) if okp else "OK N", [name + ":pkdec", "pkdec:" + ("accept" if okp else "reject")]))
    return cases


def main(argv):
    a = parse_args(argv)
    if a.replay:
        return do_replay(a.replay)
    rep = Report("C09", a.tier, a.seed)
    rep.rule = ("deterministic / seeded signatures byte-equal to the reference and accepted; randomized signatures accepted by the reference "
                "verifier; tampered signatures (non-canonical s+r, 47/49 bytes, bit flips in c or s, extreme c, s = 0, random, wrong key) judged by "
                "the reference verifier; ECDH in both directions with equal keys and success status; failure inputs (neutral, wrong length, top "
                "bit, random) give status 0 and the substitute key, which changes with the local secret. Extreme challenge values cannot be "
                "produced by honest signing (2^-124): the arithmetic they exercise is observed in C10. distinct_nontrivial = distinct requests")
    rep.assumptions = ["ref_do / ref_gls (validated on all repository KATs for signatures and ECDH)"]
    try:
        if a.tier == "quick":
            cfgs = (a.configs.split(",") if a.configs else ["default", "w32", "clmul", "zz32"])
            n = int(6000 * a.scale)
        else:
            cfgs = (a.configs.split(",") if a.configs else ALL_CONFIGS)
            n = int(400000 * a.scale)
        exes = build_many(cfgs)
        m = run_sharded("c09", "gen", (n // NCPU + 1,), [(c, exes[c]) for c in cfgs], a.seed, timeout=3600)
        rep.merge(m)
        req = []
        for c in REFS:
            req += [c + ":sign", c + ":sign_seeded", c + ":sign_rand", c + ":hashed", c + ":s+r-noncanonical", c + ":47-bytes", c + ":extreme-c",
                    c + ":ecdh-agreement", c + ":ecdh-neutral-peer", c + ":ecdh-wrong-length", c + ":ecdh-failure", c + ":skdec", c + ":pkdec"]
        rep.require(*req)
    except Inconclusive as e:
        rep.incon.append(str(e))
    return rep.finish()


if __name__ == "__main__":
    sys.exit(main(sys.argv[1:]))
