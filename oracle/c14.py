"""C14 -- X25519 and X448 compute the RFC 7748 functions on all inputs."""

import sys
import os

sys.path.insert(0, os.path.dirname(os.path.abspath(__file__)))

from common import *          # noqa
import ref_ed
import c01
from fieldmodel import FIELDS

P25519 = (1 << 255) - 19
P448 = (1 << 448) - (1 << 224) - 1


def small_order_u25519():
    # u-coordinates of the small-order points of Curve25519 and its twist (well known list)
    p = P25519
    l = [0, 1, p - 1,
         325606250916557431795983626356110631294008115727848805560023387167927233504,
         39382357235489614581723060781553021112529911719440698176882885853963445705823]
    out = []
    for u in l:
        out.append(u)
        if u + p < (1 << 256):
            out.append(u + p)          # non-canonical form
        out.append(u | (1 << 255))     # top bit set (must be ignored)
    out.append(2 * p % (1 << 256))
    return out


def solved_u(rng, p, fname, const):
    """u such that E = AA - BB = 4u of the first ladder step is a value whose product by the curve constant (a24) generates and
    propagates carries between partial products (see c01.solved_small)."""
    for _ in range(8):
        sv = c01.solved_small(rng, FIELDS[fname], const, 32)
        if sv is not None and sv[0] < p:
            return sv[0] * pow(4, -1, p) % p
    return None


def hostile_u(rng, p, nbytes, specials):
    top = 1 << (8 * nbytes)
    t = rng.randrange(16)
    if t >= 12:
        # limb patterns and sparse values: the first ladder steps multiply and square field elements that are simple functions
        # of u (u+1, u-1, their squares, 4u), so structure in u is structure in the operands of the first multiplications
        if t < 14:
            from fieldmodel import hostile_raw
            v = hostile_raw(rng, FIELDS["gf448" if nbytes == 56 else "gf25519"]) % top
            return v, "u-limb-pattern"
        v = 0
        for _ in range(rng.choice([1, 2, 2, 3, 4])):
            v += rng.choice([1, -1, 3]) * (1 << rng.randrange(8 * nbytes))
        if rng.randrange(3) == 0:
            v = p - v
        return v % top, "u-sparse"
    if t >= 10:
        u = solved_u(rng, p, "gf448" if nbytes == 56 else "gf25519", 39081 if nbytes == 56 else 121665)
        if u is not None:
            return u, "first-step-E-solved"
    if t < 2:
        return rng.choice(specials) % top, "u-small-order-or-noncanonical"
    if t == 2:
        return rng.choice([p, p + 1, p - 1, p + 2, top - 1, top - 2, p + rng.randrange(1 << 16)]) % top, "u>=p"
    if t == 3:
        return rng.choice([0, 1, 2, 9, 5, 3]), "u-small"
    if t == 4:
        return rng.getrandbits(8 * nbytes) | (1 << (8 * nbytes - 1)), "u-topbit"
    return rng.getrandbits(8 * nbytes), "u-random"


def hostile_k(rng, nbytes):
    t = rng.randrange(8)
    if t == 0:
        return bytes(nbytes), "k-zero"
    if t == 1:
        return b"\xff" * nbytes, "k-ones"
    if t == 2:
        b = bytearray(rng.getrandbits(8) for _ in range(nbytes))
        b[0] |= 7; b[-1] |= 0xC0
        return bytes(b), "k-clamp-bits-set"
    if t == 3:
        b = bytearray(nbytes); b[rng.randrange(nbytes)] = 1 << rng.randrange(8)
        return bytes(b), "k-single-bit"
    return bytes(rng.getrandbits(8) for _ in range(nbytes)), "k-random"


def gen(rng, shard, nshards, n):
    cases = []
    so25519 = small_order_u25519()
    so448 = [0, 1, P448 - 1, P448, P448 + 1, (1 << 448) - 1]
    for _ in range(n):
        if rng.randrange(3):
            u, uc = hostile_u(rng, P25519, 32, so25519)
            k, kc = hostile_k(rng, 32)
            ub = u.to_bytes(32, "little")
            exp = ref_ed.x25519(k, ub)
            cl = ["x25519:" + uc, "x25519:" + kc]
            if exp == bytes(32): cl.append("x25519:zero-output")
            lines = ["s x25519 %s %s" % (ub.hex(), k.hex())]
            ex = ["OK " + exp.hex()]
            if rng.randrange(3) == 0:
                nine = (9).to_bytes(32, "little")
                e2 = ref_ed.x25519(k, nine)
                lines += ["s x25519_base " + k.hex(), "s x25519 %s %s" % (nine.hex(), k.hex())]
                ex += ["OK " + e2.hex(), "OK " + e2.hex()]
                cl.append("x25519:base-vs-general")
            if rng.randrange(6) == 0:
                # two-party agreement
                k2, _ = hostile_k(rng, 32)
                pa = ref_ed.x25519(k, (9).to_bytes(32, "little")); pb = ref_ed.x25519(k2, (9).to_bytes(32, "little"))
                sh = ref_ed.x25519(k, pb)
                lines += ["s x25519 %s %s" % (pb.hex(), k.hex()), "s x25519 %s %s" % (pa.hex(), k2.hex())]
                ex += ["OK " + sh.hex(), "OK " + sh.hex()]
                cl.append("x25519:dh-agreement")
            cases.append(Case(lines, ex, cl, "x25519"))
        else:
            u, uc = hostile_u(rng, P448, 56, so448)
            k, kc = hostile_k(rng, 56)
            ub = u.to_bytes(56, "little")
            exp = ref_ed.x448(k, ub)
            cl = ["x448:" + uc, "x448:" + kc]
            if exp == bytes(56): cl.append("x448:zero-output")
            lines = ["s x448 %s %s" % (ub.hex(), k.hex())]
            ex = ["OK " + exp.hex()]
            if rng.randrange(3) == 0:
                five = (5).to_bytes(56, "little")
                e2 = ref_ed.x448(k, five)
                lines += ["s x448_base " + k.hex(), "s x448 %s %s" % (five.hex(), k.hex())]
                ex += ["OK " + e2.hex(), "OK " + e2.hex()]
                cl.append("x448:base-vs-general")
            cases.append(Case(lines, ex, cl, "x448"))
    return cases


def main(argv):
    a = parse_args(argv)
    if a.replay:
        return do_replay(a.replay)
    rep = Report("C14", a.tier, a.seed)
    rep.rule = ("u in {0,1,p-1,p,p+1,2^255-1, every known small-order u in canonical / non-canonical / top-bit-set form, twist points, random} x "
                "(plus u = E/4 with E solved so that E*a24 carries between partial products in the first ladder step) x scalars in {0, all-ones, clamp-boundary patterns, single bits, random}; base-point variants against u=9 / u=5 on the same "
                "scalars; two-party agreement. Oracle: RFC 7748 ladder on Python integers. distinct_nontrivial = distinct requests in a "
                "boundary class")
    rep.assumptions = ["ref_ed.x25519/x448 (checked against the RFC 7748 vectors and the repository KATs)"]
    try:
        if a.tier == "quick":
            cfgs = (a.configs.split(",") if a.configs else ["default", "m51", "w32"])
            n = int(24000 * a.scale)
        else:
            cfgs = (a.configs.split(",") if a.configs else ALL_CONFIGS)
            n = int(2000000 * a.scale)
        exes = build_many(cfgs)
        m = run_sharded("c14", "gen", (n // NCPU + 1,), [(c, exes[c]) for c in cfgs], a.seed, timeout=3600)
        rep.merge(m)
        rep.require("x25519:u-small-order-or-noncanonical", "x25519:u>=p", "x25519:u-topbit", "x25519:zero-output", "x25519:k-zero", "x25519:k-ones",
                    "x25519:base-vs-general", "x25519:dh-agreement", "x448:u>=p", "x448:zero-output", "x448:base-vs-general", "x448:k-clamp-bits-set",
                    "x448:first-step-E-solved", "x25519:first-step-E-solved", "x25519:u-sparse", "x448:u-sparse", "x25519:u-limb-pattern", "x448:u-limb-pattern")
    except Inconclusive as e:
        rep.incon.append(str(e))
    return rep.finish()


if __name__ == "__main__":
    sys.exit(main(sys.argv[1:]))
