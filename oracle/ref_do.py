#!/usr/bin/env python3
"""
ref_do.py -- independent pure-Python reference model (oracle) for the
double-odd groups jq255e and jq255s, as implemented by the Rust library crrl
(src/jq255e.rs, src/jq255s.rs).

INDEPENDENCE: all group arithmetic is done on the BASE double-odd curve

        y^2 = x*(x^2 + a*x + b)      over GF(p)

with textbook affine chord-and-tangent formulas for a general Weierstrass
curve (a1 = a3 = a6 = 0, a2 = a, a4 = b).  crrl's projective (E:Z:U:T)
Jacobi-quartic formulas are NOT used anywhere; the (e,u) coordinates appear
only at the boundary (to_eu / from_eu / encode / decode).  The fast scalar
multiplication uses textbook Jacobian coordinates on the short-Weierstrass
model obtained with the shift X = x + a/3; it is cross-checked against a pure
affine double-and-add (mul_slow).

INTERNAL REPRESENTATION OF A GROUP ELEMENT
    A group element is a tuple (x, y) of Python ints in [0, p-1]: the affine
    coordinates of a point of the base curve which is NOT in the r-torsion
    subgroup (i.e. x is zero or a non-square).  The curve has order 2r, its only
    point of order 2 is N = (0, 0).
        neutral      = N = (0, 0)
        add(P1, P2)  = P1 + P2 + N    (curve additions)
        neg((x, y))  = (x, -y)
    This representation is canonical: eq(P, Q) is plain tuple equality, and
    elements are hashable.  (The point at infinity, None, is never a group
    element; it only shows up transiently inside the curve-level helpers.)

    In (e,u) coordinates (u = x/y, e = u^2*(x - b/x)), adding N is the map
    (e,u) -> (-e,-u); both (e,u) and (-e,-u) designate the same group element.
    to_eu() returns the representative whose e is "non-negative" (least
    significant bit of the integer in [0,p-1] is zero): that is the
    representative crrl's decode() produces and encode() uses.  The neutral
    is (e,u) = (-1, 0) = (p-1, 0).  from_eu() accepts either representative.

Python 3.11, standard library only.  Run `python3 ref_do.py` for the self-test
(all KATs of the Rust test modules; vectors are in ref_do_kats.json).
"""

import hashlib
import json
import os
import sys
import time

__all__ = ["DOGroup", "JQ255E", "JQ255S", "selftest"]


def _blake2s(*parts):
    h = hashlib.blake2s(digest_size=32)
    for x in parts:
        h.update(x)
    return h.digest()


def _hash_prefix(hash_name, data):
    """Common 'raw or hashed data' framing used by nonce and challenge."""
    if isinstance(hash_name, str):
        hash_name = hash_name.encode("utf-8")
    if len(hash_name) == 0:
        return b"\x52" + bytes(data)
    return b"\x48" + hash_name + b"\x00" + bytes(data)


class DOGroup:
    enc_len = 32
    sig_len = 48

    HASHNAMES = {
        "SHA224": "sha224", "SHA256": "sha256", "SHA384": "sha384",
        "SHA512": "sha512", "SHA512_224": "sha512224",
        "SHA512_256": "sha512256", "SHA3_224": "sha3224",
        "SHA3_256": "sha3256", "SHA3_384": "sha3384", "SHA3_512": "sha3512",
        "BLAKE2B": "blake2b", "BLAKE2S": "blake2s", "BLAKE3": "blake3",
    }

    def __init__(self, name, p, a, b, r, base_eu, mu=None):
        self.name = name
        self.p = p
        self.a = a % p
        self.b = b % p
        self.r = r
        # constants of the dual curve / Jacobi quartic
        self.ap = (-2 * a) % p                 # a' = -2a
        self.bp = (a * a - 4 * b) % p          # b' = a^2 - 4b
        self.N = (0, 0)
        self.neutral = self.N
        # short Weierstrass model Y^2 = X^3 + A*X + B, X = x + a/3
        self._s = (self.a * pow(3, -1, p)) % p
        self._A = (self.b - self.a * self._s) % p
        self._B = (2 * pow(self._s, 3, p) - self.b * self._s) % p
        # sanity on the parameters (double-odd conditions)
        assert self.is_nonsquare(self.b) and self.is_nonsquare(self.bp)
        self.base = self.from_eu(*base_eu)
        assert self.base is not None and self.base != self.N
        self.mu = mu
        if self.a == 0:
            # eta = the non-negative square root of -1 in GF(p)
            self.eta = self.fsqrt(p - 1)
            assert self.eta is not None
        else:
            self.eta = None
        self._gen_table = None

    # ------------------------------------------------------------------
    # field helpers

    def finv(self, x):
        return pow(x, -1, self.p)

    def legendre(self, x):
        """0, +1 or -1."""
        x %= self.p
        if x == 0:
            return 0
        return 1 if pow(x, (self.p - 1) >> 1, self.p) == 1 else -1

    def is_nonsquare(self, x):
        return self.legendre(x) == -1

    def fsqrt(self, x):
        """Square root with least significant bit 0 ('non-negative'), or
        None if x is not a square.  Generic Tonelli-Shanks."""
        p = self.p
        x %= p
        if x == 0:
            return 0
        if pow(x, (p - 1) >> 1, p) != 1:
            return None
        q, s = p - 1, 0
        while q & 1 == 0:
            q >>= 1
            s += 1
        z = 2
        while pow(z, (p - 1) >> 1, p) != p - 1:
            z += 1
        m, c, t, y = s, pow(z, q, p), pow(x, q, p), pow(x, (q + 1) >> 1, p)
        while t != 1:
            i, t2 = 0, t
            while t2 != 1:
                t2 = t2 * t2 % p
                i += 1
            w = pow(c, 1 << (m - i - 1), p)
            m, c = i, w * w % p
            t, y = t * c % p, y * w % p
        assert y * y % p == x
        if y & 1:
            y = p - y
        return y

    # ------------------------------------------------------------------
    # base curve, affine, textbook.  None = point at infinity.

    def on_curve(self, P):
        if P is None:
            return True
        x, y = P
        p = self.p
        return (y * y - x * (x * x + self.a * x + self.b)) % p == 0

    def _cadd(self, P, Q):
        """Curve addition (general Weierstrass, a2 = a, a4 = b)."""
        if P is None:
            return Q
        if Q is None:
            return P
        p = self.p
        x1, y1 = P
        x2, y2 = Q
        if x1 == x2:
            if (y1 + y2) % p == 0:
                return None
            lam = (3 * x1 * x1 + 2 * self.a * x1 + self.b) * pow(2 * y1, -1, p) % p
        else:
            lam = (y2 - y1) * pow(x2 - x1, -1, p) % p
        x3 = (lam * lam - self.a - x1 - x2) % p
        y3 = (lam * (x1 - x3) - y1) % p
        return (x3, y3)

    def _cneg(self, P):
        if P is None:
            return None
        return (P[0], (-P[1]) % self.p)

    def _cmul_slow(self, k, P):
        """Curve-level affine double-and-add (k >= 0)."""
        R = None
        for i in range(k.bit_length() - 1, -1, -1):
            R = self._cadd(R, R)
            if (k >> i) & 1:
                R = self._cadd(R, P)
        return R

    # ------------------------------------------------------------------
    # group operations

    def is_valid(self, P):
        """True iff P is a proper group element in internal representation."""
        if not (isinstance(P, tuple) and len(P) == 2):
            return False
        x, y = P
        if not (0 <= x < self.p and 0 <= y < self.p):
            return False
        if not self.on_curve(P):
            return False
        return P == self.N or self.is_nonsquare(x)

    def is_neutral(self, P):
        return P == self.N

    def eq(self, P, Q):
        return P == Q

    def add(self, P, Q):
        return self._cadd(self._cadd(P, Q), self.N)

    def neg(self, P):
        return (P[0], (-P[1]) % self.p)

    def dbl(self, P):
        return self.add(P, P)

    def sub(self, P, Q):
        return self.add(P, self.neg(Q))

    def mul_slow(self, k, P):
        """k*P with group-level affine double-and-add only."""
        k %= self.r
        R = self.N
        for i in range(k.bit_length() - 1, -1, -1):
            R = self.add(R, R)
            if (k >> i) & 1:
                R = self.add(R, P)
        return R

    # -- fast path: Jacobian coordinates on the short Weierstrass model ----

    def _jdbl(self, P):
        if P is None:
            return None
        p = self.p
        X, Y, Z = P
        if Y == 0:
            return None
        YY = Y * Y % p
        S = 4 * X * YY % p
        ZZ = Z * Z % p
        M = (3 * X * X + self._A * (ZZ * ZZ % p)) % p
        X3 = (M * M - 2 * S) % p
        Y3 = (M * (S - X3) - 8 * YY * YY) % p
        Z3 = 2 * Y * Z % p
        return (X3, Y3, Z3)

    def _jmadd(self, P, Q):
        """Jacobian P + affine Q (short Weierstrass)."""
        if Q is None:
            return P
        if P is None:
            return (Q[0], Q[1], 1)
        p = self.p
        X1, Y1, Z1 = P
        x2, y2 = Q
        ZZ = Z1 * Z1 % p
        H = (x2 * ZZ - X1) % p
        R = (y2 * ZZ % p * Z1 - Y1) % p
        if H == 0:
            if R == 0:
                return self._jdbl(P)
            return None
        HH = H * H % p
        HHH = H * HH % p
        V = X1 * HH % p
        X3 = (R * R - HHH - 2 * V) % p
        Y3 = (R * (V - X3) - Y1 * HHH) % p
        Z3 = Z1 * H % p
        return (X3, Y3, Z3)

    def _jaffine(self, P):
        """Jacobian (short W.) -> affine point of the base curve."""
        if P is None:
            return None
        p = self.p
        X, Y, Z = P
        iz = pow(Z, -1, p)
        iz2 = iz * iz % p
        return ((X * iz2 - self._s) % p, Y * iz2 % p * iz % p)

    def _cmul(self, k, P):
        """Curve-level k*P (k >= 0), wNAF-5 + Jacobian."""
        if P is None or k == 0:
            return None
        p = self.p
        # odd multiples P, 3P, ..., 15P (affine, base curve), then shifted
        P2 = self._cadd(P, P)
        tab = [P]
        for _ in range(7):
            tab.append(self._cadd(tab[-1], P2))
        s = self._s
        tabp = [None if T is None else ((T[0] + s) % p, T[1]) for T in tab]
        tabn = [None if T is None else (T[0], p - T[1]) for T in tabp]
        digs = []
        while k:
            if k & 1:
                d = k & 31
                if d >= 16:
                    d -= 32
                k -= d
            else:
                d = 0
            digs.append(d)
            k >>= 1
        R = None
        jm = self._jmadd
        A = self._A if 2 * self._A < p else self._A - p
        for d in reversed(digs):
            if R is not None:
                # textbook Jacobian doubling (same as _jdbl, inlined)
                X, Y, Z = R
                if Y == 0:
                    R = None
                else:
                    YY = Y * Y % p
                    S = 4 * X * YY % p
                    ZZ = Z * Z % p
                    M = (3 * X * X + A * (ZZ * ZZ % p)) % p
                    X3 = (M * M - 2 * S) % p
                    R = (X3, (M * (S - X3) - 8 * YY * YY) % p, 2 * Y * Z % p)
            if d > 0:
                R = jm(R, tabp[d >> 1])
            elif d < 0:
                R = jm(R, tabn[(-d) >> 1])
        return self._jaffine(R)

    def mul(self, k, P):
        """Scalar multiplication k*P in the group (k any int, taken mod r)."""
        k %= self.r
        if k == 0 or P == self.N:
            return self.N
        Pr = self._cadd(P, self.N)            # r-torsion representative
        return self._cadd(self._cmul(k, Pr), self.N)

    def _build_gen_table(self):
        p, s = self.p, self._s
        tab = []
        Q = self._cadd(self.base, self.N)
        for _ in range(64):
            row = [None]
            T = None
            for _ in range(15):
                T = self._cadd(T, Q)
                row.append(((T[0] + s) % p, T[1]))
            tab.append(row)
            Q = self._cadd(T, Q)               # 16*Q
        self._gen_table = tab

    def mulgen(self, k):
        """k*base, with a lazily built fixed-base table."""
        k %= self.r
        if self._gen_table is None:
            self._build_gen_table()
        R = None
        i = 0
        while k:
            d = k & 15
            if d:
                R = self._jmadd(R, self._gen_table[i][d])
            k >>= 4
            i += 1
        return self._cadd(self._jaffine(R), self.N)

    # ------------------------------------------------------------------
    # (e,u) coordinates, encoding, decoding

    def eu_of_curve_point(self, P):
        """(e,u) of an arbitrary curve point (no sign normalisation).
        infinity -> (1,0); N -> (-1,0)."""
        p = self.p
        if P is None:
            return (1, 0)
        x, y = P
        if x == 0:
            return (p - 1, 0)
        u = x * pow(y, -1, p) % p
        e = u * u % p * (x - self.b * pow(x, -1, p)) % p
        return (e, u)

    def to_eu_raw(self, P):
        """(e,u) of the stored (non-r-torsion) point itself."""
        return self.eu_of_curve_point(P)

    def to_eu(self, P):
        """Canonical (e,u): the representative with e non-negative (even)."""
        e, u = self.eu_of_curve_point(P)
        if e & 1:
            e, u = self.p - e, (self.p - u) % self.p
        return (e, u)

    def eu_on_quartic(self, e, u):
        p = self.p
        uu = u * u % p
        return (e * e - (self.bp * uu % p * uu - 2 * self.a * uu + 1)) % p == 0

    def eu_equiv(self, eu1, eu2):
        """True iff two (e,u) pairs designate the same group element."""
        p = self.p
        e1, u1 = eu1[0] % p, eu1[1] % p
        e2, u2 = eu2[0] % p, eu2[1] % p
        return (e1, u1) == (e2, u2) or ((e1 + e2) % p == 0 and (u1 + u2) % p == 0)

    def from_eu(self, e, u):
        """Group element from affine (e,u) (either representative); None if
        (e,u) is not on the quartic e^2 = (a^2-4b)u^4 - 2a u^2 + 1."""
        p = self.p
        if not (0 <= e < p and 0 <= u < p):
            return None
        if not self.eu_on_quartic(e, u):
            return None
        if u == 0:
            return self.N                       # e = +1 or -1
        # (e+1)/u^2 = 2x + a
        x = ((e + 1) * pow(u * u, -1, p) - self.a) * pow(2, -1, p) % p
        y = x * pow(u, -1, p) % p
        P = (x, y)
        assert x != 0 and self.on_curve(P)
        if self.legendre(x) == 1:
            P = self._cadd(P, self.N)
        return P

    def encode(self, P):
        e, u = self.to_eu(P)
        return u.to_bytes(32, "little")

    def decode(self, buf):
        """STRICT decoding: 32 bytes, canonical u (< p, hence top bit 0),
        (a^2-4b)u^4 - 2a u^2 + 1 must be a square.  Zero -> neutral."""
        if not isinstance(buf, (bytes, bytearray, memoryview)):
            return None
        buf = bytes(buf)
        if len(buf) != 32:
            return None
        u = int.from_bytes(buf, "little")
        if u >= self.p:
            return None
        p = self.p
        uu = u * u % p
        ee = (self.bp * uu % p * uu - 2 * self.a * uu + 1) % p
        e = self.fsqrt(ee)
        if e is None:
            return None
        return self.from_eu(e, u)

    # ------------------------------------------------------------------
    # endomorphism (jq255e only)

    def zeta(self, P):
        """(e,u) -> (e, eta*u); on the base curve (x,y) -> (-x, eta*y)."""
        if self.eta is None:
            raise ValueError("no endomorphism on " + self.name)
        x, y = P
        return ((-x) % self.p, self.eta * y % self.p)

    # ------------------------------------------------------------------
    # map_to_curve / hash_to_curve

    def _from_dual(self, x, y):
        """theta_{1/2} isogeny from the dual curve y^2 = x(x^2 + a'x + b')
        to the base curve:  x' = 4*b*u^2, u' = 2*x/(u*(x^2 - b')), u = x/y."""
        p = self.p
        assert (y * y - x * (x * x + self.ap * x + self.bp)) % p == 0
        if y == 0:
            # x = 0: kernel of the isogeny -> neutral
            return self.N
        u = x * pow(y, -1, p) % p
        X = 4 * self.b * u * u % p
        U = 2 * x * pow(u * (x * x - self.bp), -1, p) % p
        Y = X * pow(U, -1, p) % p
        P = (X, Y)
        assert self.on_curve(P)
        return P

    def map_to_curve(self, f):
        f %= self.p
        if self.a == 0:
            return self._map_a0(f)
        return self._map_ell2(f)

    def _map_a0(self, f):
        """jq255e (a = 0, p = 1 mod 4).  Dual curve y^2 = x(x^2 + b').
        Candidates x1 = (4f^2 + (1-b'))/(4f), x2 = eta*(4f^2 - (1-b'))/(4f),
        x3 = x1*x2; first one whose y^2 is a square (zero counts).  Sign of
        y: y*yden is non-negative, yden = 8f^2 (x1, x2) or 64f^4 (x3)."""
        p = self.p
        if f == 0:
            return self.N
        bp = self.bp
        F = 4 * f * f % p
        i4f = pow(4 * f, -1, p)
        x1 = (F + (1 - bp)) * i4f % p
        x2 = self.eta * (F - (1 - bp)) % p * i4f % p
        x3 = x1 * x2 % p
        yden12 = 2 * F % p
        x = yy = yden = None
        for xc, yd in ((x1, yden12), (x2, yden12), (x3, yden12 * yden12 % p)):
            yyc = xc * (xc * xc + bp) % p
            if self.legendre(yyc) >= 0:
                x, yy, yden = xc, yyc, yd
                break
        assert x is not None
        y = self.fsqrt(yy)
        if (y * yden % p) & 1:
            y = p - y
        return self._from_dual(x, y)

    def _map_ell2(self, f):
        """jq255s (a' = 2, b' = -1, -1 non-square): Elligator2 on the dual
        curve with d = -1: x1 = -a'/(1 - f^2), x2 = -x1 - a' = a' f^2/(1-f^2).
        y = ynum/(1-f^2)^2 with ynum = +sqrt (x1 case) or -sqrt (x2 case),
        sqrt being the non-negative root."""
        p = self.p
        ff = f * f % p
        den = (1 - ff) % p
        if den == 0:
            return self.N
        iden = pow(den, -1, p)
        x1 = (-self.ap) * iden % p
        yy1 = x1 * (x1 * x1 + self.ap * x1 + self.bp) % p
        yden = den * den % p
        iyden = iden * iden % p
        if self.legendre(yy1) >= 0:
            x = x1
            ynum = self.fsqrt(yy1 * yden % p * yden % p)
        else:
            x = (-x1 - self.ap) % p
            yy2 = x * (x * x + self.ap * x + self.bp) % p
            ynum = self.fsqrt(yy2 * yden % p * yden % p)
            assert ynum is not None
            ynum = (-ynum) % p
        y = ynum * iyden % p
        return self._from_dual(x, y)

    def hash_to_curve(self, hash_name, data):
        if isinstance(hash_name, str):
            hash_name = hash_name.encode("utf-8")
        data = bytes(data)
        if len(hash_name) == 0:
            blob1 = _blake2s(b"\x01\x52", data)
            blob2 = _blake2s(b"\x02\x52", data)
        else:
            blob1 = _blake2s(b"\x01\x48", hash_name, b"\x00", data)
            blob2 = _blake2s(b"\x02\x48", hash_name, b"\x00", data)
        f1 = int.from_bytes(blob1, "little") % self.p
        f2 = int.from_bytes(blob2, "little") % self.p
        return self.add(self.map_to_curve(f1), self.map_to_curve(f2))

    # ------------------------------------------------------------------
    # scalars

    def scalar_decode_strict(self, buf):
        buf = bytes(buf)
        if len(buf) != 32:
            return None
        k = int.from_bytes(buf, "little")
        return k if k < self.r else None

    def scalar_decode_reduce(self, buf):
        return int.from_bytes(bytes(buf), "little") % self.r

    def scalar_encode(self, k):
        return (k % self.r).to_bytes(32, "little")

    # ------------------------------------------------------------------
    # keys, signatures, ECDH

    def private_decode(self, buf):
        """PrivateKey::decode: canonical non-zero scalar, else None."""
        d = self.scalar_decode_strict(buf)
        if d is None or d == 0:
            return None
        return d

    def public_from_private(self, d):
        d %= self.r
        if d == 0:
            raise ValueError("private scalar is zero")
        return self.mulgen(d)

    def public_decode(self, buf):
        """PublicKey::decode: valid and non-neutral, else None."""
        Q = self.decode(buf)
        if Q is None or Q == self.N:
            return None
        return Q

    def challenge(self, R, pk_bytes, hash_name, data):
        return _blake2s(self.encode(R), bytes(pk_bytes),
                        _hash_prefix(hash_name, data))[:16]

    def sign_nonce(self, d, pk_bytes, hash_name, data, seed=b""):
        seed = bytes(seed)
        h = _blake2s(self.scalar_encode(d), bytes(pk_bytes),
                     len(seed).to_bytes(8, "little"), seed,
                     _hash_prefix(hash_name, data))
        return int.from_bytes(h, "little") % self.r

    def sign(self, d, hash_name, data, seed=b""):
        """sign_seeded(seed, hash_name, data); sign() == empty seed."""
        d %= self.r
        if d == 0:
            raise ValueError("private scalar is zero")
        pk = self.encode(self.mulgen(d))
        k = self.sign_nonce(d, pk, hash_name, data, seed)
        R = self.mulgen(k)
        cb = self.challenge(R, pk, hash_name, data)
        c = int.from_bytes(cb, "little")
        s = (k + d * c) % self.r
        return cb + s.to_bytes(32, "little")

    def verify(self, Q, sig, hash_name, data):
        if isinstance(Q, (bytes, bytearray, memoryview)):
            pk = bytes(Q)
            Q = self.public_decode(pk)
            if Q is None:
                return False
        else:
            if Q == self.N or not self.is_valid(Q):
                return False
            pk = self.encode(Q)
        sig = bytes(sig)
        if len(sig) != 48:
            return False
        c = int.from_bytes(sig[:16], "little")
        s = self.scalar_decode_strict(sig[16:])
        if s is None:
            return False
        R = self.sub(self.mulgen(s), self.mul(c, Q))
        return self.challenge(R, pk, hash_name, data) == sig[:16]

    def ecdh(self, d, own_pub_bytes, peer_bytes):
        """Returns (key, ok).  Success: BLAKE2s(min(pk)||max(pk)||0x53||enc(d*Q)).
        Failure (invalid or neutral peer): the shared point encoding is
        replaced by the encoded private scalar and the tag byte by 0x46; if
        the peer slice is not 32 bytes long there is no ordering of the
        public keys (own first, then peer bytes verbatim)."""
        d %= self.r
        if own_pub_bytes is None:
            own_pub_bytes = self.encode(self.mulgen(d))
        own = bytes(own_pub_bytes)
        peer = bytes(peer_bytes)
        Q = self.decode(peer)
        ok = Q is not None and Q != self.N
        if ok:
            shared = self.encode(self.mul(d, Q))
            tag = b"\x53"
        else:
            shared = self.scalar_encode(d)
            tag = b"\x46"
        if len(peer) == 32:
            # own < peer (bytewise lexicographic, byte 0 most significant)
            if own < peer:
                pk1, pk2 = own, peer
            else:
                pk1, pk2 = peer, own
        else:
            pk1, pk2 = own, peer
        return (_blake2s(pk1, pk2, tag, shared), ok)


# ----------------------------------------------------------------------
# the two groups

JQ255E = DOGroup(
    "jq255e",
    p=2**255 - 18651, a=0, b=-2,
    r=2**254 - 131528281291764213006042413802501683931,
    base_eu=(3, 1),
    # square root of -1 modulo r such that mu*P == zeta(P) (constant MU of
    # crrl's split_mu test; == EU/EV mod r with the split_mu constants)
    mu=0x3304A73398CAEADB37382C8933C3F6D9B153382D88E2CF399C46EF0C23DF370D,
)

JQ255S = DOGroup(
    "jq255s",
    p=2**255 - 3957, a=-1, b=pow(2, -1, 2**255 - 3957),
    r=2**254 + 56904135270672826811114353017034461895,
    base_eu=(0x0F520B1BA747ADAC55E452A64612D10E6D7386B2348CC437104220CDA2789410, 3),
)

GROUPS = {"jq255e": JQ255E, "jq255s": JQ255S}


# ----------------------------------------------------------------------
# self-test

class _Tally:
    def __init__(self):
        self.counts = {}
        self.fails = []

    def check(self, cat, cond, msg=""):
        c = self.counts.setdefault(cat, [0, 0])
        c[0] += 1
        if not cond:
            c[1] += 1
            if len(self.fails) < 50:
                self.fails.append("%s: %s" % (cat, msg))


def _is_probable_prime(n):
    if n < 2:
        return False
    for q in (2, 3, 5, 7, 11, 13, 17, 19, 23, 29, 31, 37):
        if n % q == 0:
            return n == q
    d, s = n - 1, 0
    while d & 1 == 0:
        d >>= 1
        s += 1
    for a in (2, 3, 5, 7, 11, 13, 17, 19, 23, 29, 31, 37):
        x = pow(a, d, n)
        if x in (1, n - 1):
            continue
        for _ in range(s - 1):
            x = x * x % n
            if x == n - 1:
                break
        else:
            return False
    return True


def _selftest_group(G, K, T):
    H = bytes.fromhex
    g = G.name
    p, r = G.p, G.r

    # --- parameters ------------------------------------------------------
    c = g + "/params"
    T.check(c, _is_probable_prime(p), "p prime")
    T.check(c, _is_probable_prime(r), "r prime")
    T.check(c, G.is_valid(G.base) and G.base != G.N, "base valid")
    T.check(c, G._cmul_slow(r, G.base) == G.N, "r*B (curve) = N since r odd")
    T.check(c, G._cmul_slow(2 * r, G.base) is None, "2r*B (curve) = inf")
    T.check(c, G.mul_slow(r - 1, G.base) == G.neg(G.base), "(r-1)B = -B")
    T.check(c, G.add(G.mul_slow(r - 1, G.base), G.base) == G.N, "rB = neutral")
    T.check(c, G.to_eu(G.N) == (p - 1, 0), "neutral (e,u) = (-1,0)")
    T.check(c, G.encode(G.N) == bytes(32), "neutral encodes to zero")
    T.check(c, G.decode(bytes(32)) == G.N, "zero decodes to neutral")
    T.check(c, G.from_eu(1, 0) == G.N and G.from_eu(p - 1, 0) == G.N, "(+-1,0)")
    T.check(c, G.from_eu(2, 0) is None and G.from_eu(1, 1) is None, "bad eu")
    if g == "jq255e":
        T.check(c, G.eu_equiv(G.to_eu(G.base), (3, 1)), "base (3,1)")
        T.check(c, G.base == (2, 2), "base x,y = (2,2)")
    else:
        T.check(c, G.to_eu_raw(G.base)[1] in (3, p - 3), "base u=+-3")
    # short Weierstrass shift is consistent
    x, y = G.base
    X = (x + G._s) % p
    T.check(c, (y * y - (X * X * X + G._A * X + G._B)) % p == 0, "short W")

    # --- encode / decode -------------------------------------------------
    c = g + "/decode_ok"
    for h in K["KAT_DECODE_OK"]:
        b = H(h)
        Q = G.decode(b)
        ok = Q is not None and G.is_valid(Q) and G.encode(Q) == b
        if ok:
            e, u = G.to_eu(Q)
            ok = (e & 1) == 0 and G.eu_on_quartic(e, u) and G.from_eu(e, u) == Q \
                and G.from_eu((-e) % p, (-u) % p) == Q \
                and G.eu_equiv(G.to_eu_raw(Q), (e, u))
        T.check(c, ok, h)
    c = g + "/decode_bad"
    for h in K["KAT_DECODE_BAD"]:
        T.check(c, G.decode(H(h)) is None, h)
    c = g + "/decode_extra"
    T.check(c, G.decode(bytes(31)) is None and G.decode(bytes(33)) is None
            and G.decode(b"") is None, "length")
    T.check(c, G.decode(p.to_bytes(32, "little")) is None, "u = p")
    for h in K["KAT_DECODE_OK"][1:6]:
        b = bytearray(H(h))
        b[31] |= 0x80
        T.check(c, G.decode(bytes(b)) is None, "top bit set")
        # -u is the (canonical) encoding of the opposite element
        u = int.from_bytes(H(h), "little")
        T.check(c, G.decode(((p - u) % p).to_bytes(32, "little")) == G.neg(G.decode(H(h))), "-u")

    # --- base_arith -------------------------------------------------------
    c = g + "/base_arith"
    for row in K["KAT_ADD"]:
        bufs = [H(h) for h in row]
        P1, P2, P3, P4, P5, P6 = [G.decode(b) for b in bufs]
        ok = all(P is not None and G.is_valid(P) for P in (P1, P2, P3, P4, P5, P6))
        T.check(c, ok, "decode")
        if not ok:
            continue
        T.check(c, all(not G.eq(P1, X) for X in (P2, P3, P4, P5, P6)), "neq")
        Q3 = G.add(P1, P2)
        T.check(c, G.eq(Q3, P3) and G.encode(Q3) == bufs[2], "P1+P2")
        T.check(c, G.add(P2, P1) == P3, "commut")
        Q4 = G.dbl(P1)
        T.check(c, G.eq(Q4, P4) and G.encode(Q4) == bufs[3], "2*P1")
        T.check(c, G.add(P1, P1) == P4, "P1+P1")
        T.check(c, G.add(P4, P2) == P5 and G.encode(G.add(Q4, P2)) == bufs[4], "2P1+P2")
        T.check(c, G.add(P1, Q3) == P5, "P1+(P1+P2)")
        Q6 = G.dbl(Q3)
        T.check(c, Q6 == P6 and G.encode(Q6) == bufs[5], "2(P1+P2)")
        T.check(c, G.add(Q4, G.dbl(P2)) == P6, "2P1+2P2")
        T.check(c, G.add(P5, P2) == P6, "P5+P2")
        T.check(c, G.add(P6, G.N) == P6 and G.add(G.N, P6) == P6, "+neutral")
        T.check(c, G.sub(P3, P2) == P1 and G.sub(P3, P1) == P2, "sub")
        T.check(c, G.add(P1, G.neg(P1)) == G.N and G.sub(P2, P2) == G.N, "P-P")
        T.check(c, G.encode(G.neg(P1)) != bufs[0] and G.decode(G.encode(G.neg(P1))) == G.neg(P1), "neg")
        Tt = P6
        okx = True
        for j in range(10):
            S = G.mul(1 << j, P6)
            okx = okx and S == Tt and G.mul_slow(1 << j, P6) == Tt
            Tt = G.dbl(Tt)
        T.check(c, okx, "xdouble")
        # order
        T.check(c, G.mul(r, P1) == G.N and G.mul(r - 1, P2) == G.neg(P2), "order")

    # --- mulgen / mul ------------------------------------------------------
    c = g + "/mulgen_mul"
    sb, rb = K["MULGEN"]
    s = G.scalar_decode_strict(H(sb))
    T.check(c, s is not None, "scalar decodes")
    R = G.decode(H(rb))
    T.check(c, R is not None and G.mul(s, G.base) == R and G.encode(G.mul(s, G.base)) == H(rb), "B*s")
    T.check(c, G.mulgen(s) == R, "mulgen(s)")
    T.check(c, G.mul_slow(s, G.base) == R, "mul_slow(s,B)")
    sh = hashlib.sha256
    for i in range(20):
        s1 = int.from_bytes(sh((2 * i).to_bytes(8, "little")).digest(), "little") % r
        s2 = int.from_bytes(sh((2 * i + 1).to_bytes(8, "little")).digest(), "little") % r
        P1 = G.mulgen(s1)
        Q1 = G.mul(s1, G.base)
        T.check(c, P1 == Q1, "mulgen vs mul")
        T.check(c, G.mulgen(s1 * s2 % r) == G.mul(s2, Q1), "s2*(s1*B)")
    for i in range(20):
        v = [int.from_bytes(sh((3 * i + j).to_bytes(8, "little")).digest(), "little") % r for j in range(3)]
        A = G.mulgen(v[0])
        R1 = G.add(G.mul(v[1], A), G.mulgen(v[2]))
        T.check(c, R1 == G.mulgen((v[0] * v[1] + v[2]) % r), "u*A + v*B")
    c = g + "/mul_chain"
    Tt = G.mul(1 << 120, G.base)
    T.check(c, G.encode(Tt) == H(K["MUL_CHAIN"][0]), "2^120*B")
    t0 = time.time()
    for _ in range(1000):
        n = int.from_bytes(G.encode(Tt), "little") % r
        Tt = G.mul(n, Tt)
    dt = (time.time() - t0) / 1000
    T.check(c, G.encode(Tt) == H(K["MUL_CHAIN"][1]), "1000 chained muls")

    # --- affine vs fast cross-checks ---------------------------------------
    c = g + "/slow_vs_fast"
    seedp = G.hash_to_curve("", b"cross-check " + g.encode())
    for i in range(24):
        k = int.from_bytes(sh(b"xk" + bytes([i])).digest(), "little") % r
        if i < 8:
            k = (0, 1, 2, 3, r - 1, r - 2, (r + 1) // 2, 31)[i]
        P = G.mul(i + 1, seedp) if i & 1 else G.base
        A = G.mul(k, P)
        B = G.mul_slow(k, P)
        T.check(c, A == B and G.is_valid(A), "k=%d" % k)
        if P == G.base:
            T.check(c, G.mulgen(k) == A, "mulgen k=%d" % k)
    T.check(c, G.mul(5, G.N) == G.N and G.mul_slow(5, G.N) == G.N, "k*neutral")
    T.check(c, G.mul(-1, G.base) == G.neg(G.base) and G.mul(r + 2, G.base) == G.dbl(G.base), "k mod r")

    # --- map_to_curve --------------------------------------------------------
    c = g + "/map_to_curve"
    for fin, out in K["KAT_MAP_TO_CURVE"]:
        f = int.from_bytes(H(fin), "little") % p
        Q = G.map_to_curve(f)
        T.check(c, G.is_valid(Q) and G.encode(Q) == H(out), fin)
    c = g + "/map_to_curve_extra"
    for f in (0, 1, p - 1, 2, p - 2, 3, 7):
        Q = G.map_to_curve(f)
        T.check(c, G.is_valid(Q), "valid f=%d" % f)
    T.check(c, G.map_to_curve(0) == G.N, "f=0 -> neutral")
    for i in range(60):
        f = int.from_bytes(sh(b"mtc" + bytes([i])).digest(), "little") % p
        Q = G.map_to_curve(f)
        e, u = G.to_eu(Q)
        T.check(c, G.is_valid(Q) and G.decode(G.encode(Q)) == Q and G.from_eu(e, u) == Q
                and G.mul(r, Q) == G.N, "random f")
        if g == "jq255s":
            T.check(c, G.map_to_curve(p - f) == Q, "map(-f) == map(f)")
    if g == "jq255s":
        T.check(c, G.map_to_curve(1) == G.N and G.map_to_curve(p - 1) == G.N, "f=+-1 -> neutral")

    # --- hash_to_curve ---------------------------------------------------------
    c = g + "/hash_to_curve"
    data = bytes(range(100))
    for i, out in enumerate(K["KAT_HASH1"]):
        Q = G.hash_to_curve("", data[:i])
        T.check(c, G.encode(Q) == H(out), "raw %d" % i)
    for i, out in enumerate(K["KAT_HASH2"]):
        hv = hashlib.blake2s(bytes([i]), digest_size=32).digest()
        Q = G.hash_to_curve(G.HASHNAMES["BLAKE2S"], hv)
        T.check(c, G.encode(Q) == H(out), "blake2s %d" % i)

    # --- signatures ---------------------------------------------------------------
    c = g + "/signature"
    for skh, pkh, seedh, hvh, sigh in K["KAT_SIGN"]:
        d = G.private_decode(H(skh))
        T.check(c, d is not None, "sk decode")
        pk = G.public_decode(H(pkh))
        T.check(c, pk is not None and G.encode(G.public_from_private(d)) == H(pkh), "pk")
        T.check(c, G.mul(d, G.base) == pk and G.mul_slow(d, G.base) == pk, "pk slow")
        hv = H(hvh)
        sig = G.sign(d, "blake2s", hv, H(seedh))
        T.check(c, sig == H(sigh), "sign " + skh[:8])
        T.check(c, G.verify(H(pkh), sig, "blake2s", hv) is True, "verify bytes")
        T.check(c, G.verify(pk, sig, "blake2s", hv) is True, "verify point")
        hv2 = bytearray(hv)
        hv2[31] ^= 0x80
        T.check(c, G.verify(H(pkh), sig, "blake2s", bytes(hv2)) is False, "verify altered data")
        T.check(c, G.verify(H(pkh), sig, "", hv) is False, "verify other hash_name")
        bad = bytearray(sig)
        bad[20] ^= 1
        T.check(c, G.verify(H(pkh), bytes(bad), "blake2s", hv) is False, "verify altered s")
        bad = bytearray(sig)
        bad[3] ^= 1
        T.check(c, G.verify(H(pkh), bytes(bad), "blake2s", hv) is False, "verify altered c")
        # non-canonical s (s + r) must be rejected
        sv = int.from_bytes(sig[16:], "little") + r
        if sv < 1 << 256:
            T.check(c, G.verify(H(pkh), sig[:16] + sv.to_bytes(32, "little"), "blake2s", hv) is False, "s+r")
        T.check(c, G.verify(H(pkh), sig[:47], "blake2s", hv) is False
                and G.verify(H(pkh), sig + b"\0", "blake2s", hv) is False, "sig length")
        # R recomputation matches the nonce
        k = G.sign_nonce(d, H(pkh), "blake2s", hv, H(seedh))
        T.check(c, G.challenge(G.mul_slow(k, G.base), H(pkh), "blake2s", hv) == sig[:16], "nonce/challenge")
    c = g + "/signature_extra"
    d = 12345
    pkb = G.encode(G.public_from_private(d))
    for hn, msg in (("", b"raw message"), ("sha256", hashlib.sha256(b"m").digest()), ("", b"")):
        s1 = G.sign(d, hn, msg)
        T.check(c, s1 == G.sign(d, hn, msg, b"") and G.verify(pkb, s1, hn, msg), "det sign/verify")
        T.check(c, G.sign(d, hn, msg, b"\x00") != s1 and G.verify(pkb, G.sign(d, hn, msg, b"\x00"), hn, msg), "seeded")
    T.check(c, G.verify(bytes(32), G.sign(d, "", b"x"), "", b"x") is False, "neutral pk rejected")
    T.check(c, G.private_decode(bytes(32)) is None and G.private_decode(r.to_bytes(32, "little")) is None
            and G.private_decode((r - 1).to_bytes(32, "little")) == r - 1, "private_decode")

    # --- ECDH ------------------------------------------------------------------------
    c = g + "/ecdh"
    for skh, p1h, k1h, p2h, k2h in K["KAT_ECDH"]:
        d = G.private_decode(H(skh))
        own = G.encode(G.public_from_private(d))
        key1, ok1 = G.ecdh(d, own, H(p1h))
        T.check(c, ok1 is True and key1 == H(k1h), "valid peer " + skh[:8])
        key2, ok2 = G.ecdh(d, own, H(p2h))
        T.check(c, ok2 is False and key2 == H(k2h), "invalid peer " + skh[:8])
        T.check(c, G.ecdh(d, None, H(p1h)) == (key1, True), "own pk computed")
    c = g + "/ecdh_extra"
    d1, d2 = 0x1234567 % r, int.from_bytes(hashlib.sha256(b"d2").digest(), "little") % r
    pk1, pk2 = G.encode(G.mulgen(d1)), G.encode(G.mulgen(d2))
    ka, oka = G.ecdh(d1, pk1, pk2)
    kb, okb = G.ecdh(d2, pk2, pk1)
    T.check(c, oka and okb and ka == kb, "both sides agree")
    kz, okz = G.ecdh(d1, pk1, bytes(32))
    T.check(c, okz is False and kz == _blake2s(bytes(32), pk1, b"\x46", G.scalar_encode(d1)), "neutral peer")
    ks, oks = G.ecdh(d1, pk1, pk2[:31])
    T.check(c, oks is False and ks == _blake2s(pk1, pk2[:31], b"\x46", G.scalar_encode(d1)), "short peer")
    ke, oke = G.ecdh(d1, pk1, pk1)
    T.check(c, oke is True and ke == _blake2s(pk1, pk1, b"\x53", G.encode(G.mul(d1 * d1, G.base))), "peer == self")

    # --- endomorphism (jq255e) -------------------------------------------------------
    if G.eta is not None:
        c = g + "/endomorphism"
        mu = G.mu
        T.check(c, (mu * mu + 1) % r == 0, "mu^2 = -1 mod r")
        EU = 0x1A509F7A53C2C6E62ACCF9DEC93F6111
        EV = 0x7D440C6AFFBB3A930B7A31305466F77E
        T.check(c, mu == EU * pow(EV, -1, r) % r, "mu = EU/EV mod r")
        T.check(c, (G.eta * G.eta + 1) % p == 0 and G.eta & 1 == 0, "eta")
        T.check(c, G.eta == 0x10ED2DB33C69B85FE414983FE53688E3A60D864FB30E6336D99E0F1BAA938AEE, "eta value")
        pts = [G.base, seedp] + [G.decode(H(h)) for h in K["KAT_DECODE_OK"][1:9]]
        for P in pts:
            Z = G.zeta(P)
            e, u = G.to_eu_raw(P)
            T.check(c, G.is_valid(Z) and G.eu_equiv(G.to_eu(Z), (e, u * G.eta % p)), "zeta (e,u)->(e,eta*u)")
            T.check(c, G.mul(mu, P) == Z and G.mul_slow(mu, P) == Z, "mu*P == zeta(P)")
            T.check(c, G.zeta(Z) == G.neg(P), "zeta^2 = -1")
        T.check(c, G.zeta(G.N) == G.N, "zeta(neutral)")
        # split check: k = k0 + k1*mu with |k0|,|k1| < 2^127 (lattice rounding)
        for i in range(20):
            k = int.from_bytes(sh(i.to_bytes(8, "little")).digest(), "little") % r
            cc = (k * EV + r // 2) // r
            dd = (k * EU + r // 2) // r
            k0 = k - dd * EU - cc * EV
            k1 = dd * EV - cc * EU
            T.check(c, (k0 + k1 * mu - k) % r == 0 and abs(k0) < 1 << 127 and abs(k1) < 1 << 127, "split")
            P = pts[i % len(pts)]
            T.check(c, G.add(G.mul(k0, P), G.mul(k1, G.zeta(P))) == G.mul(k, P), "split mul")
    return dt


def selftest(verbose=True):
    path = os.path.join(os.path.dirname(os.path.abspath(__file__)), "ref_do_kats.json")
    with open(path) as f:
        kats = json.load(f)
    T = _Tally()
    timing = {}
    for name in ("jq255e", "jq255s"):
        timing[name] = _selftest_group(GROUPS[name], kats[name], T)
    total = bad = 0
    for cat in T.counts:
        n, f = T.counts[cat]
        total += n
        bad += f
        if verbose:
            print("%-28s %5d checks  %s" % (cat, n, "ok" if f == 0 else "%d FAILED" % f))
    if verbose:
        for name, dt in timing.items():
            print("%s: fast mul average %.3f ms" % (name, dt * 1e3))
        for m in T.fails:
            print("FAIL:", m)
        print("TOTAL %d checks, %d failed" % (total, bad))
    return bad == 0


if __name__ == "__main__":
    sys.exit(0 if selftest() else 1)
