"""C01 -- field arithmetic is exact for every element representation.

Events: (config, type, op, operand descriptors) -> canonical encoding printed
by the library. Oracle: Python integers / GF(2) polynomials on the constructor
arguments. Boundary classes are computed from the raw operands."""

import sys
import os

sys.path.insert(0, os.path.dirname(os.path.abspath(__file__)))

from common import *          # noqa
from fieldmodel import *      # noqa

UN_OPS = ["neg", "square", "half", "mul2", "mul4", "mul8", "mul16", "mul32"]
UN_MULT = {"mul2": 2, "mul4": 4, "mul8": 8, "mul16": 16, "mul32": 32, "mul3": 3, "mul21": 21, "set_mul21": 21}


def operand(rng, f, x):
    """(descriptor, value mod q, classes)"""
    return f.w(x, rng), x % f.q, classes_of_raw(f, x)


def solved_pair(rng, f, op):
    """Operands chosen so that the *result* (or the intermediate sum) lands on
    a boundary."""
    top = 1 << f.bits
    a = hostile_raw(rng, f)
    q = f.q
    if op == "add":
        t = rng.choice([top - 1, top, top + 1, 2 * q, 2 * q - 1, q, q - 1, q + 1, 2 * top - 2,
                        2 * top - 2 * (top - q) if top - q < top // 4 else top + 5,
                        top + (top % q), top + (top % q) - 1, 3 * q if 3 * q < 2 * top else q])
        t += rng.choice([0, 0, 1, -1, rng.randrange(64)])
        t = max(0, min(t, 2 * top - 2))
        b = t - a
        if not (0 <= b < top):
            a = rng.randrange(max(1, t - top + 1) if t >= top else 0, min(top, t + 1))
            b = t - a
        return a, b
    if op == "sub":
        d = rng.choice([0, 1, 2, rng.randrange(1 << 16), top - q, 2 * (top - q) if 2 * (top - q) < top else 1,
                        2 * (top - q) + 1 if 2 * (top - q) + 1 < top else 1, q, q - 1, q + 1, top - 1])
        if rng.randrange(2):
            b = a
            a = (b - d) % top if rng.randrange(3) else max(0, b - d)
            if rng.randrange(4) == 0:
                a, b = 0, d % top
        else:
            b = (a - d) % top
        return a, b
    if op == "mul":
        r = rng.choice([0, 1, q - 1, q - 2, 2, rng.randrange(1 << 20), q - rng.randrange(1 << 20)])
        av = a % q
        if av == 0 or not f.prime:
            return a, hostile_raw(rng, f)
        b = r * pow(av, -1, q) % q
        # re-represent b redundantly when the type allows it
        k = rng.randrange(0, max(1, top // q))
        if b + k * q < top:
            b += k * q
        return a, b
    return a, hostile_raw(rng, f)


def add_classes(f, a, b):
    top = 1 << f.bits
    c = []
    s = a + b
    if s >= top:
        c.append("sum>=2^w")
        fold2 = 2 * top - 2 * f.q if f.q.bit_length() == f.bits - 1 else top + (top - f.q)
        if s >= fold2:
            c.append("sum-second-fold")
    if s % f.q == 0 and s != 0:
        c.append("result-zero-nontrivial")
    return c


def sub_classes(f, a, b):
    top = 1 << f.bits
    c = []
    if a < b:
        c.append("borrow")
        if (a - b) % top < 2 * (top - f.q):
            c.append("re-borrow")
    if (a - b) % f.q == 0 and a != b:
        c.append("result-zero-nontrivial")
    return c


def mul_classes(f, a, b):
    c = []
    p = a * b
    if p >> (2 * f.bits - 64) == (1 << 64) - 1:
        c.append("product-top-limb-ones")
    r = p % f.q
    if r in (0, 1, f.q - 1):
        c.append("result-0/1/-1")
    return c


def solved_small(rng, f, x, xbits):
    """Raw value whose product by the small multiplier x generates a carry between two partial products at a chosen limb
    (lo(a_j*x) + hi(a_{j-1}*x) >= 2^W) and then propagates it through a run of following limbs (sums equal to 2^W - 1),
    for limb widths W = 64 and 32."""
    W = rng.choice([64, 64, 32])
    nl = f.bits // W
    M = (1 << W) - 1
    if x < 2 or nl < 3:
        return None
    e = (x & -x).bit_length() - 1
    o = x >> e
    limbs = [rng.getrandbits(W) for _ in range(nl)]
    j = rng.randrange(1, nl)
    limbs[j - 1] = M - rng.choice([0, 0, 1, rng.getrandbits(8)])
    hi = (limbs[j - 1] * x) >> W
    if hi == 0:
        return None
    # lo(a_j * x) in [2^W - hi, 2^W): generate
    r = rng.choice([1, hi, rng.randrange(1, hi + 1)])
    t = ((1 << W) - r) >> e << e
    if t + hi <= M:
        return None
    aj = ((t >> e) * pow(o, -1, 1 << (W - e))) % (1 << (W - e)) | (rng.getrandbits(e) << (W - e) if e else 0)
    limbs[j] = aj
    run = 0
    if e == 0:
        k = j + 1
        while k < nl and rng.randrange(3):
            hk = (limbs[k - 1] * x) >> W
            limbs[k] = ((M - hk) * pow(x, -1, 1 << W)) & M
            run += 1
            k += 1
    v = 0
    for i, l in enumerate(limbs):
        v |= l << (W * i)
    if f.kind in ("gfgen", "modint"):
        # Montgomery representation: the limbs chosen above are the internal ones
        if v >= f.q:
            return None
        v = v * pow(1 << (64 * f.nl), -1, f.q) % f.q
    return v, ["carry-generate-W%d" % W] + (["carry-propagate-run"] if run else []) + (["carry-at-top-limb"] if j + run == nl - 1 else [])


def solved_square_column(rng, f):
    """Raw value with three adjacent non-zero limbs (a0, a1, a2) chosen so that, in the schoolbook square, the 2W-bit column
    that receives the doubled cross products 2*a0*a1 (high part), 2*a0*a2 and 2*a1*a2 (low part) is all ones (or all ones minus a
    little): adding the square term and an incoming carry then ripples through the whole column. W = 32 or 64; the limbs are the
    internal ones (Montgomery representation undone for the Montgomery fields)."""
    W = rng.choice([32, 32, 64])
    nl = f.bits // W
    if nl < 4:
        return None
    M2 = (1 << (2 * W)) - 1
    a2 = rng.choice([1, 1, 2, 3])
    c = rng.randrange(1, 7)
    a1 = ((1 << W) - c) // (2 * a2)
    a1 += rng.choice([0, 0, 1, -1])
    if not (0 < a1 < (1 << W)):
        return None

    def col(a0):
        return ((2 * a0 * a1) >> W) + 2 * a0 * a2 + (((2 * a1 * a2) << W) & M2)
    target = M2 - rng.choice([0, 0, 0, 1, 2])
    base = (target - (((2 * a1 * a2) << W) & M2))
    if base <= 0:
        return None
    den = 2 * a2 + (2 * a1) / float(1 << W)
    a0 = int(base / den)
    best = None
    for d in range(-6, 7):
        x = a0 + d
        if 0 < x < (1 << W) and (col(x) & M2) >= M2 - 2 and col(x) <= M2 + 2:
            best = x
            if (col(x) & M2) == target:
                break
    if best is None:
        return None
    o = rng.randrange(0, nl - 2)
    v = (best << (W * o)) | (a1 << (W * (o + 1))) | (a2 << (W * (o + 2)))
    if rng.randrange(3) == 0 and o >= 1:
        v |= rng.getrandbits(W) << (W * (o - 1))
    if v >= (1 << f.bits):
        return None
    if f.kind in ("gfgen", "modint"):
        if v >= f.q:
            return None
        v = v * pow(1 << (64 * f.nl), -1, f.q) % f.q
    return v, ["square-column-all-ones-W%d" % W]


def gen_prime(rng, f, n):
    q = f.q
    top = 1 << f.bits
    T = "f %s " % f.name
    ringonly = "ringonly" in f.caps
    out = []
    ops = ["add", "sub", "mul", "un", "xsquare", "small", "from", "ctor", "chain", "reprind"]
    weights = [16, 16, 18, 14, 5, 8, 4, 4, 10, 5]
    if "noreduce" in f.caps:
        ops.append("noreduce")
        weights.append(6)
    if "mul_small" in f.caps:
        ops.append("lazy")
        weights.append(40)
    # directed cases first
    ones = top - 1
    directed = [("add", ones, ones), ("add", ones, 1), ("add", q, q), ("add", q - 1, 1), ("sub", 0, ones), ("sub", 0, 1),
                ("sub", 0, q), ("sub", q, 0), ("sub", 1, 2), ("mul", ones, ones), ("mul", q - 1, q - 1), ("mul", q, ones),
                ("mul", 0, ones), ("mul", q + 1, q + 1) if q + 1 < top else ("mul", 1, 1)]
    for (op, a, b) in directed:
        da, va, ca = operand(rng, f, a)
        db, vb, cb = operand(rng, f, b)
        if op == "add":
            r = (va + vb) % q; cl = add_classes(f, a, b)
        elif op == "sub":
            r = (va - vb) % q; cl = sub_classes(f, a, b)
        else:
            r = va * vb % q; cl = mul_classes(f, a, b)
        out.append(case1(T + op + " " + da + " " + db, "OK " + f.enc(r), ["%s:%s" % (op, c) for c in set(ca + cb + cl)] + ["directed"], "directed"))
    for _ in range(n):
        kind = rng.choices(ops, weights)[0]
        if kind in ("add", "sub", "mul"):
            if rng.randrange(3) == 0:
                a, b = solved_pair(rng, f, kind)
                tag = ["solved"]
            else:
                a, b = hostile_raw(rng, f), hostile_raw(rng, f)
                tag = []
            da, va, ca = operand(rng, f, a)
            db, vb, cb = operand(rng, f, b)
            opn = kind + rng.choice(["", "", "a"])
            if kind == "add":
                r = (va + vb) % q; cl = add_classes(f, a, b)
            elif kind == "sub":
                r = (va - vb) % q; cl = sub_classes(f, a, b)
            else:
                r = va * vb % q; cl = mul_classes(f, a, b)
            out.append(case1(T + opn + " " + da + " " + db, "OK " + f.enc(r),
                             ["%s:%s" % (kind, c) for c in set(ca + cb + cl + tag)], kind))
        elif kind == "un":
            cand = list(UN_OPS)
            for k in ("mul3", "mul21"):
                if k in f.caps:
                    cand.append(k)
            op = rng.choice(cand)
            if op == "mul21" and rng.randrange(2):
                op = "set_mul21"
            a = hostile_raw(rng, f)
            mfac = UN_MULT.get(op)
            solved = False
            if mfac and rng.randrange(3) == 0:
                # operand solved so that the product by the constant lands just below / on / above a multiple of 2^w or of q
                # (the fold of the overflow word then carries, or needs a second fold)
                kq = rng.randrange(1, mfac + 1)
                base = rng.choice([kq * top, kq * top - (top - q) * kq, kq * q, kq * top + (top - q)])
                a2 = (base + rng.choice([-1, 0, 1, -2, 2, -rng.randrange(1 << 34), rng.randrange(1 << 34)])) // mfac + rng.choice([0, 0, 1, -1])
                if 0 <= a2 < top:
                    a = a2; solved = True
            if op == "square" and rng.randrange(2):
                for _try in range(8):
                    sv = solved_square_column(rng, f)
                    if sv is not None:
                        a = sv[0]; solved = sv[1]
                        break
            da, va, ca = operand(rng, f, a)
            if solved is True:
                ca = ca + ["product-at-multiple-of-2^w-or-q"]
            elif solved:
                ca = ca + solved
            if op == "neg":
                r = -va % q
            elif op == "square":
                r = va * va % q
            elif op == "half":
                r = va * ((q + 1) // 2) % q
            else:
                r = va * UN_MULT[op] % q
            cl = list(ca)
            if op == "half" and (a & 1):
                cl.append("odd")
            if op in UN_MULT and a * UN_MULT[op] >= top:
                cl.append("overflow-w")
            out.append(case1(T + op + " " + da, "OK " + f.enc(r), ["%s:%s" % (op, c) for c in set(cl)], op))
        elif kind == "xsquare":
            a = hostile_raw(rng, f)
            da, va, ca = operand(rng, f, a)
            nsq = rng.choice([0, 1, 2, 3, 5, 31, 32, 33, 63, 64, 127, 200, 255, 256, rng.randrange(300)])
            r = va
            for _i in range(nsq):
                r = r * r % q
            out.append(case1(T + "xsquare %s %d" % (da, nsq), "OK " + f.enc(r),
                             ["xsquare:n=%s" % (nsq if nsq in (0, 1, 2, 255) else "other")] + ["xsquare:" + c for c in ca], "xsquare"))
        elif kind == "small":
            a = hostile_raw(rng, f)
            da, va, ca = operand(rng, f, a)
            if "mul_small" in f.caps:
                x = rng.choice([0, 1, 2, (1 << 32) - 1, (1 << 32) - 2, 1 << 31, (1 << 31) - 1, 1 << 16, 19, 38, 39081, 156326, 121665, 121666, rng.getrandbits(32),
                                rng.getrandbits(32) >> rng.randrange(32)])
                sc = []
                if rng.randrange(2):
                    sv = solved_small(rng, f, x, 32)
                    if sv is not None:
                        da, va, ca = operand(rng, f, sv[0]); sc = sv[1]
                out.append(case1(T + "mul_small %s %d" % (da, x), "OK " + f.enc(va * x),
                                 ["mul_small:x=max" if x == (1 << 32) - 1 else "mul_small:x"] + ["mul_small:" + c for c in ca + sc], "mul_small"))
            elif "mul_u16" in f.caps:
                x = rng.choice([0, 1, 2, 65535, 65534, 32768, 977, rng.getrandbits(16)])
                sc = []
                if rng.randrange(2):
                    sv = solved_small(rng, f, x, 16)
                    if sv is not None:
                        da, va, ca = operand(rng, f, sv[0]); sc = sv[1]
                out.append(case1(T + "mul_u16 %s %d" % (da, x), "OK " + f.enc(va * x),
                                 ["mul_u16:x=max" if x == 65535 else "mul_u16:x"] + ["mul_u16:" + c for c in ca + sc], "mul_u16", only=("!w32",)))
            else:
                out.append(case1(T + "mul3 " + da, "OK " + f.enc(va * 3), ["mul3:" + c for c in ca], "mul3"))
        elif kind == "from":
            ty, lo, hi = rng.choice([("i32", -(1 << 31), (1 << 31) - 1), ("u32", 0, (1 << 32) - 1), ("i64", -(1 << 63), (1 << 63) - 1),
                                     ("u64", 0, (1 << 64) - 1), ("i128", -(1 << 127), (1 << 127) - 1), ("u128", 0, (1 << 128) - 1)])
            v = rng.choice([lo, hi, lo + 1, hi - 1, 0, 1, -1 if lo < 0 else 2, rng.randrange(lo, hi + 1),
                            rng.randrange(lo, hi + 1) >> rng.randrange(1, 100)])
            v = max(lo, min(hi, v))
            out.append(case1(T + "from_%s %d" % (ty, v), "OK " + f.enc(v % q), ["from:" + ty + (":neg" if v < 0 else "")], "from"))
        elif kind == "ctor":
            a = hostile_raw(rng, f)
            k = rng.choice("wcWC")
            out.append(case1(T + "id " + k + f.limbs_hex(a), "OK " + f.enc(a % q), ["ctor:" + k] + ["ctor:" + c for c in classes_of_raw(f, a)], "ctor"))
        elif kind == "reprind":
            # representation independence: v, v+q, v+2q ... give identical results
            v = rng.randrange(q) if rng.randrange(3) else rng.choice([0, 1, q - 1, 2, q - 2])
            reps = [v + k * q for k in range(0, 6) if v + k * q < top]
            b = hostile_raw(rng, f)
            db, vb, _ = operand(rng, f, b)
            op = rng.choice(["add", "sub", "mul", "square", "neg", "half", "mul2", "mul32"])
            lines, exp = [], []
            for x in reps:
                dx = f.w(x, rng)
                if op in ("add", "sub", "mul"):
                    lines.append(T + op + " " + dx + " " + db)
                    r = {"add": v + vb, "sub": v - vb, "mul": v * vb}[op] % q
                else:
                    lines.append(T + op + " " + dx)
                    r = {"square": v * v, "neg": -v, "half": v * ((q + 1) // 2), "mul2": 2 * v, "mul32": 32 * v}[op] % q
                exp.append("OK " + f.enc(r))
            out.append(Case(lines, exp, ["reprind:%d-reps" % len(reps)], "reprind"))
        elif kind == "lazy":
            # two or three cheap operations in a row: the first may leave limbs that are not fully carried (large
            # mul_small, additions, doublings), the second takes a fast path whose bound analysis must still hold
            a = hostile_raw(rng, f) if rng.randrange(3) else rng.getrandbits(f.bits)
            da, va, _ = operand(rng, f, a)
            lines = [T + "id >0 " + da]; exp = ["OK " + f.enc(va)]
            cur = va
            BIG = [0xFFFFFFFF, 0xFFFFFFFE, 0xFFFFFFFD, (1 << 31), (1 << 31) + 1, (1 << 32) - (1 << 16), rng.getrandbits(32) | (1 << 31)]
            THR = [4095, 4096, 8191, 8192, 16383, 16384, 32767, 32768, 65535, 65536] + [rng.getrandbits(13) for _ in range(6)] + [rng.getrandbits(14), rng.getrandbits(15), rng.getrandbits(16), rng.getrandbits(12)]
            nsteps = rng.choice([2, 2, 3])
            for st in range(nsteps):
                if st == 0:
                    o = rng.choice(["mul_small_big", "mul_small_big", "mul_small_big", "add", "sub", "mul32", "mul16", "neg"])
                else:
                    o = rng.choice(["mul_small_thr", "mul_small_thr", "mul_small_thr", "mul_small_thr", "mul_small_big", "mul32", "mul8", "half", "mul2", "square"])
                if o == "mul_small_big":
                    x = rng.choice(BIG); cur = cur * x % q; lines.append(T + "mul_small >0 $0 %d" % x)
                elif o == "mul_small_thr":
                    x = rng.choice(THR); cur = cur * x % q; lines.append(T + "mul_small >0 $0 %d" % x)
                elif o in ("add", "sub"):
                    b = hostile_raw(rng, f); db, vb, _ = operand(rng, f, b)
                    cur = (cur + vb) % q if o == "add" else (cur - vb) % q
                    lines.append(T + "%s >0 $0 %s" % (o, db))
                elif o == "neg":
                    cur = -cur % q; lines.append(T + "neg >0 $0")
                elif o == "half":
                    cur = cur * ((q + 1) // 2) % q; lines.append(T + "half >0 $0")
                elif o == "square":
                    cur = cur * cur % q; lines.append(T + "square >0 $0")
                else:
                    cur = cur * UN_MULT[o] % q; lines.append(T + "%s >0 $0" % o)
                exp.append("OK " + f.enc(cur))
            out.append(Case(lines, exp, ["lazy:%d-steps" % nsteps], "lazy-carry sequence"))
        elif kind == "noreduce":
            a, b, c, d = (hostile_raw(rng, f) for _ in range(4))
            # The "not reduced" family documents that operands are normal field
            # elements; results are only used as multiplication operands.
            da, va, _ = operand(rng, f, a)
            db, vb, _ = operand(rng, f, b)
            dc, vc, _ = operand(rng, f, c)
            dd, vd, _ = operand(rng, f, d)
            op = rng.choice(["nr_add_mul", "nr_sub_mul", "nr_mul2_mul", "nr_add_sq", "nr_sub_sq", "nr_addsub_mul",
                             "nr_m2a_m2s", "nr_add_addsub", "nr_sub_subadd2", "nr_add8_sub8"])
            if op == "nr_add8_sub8":
                # public in the 51-bit-limb backend only
                out.append(case1(T + op + " %s %s %s" % (da, db, dc), "OK " + f.enc((va + 8 * vb) * vc) + " " + f.enc((va - 8 * vb) * vc),
                                 ["noreduce:" + op], "noreduce", only=("m51",)))
                continue
            if op == "nr_add_mul":
                ln, ex = "%s %s %s" % (da, db, dc), f.enc((va + vb) * vc)
            elif op == "nr_sub_mul":
                ln, ex = "%s %s %s" % (da, db, dc), f.enc((va - vb) * vc)
            elif op == "nr_mul2_mul":
                ln, ex = "%s %s" % (da, dc), f.enc(2 * va * vc)
            elif op == "nr_add_sq":
                ln, ex = "%s %s" % (da, db), f.enc((va + vb) ** 2)
            elif op == "nr_sub_sq":
                ln, ex = "%s %s" % (da, db), f.enc((va - vb) ** 2)
            elif op == "nr_addsub_mul":
                ln, ex = "%s %s" % (da, db), f.enc((va + vb) * (va - vb))
            elif op == "nr_m2a_m2s":
                ln, ex = "%s %s %s" % (da, db, dc), f.enc((2 * va + vb) * vc) + " " + f.enc((2 * va - vb) * vc)
            elif op == "nr_add_addsub":
                ln, ex = "%s %s %s %s" % (da, db, dc, dd), f.enc((va + vb) * vd) + " " + f.enc((va + vb - vc) * vd)
            else:
                ln, ex = "%s %s %s %s" % (da, db, dc, dd), f.enc((va - vb) * vd) + " " + f.enc((va - vb + 2 * vc) * vd)
            out.append(case1(T + op + " " + ln, "OK " + ex, ["noreduce:" + op], "noreduce"))
        else:  # chain: results (library-produced representations) re-used as operands
            ln = rng.randrange(2, 9)
            regs = {}
            lines, exp = [], []
            a = hostile_raw(rng, f)
            da, va, _ = operand(rng, f, a)
            lines.append(T + "id >0 " + da); exp.append("OK " + f.enc(va)); regs[0] = va
            for step in range(ln):
                op = rng.choice(["add", "sub", "mul", "square", "neg", "half", "mul2", "mul4", "mul8", "mul16", "mul32", "adda", "suba", "mula"]
                                + (["mul_small", "mul_small"] if "mul_small" in f.caps else []) + (["mul3"] if "mul3" in f.caps else []))
                dst = rng.randrange(4)
                s1 = rng.choice(list(regs))
                if op == "mul_small":
                    # small multipliers around the internal thresholds of the backends, applied to library-produced
                    # (possibly not fully carried) representations
                    xk = rng.choice([0xFFFFFFFF, 0xFFFFFFFE, 1 << 31, (1 << 31) - 1, 7655, 7656, 7657, 8190, 8191, 8192, 8193, 16383, 16384, 32767, 32768,
                                     65535, 65536, (1 << 20) - 1, 19, 38, 1, 0, rng.getrandbits(13), rng.getrandbits(14), rng.getrandbits(32)])
                    r = regs[s1] * xk % q
                    lines.append(T + "mul_small >%d $%d %d" % (dst, s1, xk))
                    regs[dst] = r
                    exp.append("OK " + f.enc(r))
                    continue
                if op == "mul3":
                    r = regs[s1] * 3 % q
                    lines.append(T + "mul3 >%d $%d" % (dst, s1))
                    regs[dst] = r
                    exp.append("OK " + f.enc(r))
                    continue
                if op in ("add", "sub", "mul", "adda", "suba", "mula"):
                    if rng.randrange(2):
                        s2 = rng.choice(list(regs)); d2 = "$%d" % s2; v2 = regs[s2]
                    else:
                        b = hostile_raw(rng, f); d2, v2, _ = operand(rng, f, b)
                    base = op.rstrip("a") if op.endswith("a") and op != "add" and op != "adda"[:3] else op
                    base = {"adda": "add", "suba": "sub", "mula": "mul"}.get(op, op)
                    r = {"add": regs[s1] + v2, "sub": regs[s1] - v2, "mul": regs[s1] * v2}[base] % q
                    lines.append(T + "%s >%d $%d %s" % (op, dst, s1, d2))
                else:
                    v1 = regs[s1]
                    r = {"square": v1 * v1, "neg": -v1, "half": v1 * ((q + 1) // 2), "mul2": 2 * v1, "mul4": 4 * v1,
                         "mul8": 8 * v1, "mul16": 16 * v1, "mul32": 32 * v1}[op] % q
                    lines.append(T + "%s >%d $%d" % (op, dst, s1))
                regs[dst] = r
                exp.append("OK " + f.enc(r))
            out.append(Case(lines, exp, ["chain:len%d" % ln], "chain"))
    return out


def gen_binary(rng, n):
    out = []
    ops127 = ["add", "sub", "mul", "square", "xsquare", "neg", "mul_sb", "mul_b", "div_z", "div_z2", "id", "bit", "chain"]
    SB = (1 << 27) | 1
    BB = (1 << 54) | 1
    zi = b127_inv(2)
    for _ in range(n):
        if rng.randrange(2):
            # GF(2^127)
            T = "f gfb127 "
            op = rng.choice(ops127)
            a = hostile_b128(rng); b = hostile_b128(rng)
            va, vb = b127_red(a), b127_red(b)
            da = "w" + a.to_bytes(16, "little").hex(); db = "w" + b.to_bytes(16, "little").hex()
            cl = []
            if a >> 127: cl.append("bit127-set")
            if op in ("add", "sub"):
                out.append(case1(T + op + " %s %s" % (da, db), "OK " + b127_enc(va ^ vb), ["b127:" + op] + ["b127:" + c for c in cl]))
            elif op == "mul":
                out.append(case1(T + rng.choice(["mul", "mula"]) + " %s %s" % (da, db), "OK " + b127_enc(b127_mul(va, vb)), ["b127:mul"] + ["b127:mul-" + c for c in cl]))
            elif op == "square":
                out.append(case1(T + "square " + da, "OK " + b127_enc(b127_sq(va)), ["b127:square"] + ["b127:sq-" + c for c in cl]))
            elif op == "xsquare":
                k = rng.choice([0, 1, 2, 63, 64, 126, 127, 128, rng.randrange(200)])
                r = va
                for _i in range(k):
                    r = b127_sq(r)
                out.append(case1(T + "xsquare %s %d" % (da, k), "OK " + b127_enc(r), ["b127:xsquare"]))
            elif op == "neg":
                out.append(case1(T + "neg " + da, "OK " + b127_enc(va), ["b127:neg"]))
            elif op == "mul_sb":
                out.append(case1(T + "mul_sb " + da, "OK " + b127_enc(b127_mul(va, SB)), ["b127:mul_sb"]))
            elif op == "mul_b":
                out.append(case1(T + "mul_b " + da, "OK " + b127_enc(b127_mul(va, BB)), ["b127:mul_b"]))
            elif op == "div_z":
                out.append(case1(T + "div_z " + da, "OK " + b127_enc(b127_mul(va, zi)), ["b127:div_z"]))
            elif op == "div_z2":
                out.append(case1(T + "div_z2 " + da, "OK " + b127_enc(b127_mul(va, b127_sq(zi))), ["b127:div_z2"]))
            elif op == "id":
                out.append(case1(T + "id " + da, "OK " + b127_enc(va), ["b127:ctor"] + ["b127:ctor-" + c for c in cl]))
            elif op == "bit":
                k = rng.choice([0, 0, 1, 31, 32, 62, 63, 63, 64, 126]) if rng.randrange(2) else rng.randrange(127)
                w = rng.choice(["get_bit", "set_bit", "xor_bit"])
                if w == "get_bit":
                    out.append(case1(T + "get_bit %s %d" % (da, k), "OK %08x" % ((va >> k) & 1), ["b127:get_bit"] + ["b127:bit-" + c for c in cl]))
                else:
                    val = rng.choice([0, 1, 2, 3, 0xFFFFFFFF, 0xFFFFFFFE])
                    if w == "set_bit":
                        r = (va & ~(1 << k)) | ((val & 1) << k)
                    else:
                        r = va ^ ((val & 1) << k)
                    out.append(case1(T + "%s %s %d %d" % (w, da, k, val), "OK " + b127_enc(r), ["b127:" + w] + ["b127:bit-" + c for c in cl]))
            else:
                lines = [T + "id >0 " + da]; exp = ["OK " + b127_enc(va)]; regs = {0: va}
                for _s in range(rng.randrange(2, 7)):
                    o = rng.choice(["add", "mul", "square", "mul_sb", "div_z"])
                    s1 = rng.choice(list(regs)); d = rng.randrange(3)
                    if o in ("add", "mul"):
                        s2 = rng.choice(list(regs))
                        r = regs[s1] ^ regs[s2] if o == "add" else b127_mul(regs[s1], regs[s2])
                        lines.append(T + "%s >%d $%d $%d" % (o, d, s1, s2))
                    else:
                        r = {"square": b127_sq(regs[s1]), "mul_sb": b127_mul(regs[s1], SB), "div_z": b127_mul(regs[s1], zi)}[o]
                        lines.append(T + "%s >%d $%d" % (o, d, s1))
                    regs[d] = r; exp.append("OK " + b127_enc(r))
                out.append(Case(lines, exp, ["b127:chain"]))
        else:
            T = "f gfb254 "
            op = rng.choice(["add", "mul", "square", "xsquare", "mul_u", "mul_u1", "mul_sb", "mul_b", "div_z", "div_z2", "mul_b127", "mul_selfphi", "comp", "id", "neg"])
            a = (hostile_b128(rng), hostile_b128(rng)); b = (hostile_b128(rng), hostile_b128(rng))
            va = (b127_red(a[0]), b127_red(a[1])); vb = (b127_red(b[0]), b127_red(b[1]))
            k = rng.choice("wbB")
            da = k + a[0].to_bytes(16, "little").hex() + a[1].to_bytes(16, "little").hex()
            db = "w" + b[0].to_bytes(16, "little").hex() + b[1].to_bytes(16, "little").hex()
            cl = ["b254:" + op]
            if (a[0] >> 127) or (a[1] >> 127): cl.append("b254:%s-bit127" % op)
            if op == "add":
                out.append(case1(T + "add %s %s" % (da, db), "OK " + b254_enc(b254_add(va, vb)), cl))
            elif op == "mul":
                out.append(case1(T + rng.choice(["mul", "mula"]) + " %s %s" % (da, db), "OK " + b254_enc(b254_mul(va, vb)), cl))
            elif op == "square":
                out.append(case1(T + "square " + da, "OK " + b254_enc(b254_sq(va)), cl))
            elif op == "xsquare":
                kk = rng.choice([0, 1, 2, 127, 253, 254, rng.randrange(100)])
                r = va
                for _i in range(kk):
                    r = b254_sq(r)
                out.append(case1(T + "xsquare %s %d" % (da, kk), "OK " + b254_enc(r), cl))
            elif op == "mul_u":
                out.append(case1(T + "mul_u " + da, "OK " + b254_enc(b254_mul(va, (0, 1))), cl))
            elif op == "mul_u1":
                out.append(case1(T + "mul_u1 " + da, "OK " + b254_enc(b254_mul(va, (1, 1))), cl))
            elif op == "mul_sb":
                out.append(case1(T + "mul_sb " + da, "OK " + b254_enc(b254_mul(va, (SB, 0))), cl))
            elif op == "mul_b":
                out.append(case1(T + "mul_b " + da, "OK " + b254_enc(b254_mul(va, (BB, 0))), cl))
            elif op == "div_z":
                out.append(case1(T + "div_z " + da, "OK " + b254_enc(b254_mul(va, (zi, 0))), cl))
            elif op == "div_z2":
                out.append(case1(T + "div_z2 " + da, "OK " + b254_enc(b254_mul(va, (b127_sq(zi), 0))), cl))
            elif op == "mul_b127":
                y = hostile_b128(rng)
                out.append(case1(T + "mul_b127 %s %s" % (da, y.to_bytes(16, "little").hex()), "OK " + b254_enc(b254_mul(va, (b127_red(y), 0))), cl))
            elif op == "mul_selfphi":
                # x * phi(x) where phi is the Frobenius conjugate: the norm x0^2 + x0 x1 + x1^2
                nrm = b127_mul(va[0], va[0]) ^ b127_mul(va[0], va[1]) ^ b127_mul(va[1], va[1])
                out.append(case1(T + "mul_selfphi " + da, "OK " + b127_enc(nrm), cl))
            elif op == "comp":
                out.append(case1(T + "to_components " + da, "OK " + b127_enc(va[0]) + " " + b127_enc(va[1]), cl))
            elif op == "neg":
                out.append(case1(T + "neg " + da, "OK " + b254_enc(va), cl))
            else:
                out.append(case1(T + "id " + da, "OK " + b254_enc(va), cl))
    return out


def gen(rng, shard, nshards, names, n_per_field, n_binary):
    cases = []
    for nm in names:
        f = FIELDS[nm]
        f.prime = "ringonly" not in f.caps
        cs = gen_prime(rng, f, n_per_field)
        if f.configs:
            for c in cs:
                c.only = tuple(c.only or ()) + tuple(f.configs)
        cases.extend(cs)
    if n_binary:
        cases.extend(gen_binary(rng, n_binary))
    return vary_forms(cases, rng)


QUICK_CONFIGS = ["default", "m51", "w32", "clmul", "avx2"]


def main(argv):
    a = parse_args(argv)
    if a.replay:
        return do_replay(a.replay)
    rep = Report("C01", a.tier, a.seed)
    rep.rule = ("seeded hostile operand generator (limb patterns, anchors around 0/q/2q/2^w, solved operands that put the sum/"
                "difference/product on a boundary, chains re-using library-produced representations, representation-"
                "independence batches v,v+q,v+2q); an event = one library call whose canonical output is compared with Python "
                "integer / GF(2)-polynomial arithmetic; distinct_nontrivial = distinct request transcripts that fall in at "
                "least one boundary class (carry/fold/borrow/top-bit/operand>=q/...)")
    rep.assumptions = ["Python int arithmetic and the moduli constants in fieldmodel.py (cross-checked against MINUS_ONE of each type at start)",
                       "host CPU executes the same instructions a user would get for this build configuration"]
    names = list(FIELDS)
    try:
        if a.tier == "quick":
            cfgs = (a.configs.split(",") if a.configs else QUICK_CONFIGS)
            per = int(50000 * a.scale)
            nbin = int(100000 * a.scale)
        else:
            cfgs = (a.configs.split(",") if a.configs else ALL_CONFIGS)
            per = int(1000000 * a.scale)
            nbin = int(2000000 * a.scale)
        exes = build_many(cfgs)
        # sanity: moduli constants agree with the library (q-1 == MINUS_ONE)
        for c in cfgs:
            nms = [n for n in names if not (FIELDS[n].configs and c == "w32")]
            lines = ["f %s enc m1" % n for n in nms]
            out, _ = run_exec(exes[c], lines)
            for n, r in zip(nms, out):
                if r != "OK " + FIELDS[n].enc(FIELDS[n].q - 1):
                    raise Inconclusive("modulus constant mismatch for %s on %s: %s" % (n, c, r))
        m = run_rounds(1 if a.tier == "quick" else 3, "c01", "gen", (names, per // NCPU + 1, nbin // NCPU + 1), [(c, exes[c]) for c in cfgs], a.seed,
                       split=1 if a.tier == "quick" else 6, count_idx=(1, 2))
        rep.merge(m)
        rep.require("add:sum>=2^w", "add:sum-second-fold", "sub:borrow", "sub:re-borrow", "mul:operand>=q", "add:operand>=2q",
                    "mul:topbit", "mul:result-0/1/-1", "b127:mul-bit127-set", "xsquare:n=255", "mul_small:x=max", "chain:len8", "lazy:2-steps")
    except Inconclusive as e:
        rep.incon.append(str(e))
    return rep.finish()


if __name__ == "__main__":
    sys.exit(main(sys.argv[1:]))
