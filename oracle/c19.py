"""C19 -- decoding and verification are total: no panic, hang or out-of-bounds.

The untrusted-input requests of the other monitors plus a byte-level generator
for every decode / verify entry point (lengths 0..4 KiB, structure-aware
mutations of valid objects) are executed under several instruments:
  checked  -- opt-level 1 with overflow checks and debug assertions (arithmetic
              overflow / debug_assert become PANIC events)
  asan     -- AddressSanitizer build (nightly)            [thorough, and quick on a slice]
  memcheck -- valgrind on the release binary               [slice]
  miri     -- interpreter, aliasing model off              [thorough, tiny slice]
Oracle: no PANIC event, no sanitizer report, lattice step counter within
budget, every status word exactly 00000000 or ffffffff, and the reference
expectation of the home property where there is one."""

import sys
import os
import re
import random
import subprocess
import tempfile
import time
import multiprocessing as mp
import traceback
import hashlib

sys.path.insert(0, os.path.dirname(os.path.abspath(__file__)))

from common import *          # noqa
import fieldmodel
import groups as G

STATUS_OPS = {
    # op -> indices (in the OK token list, 0 = "OK") that are status words
    "decode_ct": [-1], "set_decode_ct": [-1], "decode32": [-1], "sqrt": [-1], "sqrt_ext": [-1], "equals": [1], "iszero": [1],
    "isneutral": [1], "has_low_order": [1], "is_in_subgroup": [1], "set_decode": [1, 3], "ecdh": [-1], "to_affine": [-1],
    "from_affine": [1], "from_projective": [1],
}
HASHNAMES = ["-", "sha224", "sha256", "sha384", "sha512", "sha512224", "sha512256", "sha3224", "sha3256", "sha3384", "sha3512", "blake2b", "blake2s", "blake3"]


def rb(rng, n):
    return bytes(rng.getrandbits(8) for _ in range(n))


def hx(b):
    return b.hex() if b else "-"


def rlen(rng, around=None):
    t = rng.randrange(8)
    if around is not None and t < 4:
        return max(0, around + rng.choice([0, 0, 0, 1, -1, 2, -2]))
    if t == 4:
        return rng.choice([0, 1, 2, 3])
    if t == 5:
        return rng.choice([255, 256, 257, 1023, 1024, 4095, 4096])
    return rng.randrange(0, 200)


def rbytes(rng, n):
    t = rng.randrange(5)
    if t == 0:
        return bytes(n)
    if t == 1:
        return b"\xff" * n
    if t == 2:
        return bytes([rng.choice([0, 0xff, 0x80, 0x7f, 1])] * n)
    return rb(rng, n)


def mutate(rng, b):
    b = bytearray(b)
    t = rng.randrange(8)
    if t == 0 and b:
        b[rng.randrange(len(b))] ^= 1 << rng.randrange(8)
    elif t == 1 and b:
        b[rng.randrange(len(b))] = rng.choice([0, 0xff, 0x80])
    elif t == 2:
        b = b[:rng.randrange(len(b) + 1)]
    elif t == 3:
        b += rbytes(rng, rng.choice([1, 2, 32]))
    elif t == 4 and b:
        i = rng.randrange(len(b)); j = rng.randrange(i, len(b) + 1)
        b[i:j] = rbytes(rng, j - i)
    elif t == 5 and len(b) >= 2:
        i = rng.randrange(len(b) - 1)
        b[i], b[i + 1] = b[i + 1], b[i]
    elif t == 6:
        b = bytearray(rbytes(rng, len(b)))
    return bytes(b)


FROST_POINT_OFFS = {"group_pk": lambda n: [0], "share": lambda n: [64], "signer_pk": lambda n: [32], "vss_list": lambda n: list(range(0, n, 33)),
                    "commitment": lambda n: [32, 65], "commitment_list": lambda n: [k + o for k in range(0, n, 98) for o in (32, 65)], "signature": lambda n: [0]}


def altform(rng, suite, ty, val):
    """A well-formed object in which one embedded point is re-encoded in another *valid* format of the same curve (SEC1 uncompressed,
    hybrid, or the one-byte point at infinity): decoders that accept several formats internally must still refuse the object, not
    copy it into a fixed-size buffer."""
    if suite not in ("p256", "secp256k1") or ty not in FROST_POINT_OFFS:
        return None
    offs = [o for o in FROST_POINT_OFFS[ty](len(val)) if o + 33 <= len(val)]
    if not offs:
        return None
    C = G.GROUPS[suite].C
    off = rng.choice(offs)
    P = C.decode(val[off:off + 33])
    if P is None or C.is_inf(P):
        return None
    unc = C.encode_uncompressed(P)
    t = rng.randrange(6)
    if t < 3:
        alt = unc
    elif t == 3:
        alt = bytes([6 + (unc[64] & 1)]) + unc[1:]
    elif t == 4:
        alt = b"\x00"
    else:
        alt = unc[:33]
    return val[:off] + alt + val[off + 33:]


def byte_level(rng, n, frost_objs, lms_objs):
    """requests with arbitrary byte strings for every decode / verify entry point"""
    L = []
    fnames = list(fieldmodel.FIELDS)
    for _ in range(n):
        t = rng.randrange(12)
        if t == 0:
            f = fieldmodel.FIELDS[rng.choice(fnames)]
            if f.configs:
                continue
            op = rng.choice(["decode_ct", "set_decode_ct", "decode", "decode_reduce", "set_decode_reduce"] + (["decode32"] if "decode32" in f.caps else []))
            L.append("f %s %s %s" % (f.name, op, hx(rbytes(rng, rlen(rng, f.enc_len)))))
        elif t == 1:
            T = rng.choice(["gfb127", "gfb254"])
            L.append("f %s %s %s" % (T, rng.choice(["decode_ct", "set_decode_ct", "decode"]), hx(rbytes(rng, rlen(rng, 16 if T == "gfb127" else 32)))))
        elif t == 2:
            cn = rng.choice(G.ALL_CURVES)
            g = G.GROUPS[cn]
            el = {"ed25519": 32, "ed448": 57, "ristretto255": 32, "decaf448": 56, "p256": rng.choice([1, 33, 65]), "secp256k1": rng.choice([1, 33, 65]),
                  "jq255e": 32, "jq255s": 32, "gls254": 32}[cn]
            b = rbytes(rng, rlen(rng, el))
            if cn in ("p256", "secp256k1") and b and rng.randrange(2):
                b = bytes([rng.choice([0, 2, 3, 4, 6, 7])]) + b[1:]
            L.append("g %s %s %s" % (cn, rng.choice(["decode", "set_decode"]), hx(b)))
        elif t == 3:
            cn = rng.choice(["jq255e", "jq255s", "gls254"])
            L.append("g %s hash_to_curve %s %s" % (cn, rng.choice(HASHNAMES), hx(rbytes(rng, rlen(rng, 32)))))
            if rng.randrange(2):
                L.append("g ristretto255 one_way_map " + rb(rng, 64).hex())
                L.append("g decaf448 one_way_map " + rb(rng, 112).hex())
        elif t == 4:
            sch = rng.choice(["ed25519", "ed448"])
            el = 32 if sch == "ed25519" else 57
            mode = rng.choice(["raw", "ctx", "ph"])
            L.append("s %s verify %s %s %s %s %s" % (sch, hx(rbytes(rng, rlen(rng, el))), hx(rbytes(rng, rlen(rng, 2 * el))), mode,
                                                    hx(rb(rng, rng.choice([0, 1, 255]))), hx(rbytes(rng, rlen(rng)))))
            if sch == "ed25519":
                pk = bytes.fromhex("d75a980182b10ab7d54bfed3c964073a0ee172f3daa62325af021a68f707511a")
                L.append("s ed25519 vtrunc %s %s %d %s %s %s" % (pk.hex(), hx(rbytes(rng, rlen(rng, 64))), rng.randrange(8, 33), mode, hx(rb(rng, 3)), hx(rb(rng, 5))))
            L.append("s %s pkdec %s" % (sch, hx(rbytes(rng, rlen(rng, el)))))
            L.append("s %s skdec %s" % (sch, hx(rbytes(rng, rlen(rng, el)))))
        elif t == 5:
            sch = rng.choice(["p256", "secp256k1"])
            C = G.GROUPS[sch]
            pk = C.C.encode_compressed(C.mulgen(rng.randrange(1, C.n)))
            L.append("s %s verify %s %s %s" % (sch, pk.hex(), hx(rbytes(rng, rlen(rng, 64))), hx(rbytes(rng, rlen(rng, 32)))))
            L.append("s %s pkdec %s" % (sch, hx(mutate(rng, pk))))
            L.append("s %s skdec %s" % (sch, hx(rbytes(rng, rlen(rng, 32)))))
            if sch == "p256":
                # public x-only sequence helper, lengths around its internal batch size
                k0_ = rng.choice([0, 1, rng.getrandbits(256)]); k1_ = rng.choice([0, k0_, rng.getrandbits(256)])
                L.append("g p256 wextra xseq %s %s %d" % (k0_.to_bytes(32, "little").hex(), k1_.to_bytes(32, "little").hex(),
                                                         rng.choice([0, 1, 2, 99, 100, 197, 198, 199, 200, 201, 398, 399, 400, 401, 599, 600, rng.randrange(700)])))
                L.append("s p256 prep %s" % hx(rbytes(rng, rlen(rng, 64))))
                L.append("s p256 vtrunc %s %s %d %s" % (pk.hex(), hx(rbytes(rng, rlen(rng, 64))), rng.choice([8, 9, 10, 12, 16]), hx(rbytes(rng, rlen(rng, 32)))))
        elif t == 6:
            sch = rng.choice(["jq255e", "jq255s", "gls254"])
            g = G.GROUPS[sch]
            pk = bytes.fromhex(g.enc(g.mulgen(rng.randrange(1, g.n))))
            hn = rng.choice(HASHNAMES)
            L.append("s %s verify %s %s %s %s" % (sch, hx(mutate(rng, pk) if rng.randrange(2) else pk), hx(rbytes(rng, rlen(rng, 48))), hn, hx(rbytes(rng, rlen(rng, 32)))))
            sk = rng.randrange(1, g.n).to_bytes(32, "little")
            L.append("s %s ecdh %s %s" % (sch, sk.hex(), hx(rbytes(rng, rlen(rng, 32)))))
            L.append("s %s pkdec %s" % (sch, hx(rbytes(rng, rlen(rng, 32)))))
            L.append("s %s skdec %s" % (sch, hx(rbytes(rng, rlen(rng, 32)))))
        elif t == 7:
            kind = rng.choice(["sha224", "sha256", "sha384", "sha512", "sha512_224", "sha512_256", "sha3_224", "sha3_256", "sha3_384", "sha3_512", "blake2s256"])
            L.append("h hash %s %s" % (kind, hx(rbytes(rng, rlen(rng, 128)))))
            L.append("h hash kblake2s %s %d %s" % (hx(rbytes(rng, rlen(rng, 64))), rng.randrange(1, 33), hx(rb(rng, rng.randrange(0, 33)))))
        elif t in (8, 9) and frost_objs:
            suite = rng.choice(list(frost_objs))
            o = frost_objs[suite]
            ty = rng.choice(list(o["wire"]))
            val = rng.choice(o["wire"][ty])
            L.append("fr %s dec %s %s" % (suite, ty, hx(mutate(rng, val) if rng.randrange(4) else rbytes(rng, rlen(rng, len(val))))))
            af = altform(rng, suite, ty, val)
            if af is not None:
                L.append("fr %s dec %s %s" % (suite, ty, hx(af)))
            m = rng.randrange(6)
            w = o["wire"]

            def mm(x, ty=None):
                if ty is not None and rng.randrange(4) == 0:
                    y = altform(rng, suite, ty, x)
                    if y is not None:
                        return hx(y)
                return hx(mutate(rng, x)) if rng.randrange(3) == 0 else hx(x)
            if m == 0:
                L.append("fr %s verify_split %s %s" % (suite, mm(rng.choice(w["share"]), "share"), mm(w["vss_list"][0], "vss_list")))
            elif m == 1:
                L.append("fr %s verify %s %s %s" % (suite, mm(w["group_pk"][0], "group_pk"), mm(rng.choice(w["signature"]), "signature"), hx(rbytes(rng, rlen(rng, 10)))))
                L.append("fr %s verify_esig %s %s %s" % (suite, mm(w["group_pk"][0], "group_pk"), hx(rbytes(rng, rlen(rng, len(w["signature"][0])))), hx(rb(rng, 4))))
            elif m == 2:
                L.append("fr %s verify_share %s %s %s %s %s" % (suite, mm(rng.choice(w["signer_pk"]), "signer_pk"), mm(rng.choice(w["sig_share"])), mm(w["commitment_list"][0], "commitment_list"),
                                                                mm(w["group_pk"][0], "group_pk"), hx(o["msg"])))
            elif m == 3:
                L.append("fr %s choose %d %s %s" % (suite, rng.choice([2, 3, 4]), mm(w["group_pk"][0], "group_pk"), mm(w["commitment_list"][0], "commitment_list")))
            elif m == 4:
                L.append("fr %s sign %s %s %s %s %s" % (suite, mm(w["share"][0], "share"), hx(w["nonce"][0]), hx(w["commitment"][0]), hx(o["msg"]), mm(w["commitment_list"][0], "commitment_list")))
            else:
                L.append("fr %s assemble %d %s %s %s %s %s" % (suite, o["t"], mm(w["group_pk"][0], "group_pk"), ",".join(mm(x) for x in w["sig_share"]), mm(w["commitment_list"][0], "commitment_list"),
                                                               ",".join(mm(x, "signer_pk") for x in w["signer_pk"]), hx(o["msg"])))
        elif t == 10 and lms_objs:
            sname = rng.choice(list(lms_objs))
            sig, msg = lms_objs[sname]
            L.append("l %s verify k %s %s" % (sname, hx(mutate(rng, sig) if rng.randrange(3) else rbytes(rng, rlen(rng, len(sig)))), hx(msg if rng.randrange(2) else rbytes(rng, rlen(rng, 8)))))
        else:
            L.append("s x25519 %s %s" % (rbytes(rng, 32).hex(), rbytes(rng, 32).hex()))
            L.append("s x448 %s %s" % (rbytes(rng, 56).hex(), rbytes(rng, 56).hex()))
    return L


def frost_setup_lines(rng, suite, t, n, msg):
    """phase 1: produce valid FROST objects with the executor itself"""
    tape = rb(rng, 300)
    return ["fr %s keygen %s" % (suite, tape.hex())]


def make_valid_objects(exe, rng):
    """Run a small honest FROST session and one LMS signature on the plain
    executor, collect the wire objects (to be mutated afterwards)."""
    frost = {}
    for suite in ("ed25519", "ristretto255", "ed448", "p256", "secp256k1"):
        t, n = 2, 3
        msg = b"totality"
        out, _ = run_exec(exe, ["fr %s keygen %s" % (suite, rb(rng, 200).hex())])
        tk = out[0].split()
        gsk, gpk = bytes.fromhex(tk[1]), bytes.fromhex(tk[2])
        out, _ = run_exec(exe, ["fr %s split %s %s %d %d" % (suite, rb(rng, 400).hex(), gsk.hex(), t, n)])
        tk = out[0].split()
        shares = [bytes.fromhex(x) for x in tk[1].split(",")]
        vss = bytes.fromhex(tk[2])
        lines = ["fr %s commit %s %s" % (suite, s.hex(), rb(rng, 64).hex()) for s in shares[:t]] + ["fr %s share_pub %s" % (suite, s.hex()) for s in shares]
        out, _ = run_exec(exe, lines)
        nonces = [bytes.fromhex(o.split()[1]) for o in out[:t]]
        comms = [bytes.fromhex(o.split()[2]) for o in out[:t]]
        spks = [bytes.fromhex(o.split()[1]) for o in out[t:]]
        clist = b"".join(comms)
        out, _ = run_exec(exe, ["fr %s choose %d %s %s" % (suite, t, gpk.hex(), clist.hex())])
        chosen = bytes.fromhex(out[0].split()[2])
        out, _ = run_exec(exe, ["fr %s sign %s %s %s %s %s" % (suite, shares[i].hex(), nonces[i].hex(), comms[i].hex(), msg.hex(), chosen.hex()) for i in range(t)])
        ss = [bytes.fromhex(o.split()[2]) for o in out]
        out, _ = run_exec(exe, ["fr %s assemble %d %s %s %s %s %s" % (suite, t, gpk.hex(), ",".join(x.hex() for x in ss), chosen.hex(), ",".join(x.hex() for x in spks), msg.hex())])
        sig = bytes.fromhex(out[0].split()[2])
        frost[suite] = dict(t=t, msg=msg, wire=dict(group_sk=[gsk], group_pk=[gpk], share=shares, signer_pk=spks, vss_list=[vss], nonce=nonces,
                                                    commitment=comms, commitment_list=[chosen], sig_share=ss, signature=[sig]))
    lms = {}
    setup = []
    for sname in ("sha256_m32", "sha256_m24", "shake_m24", "shake_m32"):
        msg = b"abc"
        out, _ = run_exec(exe, ["l %s gen k %s" % (sname, rb(rng, 48).hex()), "l %s sign k %s %s" % (sname, rb(rng, 32).hex(), msg.hex())])
        lms[sname] = (bytes.fromhex(out[1].split()[2]), msg)
        setup.append("l %s gen k %s" % (sname, rb(rng, 48).hex()))
    return frost, lms, setup


def other_monitors_cases(rng, shard, nshards, S):
    import c05, c06, c07, c08, c09, c10, c11, c13, c14, c17
    names = [n for n in fieldmodel.FIELDS if not fieldmodel.FIELDS[n].configs]
    cases = []
    cases += c05.gen(rng, shard, nshards, names, int(40 * S), int(100 * S))
    cases += c06.gen(rng, shard, nshards, G.ALL_CURVES, int(40 * S))
    cases += c07.gen(rng, shard, nshards, int(30 * S), int(10 * S))
    cases += c08.gen(rng, shard, nshards, int(24 * S))
    cases += c09.gen(rng, shard, nshards, int(16 * S))
    cases += c10.gen(rng, shard, nshards, G.ALL_CURVES, int(8 * S))
    cases += c11.gen(rng, shard, nshards, int(20 * S), int(20 * S))
    cases += c13.gen(rng, shard, nshards, int(6 * S), int(24 * S), False, [8, 9, 10, 12])
    cases += c14.gen(rng, shard, nshards, int(20 * S))
    cases += c17.gen(rng, shard, nshards, max(1, int(2 * S)), False)
    return [c for c in cases if c.only is None]


def check_status_words(line, resp):
    if not resp.startswith("OK"):
        return None
    toks = line.split()
    if len(toks) < 3:
        return None
    op = toks[2]
    idx = STATUS_OPS.get(op)
    if not idx:
        return None
    rt = strip_steps(resp)[0].split()
    for i in idx:
        try:
            w = rt[i]
        except IndexError:
            continue
        if w not in ("00000000", "ffffffff"):
            return "status word %r is neither 00000000 nor ffffffff" % w
    return None


def run_instrument(name, cmd_prefix, exe, lines, env=None, timeout=3000, exe_args=None):
    """-> (responses or None, sanitizer_text, returncode)"""
    data = ("\n".join(lines) + "\n").encode()
    try:
        p = subprocess.run(cmd_prefix + [exe] + (exe_args or []), input=data, stdout=subprocess.PIPE, stderr=subprocess.PIPE, timeout=timeout, env=env)
    except subprocess.TimeoutExpired:
        return None, "watchdog", -999
    out = p.stdout.decode(errors="replace").split("\n")
    if out and out[-1] == "":
        out.pop()
    return out, p.stderr.decode(errors="replace"), p.returncode


def worker(argt):
    (shard, nshards, seed, plan, S, frost, lms, lms_setup, nbyte) = argt
    try:
        rng = random.Random((seed << 20) ^ (shard * 7919 + 13))
        cases = other_monitors_cases(rng, shard, nshards, S)
        blines = lms_setup + byte_level(rng, nbyte, frost, lms)
        for ln in blines:
            cases.append(Case([ln], [None], ["byte-level:" + " ".join(ln.split()[:3])], "byte-level"))
        lines = []
        for c in cases:
            lines.extend(c.lines)
        res = {"events": 0, "viol": [], "incon": [], "distinct": set(), "classes": {}, "samples": [], "per_config": {}, "steps_max": 0, "san_reports": {}}
        for (label, prefix, exe, env, frac, exe_args) in plan:
            sub_cases = cases if frac >= 1.0 else cases[:max(1, int(len(cases) * frac))]
            sub_lines = []
            for c in sub_cases:
                sub_lines.extend(c.lines)
            out, err, rc = run_instrument(label, prefix, exe, sub_lines, env=env, exe_args=exe_args)
            if out is None:
                res["incon"].append("%s: watchdog fired" % label)
                continue
            # sanitizer reports
            nrep = 0
            if "asan" in label:
                nrep = err.count("ERROR: AddressSanitizer")
            elif "memcheck" in label:
                nrep = len(re.findall(r"== (Invalid (read|write)|Conditional jump|Use of uninitialised|Jump to the invalid|Process terminating)", err))
            elif "miri" in label:
                nrep = err.count("error: Undefined Behavior") + err.count("error: unsupported operation")
            res["san_reports"][label] = res["san_reports"].get(label, 0) + nrep
            if len(out) != len(sub_lines):
                # died: the request after the last answer is the witness
                k = len(out)
                res["viol"].append(dict(config=label, lines=sub_lines[max(0, k - 2):k + 1], got="process died rc=%s: %s" % (rc, err[-600:]),
                                        why="executor died inside a library call (abort / sanitizer / signal)"))
                continue
            if nrep:
                res["viol"].append(dict(config=label, lines=sub_lines[:5], got=err[-1500:], why="%d sanitizer report(s)" % nrep))
            pos = 0
            for c in sub_cases:
                k = len(c.lines)
                rs = out[pos:pos + k]
                pos += k
                for ln, r in zip(c.lines, rs):
                    res["events"] += 1
                    r0, st = strip_steps(r)
                    if st > res["steps_max"]:
                        res["steps_max"] = st
                    if st > 8 * 512 + 64:
                        res["viol"].append(dict(config=label, lines=c.lines, got=r[:200], why="lattice step budget exceeded (%d)" % st))
                    if r.startswith("PANIC"):
                        if "verif: injected RNG fault" in r:
                            continue
                        res["viol"].append(dict(config=label, lines=c.lines, got=r[:300], why="panic on untrusted input", desc=c.desc))
                    elif r.startswith("ERR"):
                        res["incon"].append("%s: harness error %s on %s" % (label, r[:100], ln[:120]))
                    else:
                        w = check_status_words(ln, r)
                        if w:
                            res["viol"].append(dict(config=label, lines=c.lines, got=r[:200], why=w))
                if "miri" not in label:
                    for (i, got, why) in check_case(c, rs):
                        if not got.startswith("PANIC") and len(res["viol"]) < 60:
                            res["viol"].append(dict(config=label, lines=c.lines, index=i, got=got, why="oracle: " + why, desc=c.desc))
            res["per_config"][label] = res["per_config"].get(label, 0) + len(sub_lines)
        for c in cases:
            for cl in c.classes[:2]:
                res["classes"][cl] = res["classes"].get(cl, 0) + 1
            res["distinct"].add(hashlib.blake2s(("\n".join(c.lines)).encode(), digest_size=8).digest())
        res["samples"] = [dict(lines=c.lines[:2]) for c in cases[-3:]]
        res["distinct"] = list(res["distinct"])
        res["viol"] = res["viol"][:60]
        return res
    except Exception:
        return {"fatal": traceback.format_exc()}


def main(argv):
    a = parse_args(argv)
    if a.replay:
        return do_replay(a.replay)
    rep = Report("C19", a.tier, a.seed)
    rep.rule = ("untrusted-input requests of the C05-C14/C17 workloads plus byte-level inputs (lengths 0..4096, all-zero / all-ones / random / "
                "structure-aware mutations of valid keys, signatures, FROST wire objects and LMS signatures) for every decode / verify / ECDH / "
                "map / hash entry point, executed under: overflow-checked + debug-assertion builds (default, w32, m51), AddressSanitizer, valgrind "
                "memcheck, and (thorough) Miri. Violations: PANIC events, sanitizer reports, process death, step-budget overruns, status words "
                "other than 00000000/ffffffff. evaluations = responses inspected over all instruments; distinct_nontrivial = distinct requests")
    rep.assumptions = ["inputs outside documented domains (rm outside 8..32, contexts > 255 bytes, one_way_map of the wrong length, min_signers < 2) are not generated",
                       "Miri runs with the aliasing model disabled (see DESIGN section 5, blake2s observation)"]
    try:
        quick = a.tier == "quick"
        S = (3.0 if quick else 30.0) * a.scale
        nbyte = int((5000 if quick else 60000) * a.scale)
        exe_plain = build("default")
        rng0 = random.Random(a.seed * 7 + 1)
        frost, lms, lms_setup = make_valid_objects(exe_plain, rng0)
        plan = []
        cfgs_checked = ["default", "w32", "m51"] if not a.configs else a.configs.split(",")
        for c in cfgs_checked:
            e = build(c, profile="checked", tag=c + "-checked")
            plan.append(("checked/" + c, [], e, None, 1.0, None))
        # AddressSanitizer (nightly)
        try:
            e = build("default", toolchain="nightly", extra_flags="-Zsanitizer=address -Cforce-frame-pointers=yes", target="x86_64-unknown-linux-gnu", tag="default-asan")
            env = dict(os.environ); env["ASAN_OPTIONS"] = "detect_leaks=0:halt_on_error=1:abort_on_error=0"
            plan.append(("asan/default", [], e, env, 1.0 if not quick else 0.5, None))
            if not quick:
                e2 = build("avx2", toolchain="nightly", extra_flags="-Zsanitizer=address -Cforce-frame-pointers=yes", target="x86_64-unknown-linux-gnu", tag="avx2-asan")
                plan.append(("asan/avx2", [], e2, env, 1.0, None))
        except Inconclusive as ex:
            rep.incon.append("ASan build unavailable: %s" % ex)
        # memcheck on the release binaries (slice)
        plan.append(("memcheck/default", ["valgrind", "-q", "--tool=memcheck", "--error-limit=no", "--leak-check=no", "--num-callers=20"], exe_plain, None,
                     0.08 if quick else 0.25, None))
        if not quick:
            plan.append(("memcheck/avx2", ["valgrind", "-q", "--tool=memcheck", "--error-limit=no", "--leak-check=no", "--num-callers=20"], build("avx2"), None, 0.1, None))
        tasks = [(s, NCPU, a.seed, plan, S, frost, lms, lms_setup, nbyte // NCPU + 1) for s in range(NCPU)]
        results = pmap(worker, tasks, NCPU)
        san = {}
        for r in results:
            if "fatal" in r:
                rep.incon.append("worker crashed: " + r["fatal"][-1200:])
                continue
            rep.events += r["events"]
            rep.viol.extend(r["viol"])
            rep.incon.extend(r["incon"])
            rep.distinct.update(bytes(x) for x in r["distinct"])
            for k, v in r["classes"].items():
                rep.classes[k] = rep.classes.get(k, 0) + v
            rep.samples.extend(r["samples"][:1])
            for k, v in r["per_config"].items():
                rep.per_config[k] = rep.per_config.get(k, 0) + v
            for k, v in r["san_reports"].items():
                san[k] = san.get(k, 0) + v
            rep.steps_max = max(rep.steps_max, r["steps_max"])
        # Miri (thorough only): a tiny slice through the interpreter
        if not quick:
            try:
                miri_lines = lms_setup[:0] + byte_level(random.Random(a.seed), 120, frost, {})
                miri_lines = [l for l in miri_lines if not l.startswith("l ")][:150]
                env = cargo_env("")
                env["MIRIFLAGS"] = "-Zmiri-disable-isolation -Zmiri-disable-stacked-borrows"
                t0 = time.time()
                p = subprocess.run(["cargo", "+nightly", "miri", "run", "--offline", "--manifest-path", os.path.join(HARNESS, "Cargo.toml"),
                                    "--target-dir", os.path.join(TARGET, "miri")], input=("\n".join(miri_lines) + "\n").encode(),
                                   stdout=subprocess.PIPE, stderr=subprocess.PIPE, env=env, timeout=3400)
                out = p.stdout.decode(errors="replace").split("\n")
                if out and out[-1] == "":
                    out.pop()
                err = p.stderr.decode(errors="replace")
                nub = err.count("Undefined Behavior")
                san["miri/default"] = nub
                rep.per_config["miri/default"] = len(out)
                rep.events += len(out)
                if nub:
                    rep.viol.append(dict(config="miri/default", lines=miri_lines[max(0, len(out) - 2):len(out) + 1], got=err[-2000:], why="Miri reported undefined behaviour"))
                elif len(out) != len(miri_lines):
                    rep.incon.append("miri run incomplete (%d of %d responses, rc=%s): %s" % (len(out), len(miri_lines), p.returncode, err[-300:]))
                for l, r in zip(miri_lines, out):
                    if r.startswith("PANIC"):
                        rep.viol.append(dict(config="miri/default", lines=[l], got=r[:200], why="panic on untrusted input"))
            except subprocess.TimeoutExpired:
                rep.incon.append("miri watchdog fired")
        rep.extra["sanitizer_reports"] = san
        rep.extra["instruments"] = sorted(rep.per_config)
        need = ["checked/default", "memcheck/default"]
        for k in need:
            if k not in rep.per_config:
                rep.incon.append("instrument %s produced no events" % k)
    except Inconclusive as e:
        rep.incon.append(str(e))
    return rep.finish()


if __name__ == "__main__":
    sys.exit(main(sys.argv[1:]))
