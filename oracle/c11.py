"""C11 -- scalar splitting functions meet their contracts and always terminate.

Events: split_vartime on every scalar/field type that provides it, the
endomorphism splits (jq255e split_mu, secp256k1 split_theta, GLS254 split_mu /
split_mu_odd), with the lattice step counter (hook) read after each call."""

import sys
import os
import math

sys.path.insert(0, os.path.dirname(os.path.abspath(__file__)))

from common import *          # noqa
from fieldmodel import *      # noqa
import ref_weier
import ref_gls
import ref_do

NMAX1 = (1 << 254) * 1000000 // 1154701          # ~ 2^254/(2/sqrt(3)) = 1.732*2^253 (slightly low: conservative side is the larger slack)
T128 = 1 << 128


def slack_for(q):
    # documented: exact below 1.73*2^253; +-1 up to 1.73*2^255; +-2 above
    lim1 = int(1.7320508 * (1 << 253))
    lim2 = int(1.7320508 * (1 << 255))
    if q <= lim1:
        return 0
    if q <= lim2:
        return 1
    return 2


def norm_boundary_k(rng, q):
    """k = +-1/m (or +-a/m with tiny a) with m chosen so that floor(q/m)^2 -- the squared norm of a basis vector met during the
    reduction -- sits just above / below a power of two on a limb boundary (the sign bit or the top bit of the multi-limb norms):
    the comparisons and sign tests of the reduction see exactly 0x8000...0 in their top limb, and for moduli close to 2^256 the
    shortest vector has a coordinate at +-2^127 / +-2^128, where the 128-bit truncation of the result bites."""
    e = rng.choice([32 * j + d for j in range(4, 2 * q.bit_length() // 32 + 1) for d in (-1, 0)])
    T = (1 << e) + rng.choice([0, 1, rng.getrandbits(max(1, e - 33)), -1, -rng.getrandbits(max(1, e - 33))])
    s_ = math.isqrt(max(T, 4))
    m = q // s_ + rng.choice([0, 0, 1, -1])
    if m < 2 or m % q == 0:
        m = 3
    a = rng.choice([1, 1, 1, -1, -1, 2, 3])
    return a * pow(m, -1, q) % q, "norm-at-power-of-two"


def hostile_k(rng, q):
    t = rng.randrange(13)
    if t == 12:
        return norm_boundary_k(rng, q)
    if t < 5:
        # rationals a/b on the whole (bits a, bits b) grid: unbalanced lattices
        ba = rng.randrange(1, 131)
        bb = rng.randrange(1, 131)
        a = rng.getrandbits(ba) | (1 << (ba - 1))
        b = rng.getrandbits(bb) | (1 << (bb - 1))
        if rng.randrange(2):
            a = -a
        if b % q == 0:
            b = 1
        return a * pow(b, -1, q) % q, "rational(%s,%s)" % ("s" if ba < 66 else "L", "s" if bb < 66 else "L")
    if t == 5:
        return rng.choice([0, 1, 2, q - 1, q - 2, (q + 1) // 2, (q - 1) // 2, 3]), "extreme"
    if t == 6:
        # continued-fraction convergents of q/k for a random k: k' = h_i/k_i-like values
        k = rng.randrange(1, q)
        a0, a1 = q, k
        p0, p1 = 0, 1
        steps = rng.randrange(1, 80)
        for _ in range(steps):
            if a1 == 0:
                break
            qq = a0 // a1
            a0, a1 = a1, a0 - qq * a1
            p0, p1 = p1, p0 + qq * p1
        return (a0 * pow(p1, -1, q)) % q if p1 % q else k, "convergent"
    if t == 7:
        return (1 << rng.randrange(q.bit_length())) % q, "pow2"
    if t == 8:
        return (q - (1 << rng.randrange(q.bit_length() - 1))) % q, "q-pow2"
    if t == 9:
        # near-square-root sized values
        s = math.isqrt(q)
        return (s + rng.randrange(-1000, 1000)) % q, "near-sqrt"
    if t == 10:
        a = rng.randrange(1, 1 << 20)
        b = rng.randrange(1, 1 << 20)
        return a * pow(b, -1, q) % q, "tiny-rational"
    return rng.randrange(q), "random"


def endo_lattice_constants(mu, r):
    """Short vectors of the lattice {(a, b): a + b*mu = 0 mod r}, found by the
    extended Euclidean algorithm on (r, mu) (independent of the library's
    hard-coded constants); the absolute values of their coordinates are the
    multipliers e used in the rounded divisions round(k*e/r)."""
    import math
    r0, r1 = r, mu % r
    t0, t1 = 0, 1
    sq = math.isqrt(r)
    vecs = []
    while r1 != 0:
        q_ = r0 // r1
        r0, r1 = r1, r0 - q_ * r1
        t0, t1 = t1, t0 - q_ * t1
        if r0 < 4 * sq and len(vecs) < 3:
            vecs.append((r0, t0))
    es = set()
    for (a, b) in vecs:
        es.add(abs(a)); es.add(abs(b)); es.add(abs(a) + abs(b)); es.add(abs(abs(a) - abs(b)))
    return sorted(e for e in es if 0 < e < (1 << 128))


def rounding_boundary_scalar(rng, r, es):
    """k such that round(k*e/r) = c sits on a limb boundary (c = m*2^64 - 1, m*2^64, m*2^64 + 1, 2^32 multiples) with the
    fractional part of k*e/r near 0, +-1/2 (the rounded division must add/subtract one correctly across the limb)"""
    e = rng.choice(es)
    cmax = e  # c ranges up to about e
    m = rng.randrange(1, max(2, cmax >> 64))
    c = rng.choice([m << 64, (m << 64) - 1, (m << 64) + 1, (m << 64) - 2, ((m << 64) | (rng.getrandbits(32) << 32)) - rng.randrange(2),
                    (rng.randrange(1, max(2, cmax >> 32)) << 32) - rng.randrange(2),
                    # several low limbs all ones / all zero (carries that ripple through more than one limb of the quotient)
                    (rng.randrange(1, max(2, cmax >> 96)) << 96) - rng.randrange(3),
                    (rng.randrange(1, max(2, cmax >> 96)) << 96) - rng.randrange(3),
                    (rng.randrange(1, max(2, cmax >> 64)) << 64) - rng.randrange(3),
                    (1 << rng.randrange(33, max(34, cmax.bit_length()))) - rng.randrange(3)])
    if c <= 0:
        c = (1 << 64) - 1
    f = rng.choice([-0.4999, -0.25, 0.0, 0.25, 0.4999, -0.5, 0.5])
    k = int((c + f) * r) // e if f else (c * r + e // 2) // e
    k += rng.randrange(-3, 4)
    return k % r


def expect_split_int(q, k, slack, maxsteps):
    def chk(resp):
        if not resp.startswith("OK "):
            return "no normal return: " + resp[:100]
        r, steps = strip_steps(resp)
        t = r.split()
        c0, c1 = int(t[1]), int(t[2])
        if steps > maxsteps:
            return "lattice reduction used %d steps (budget %d)" % (steps, maxsteps)
        if k % q == 0:
            if (c0, c1) != (0, 1):
                return "zero must split as (0, 1)"
            return None
        rng_ = range(-slack, slack + 1)
        for a in rng_:
            for b in rng_:
                c0p = c0 + a * T128
                c1p = c1 + b * T128
                if c1p % q != 0 and (k * c1p - c0p) % q == 0:
                    # (the property asks for the congruence only; shortness of
                    # the pair is not promised for the i128 variant: the w32
                    # backend legitimately returns unbalanced pairs for short
                    # moduli because of its early exit)
                    return None
        return "no admissible correction (|a|,|b| <= %d) gives k*c1 = c0 mod q" % slack
    return chk


def expect_split_bytes(q, k, maxsteps):
    bound = 2 * q * 1000001 // 1732050   # 2q/sqrt(3) (rounded up a hair)

    def chk(resp):
        if not resp.startswith("OK "):
            return "no normal return: " + resp[:100]
        r, steps = strip_steps(resp)
        t = r.split()
        c0 = int.from_bytes(bytes.fromhex(t[1]), "little", signed=True)
        c1 = int.from_bytes(bytes.fromhex(t[2]), "little", signed=True)
        if steps > maxsteps:
            return "lattice reduction used %d steps (budget %d)" % (steps, maxsteps)
        if k % q == 0:
            return None if (c0, c1) == (0, 1) else "zero must split as (0, 1)"
        if c1 % q == 0 or (k * c1 - c0) % q != 0:
            return "k*c1 != c0 mod q"
        if c0 * c0 >= bound + 2 or c1 * c1 >= bound + 2:
            return "c0^2 or c1^2 not below 2q/sqrt(3)"
        return None
    return chk


def expect_endo(q, k, mu, bound, odd=False):
    def chk(resp):
        if not resp.startswith("OK "):
            return "no normal return: " + resp[:100]
        t = strip_steps(resp)[0].split()
        n0, s0, n1, s1 = int(t[1]), t[2], int(t[3]), t[4]
        if s0 not in ("00000000", "ffffffff") or s1 not in ("00000000", "ffffffff"):
            return "sign words are not 0 / 0xFFFFFFFF"
        k0 = -n0 if s0 == "ffffffff" else n0
        k1 = -n1 if s1 == "ffffffff" else n1
        if (k0 + k1 * mu - k) % q != 0:
            return "k != k0 + k1*mu"
        if n0 >= bound or n1 >= bound:
            return "magnitude above the documented bound"
        if odd and (n0 % 2 == 0 or n1 % 2 == 0):
            return "split_mu_odd returned an even half"
        return None
    return chk


SPLIT_INT = ["gf25519", "gf255e", "gf255s", "gfp256", "sc25519", "scp256", "scsecp", "scjq255e", "scjq255s", "scgls254",
             "mi_25519", "mi_spec1", "mi_spec2", "mi_spec3", "mi_193", "mi_194s", "mi_194d", "mi_194h"]
SPLIT_BYTES = ["sc448", "g127", "g192", "g256", "g25519", "g320", "g384", "g512"]


def gen(rng, shard, nshards, n_per_type, n_endo):
    cases = []
    for nm in SPLIT_INT:
        f = FIELDS[nm]
        q = f.q
        sl = slack_for(q)
        maxsteps = 8 * q.bit_length() + 64
        for _ in range(n_per_type):
            k, kc = hostile_k(rng, q)
            d = f.r(k, 32) if rng.randrange(2) else f.w(k + (q if k + q < (1 << 256) and rng.randrange(2) else 0), rng)
            cases.append(case1("f %s split %s" % (nm, d), expect_split_int(q, k, sl, maxsteps),
                               ["%s:%s" % (nm, kc.split("(")[0]), kc, "slack=%d" % sl], "split_vartime", only=f.configs))
    for nm in SPLIT_BYTES:
        f = FIELDS[nm]
        q = f.q
        maxsteps = 8 * max(q.bit_length(), 256) + 64
        for _ in range(n_per_type):
            k, kc = hostile_k(rng, q)
            cases.append(case1("f %s split %s" % (nm, f.r(k, f.enc_len)), expect_split_bytes(q, k, maxsteps),
                               ["%s:%s" % (nm, kc.split("(")[0]), kc, "gfgen-split"], "gfgen split_vartime",
                               only=(f.configs if nm != "g127" else ("!w32",))))
    # endomorphism splits
    ENDO = [("jq255e", "g jq255e jextra ", RJQ255E, ref_do.JQ255E.mu, 1 << 127, False),
            ("secp256k1", "g secp256k1 wextra ", NSECP, ref_weier.SECP256K1.lam, int(2 ** 127.54), False),
            ("gls254", "g gls254 split_mu ", RGLS254, ref_gls.GLS254.mu, int(2 ** 126.6), False),
            ("gls254odd", "g gls254 split_mu_odd ", RGLS254, ref_gls.GLS254.mu, int(2 ** 127.6), True)]
    for (nm, pre, q, mu, bound, odd) in ENDO:
        es = endo_lattice_constants(mu, q)
        for _ in range(n_endo):
            t = rng.randrange(6)
            if t >= 4:
                k, kc = rounding_boundary_scalar(rng, q, es), "limb-rounding-boundary"
                cases.append(case1(pre + k.to_bytes(32, "little").hex(), expect_endo(q, k, mu, bound, odd), ["%s:%s" % (nm, kc)], "endomorphism split"))
                continue
            if t == 0:
                k, kc = hostile_k(rng, q)
            elif t == 1:
                h = 1 << 126
                k0 = rng.choice([0, 1, -1, h, -h, h - 1, rng.getrandbits(126), -rng.getrandbits(126)])
                k1 = rng.choice([0, 1, -1, h, -h, h - 1, rng.getrandbits(126), -rng.getrandbits(126)])
                k, kc = (k0 + k1 * mu) % q, "assembled-halves"
            elif t == 2:
                # rounding boundaries of c = round(k*e/r): k near multiples of r/e
                e = rng.getrandbits(127) | 1
                j = rng.randrange(1, e)
                k, kc = ((2 * j + 1) * q // (2 * e) + rng.randrange(-2, 3)) % q, "rounding-boundary"
            else:
                k, kc = rng.randrange(q), "random"
            cases.append(case1(pre + k.to_bytes(32, "little").hex(), expect_endo(q, k, mu, bound, odd), ["%s:%s" % (nm, kc.split("(")[0])], "endomorphism split"))
    return cases


def main(argv):
    a = parse_args(argv)
    if a.replay:
        return do_replay(a.replay)
    rep = Report("C11", a.tier, a.seed)
    rep.rule = ("scalars k = a/b on the whole (bitlen a, bitlen b) grid up to 130 bits (unbalanced lattices), continued-fraction "
                "convergents, 0/1/q-1, 2^k, q-2^k, near sqrt(q), random; for every type with split_vartime (ModInt256 scalar types of six "
                "curves, GF255 fields, corner moduli, gfgen types of 2..8 limbs incl. the Ed448 scalar); endomorphism splits with "
                "assembled extreme halves and rounding-boundary scalars. Oracle: k*c1' = c0' (mod q) with the documented truncation "
                "slack, (0,1) for zero, norm bound; k = k0 + k1*mu with magnitude bounds; termination: hooked step counter <= 8*bitlen+64 "
                "(hard cap 10^6 -> PANIC). distinct_nontrivial = distinct requests whose scalar is in a structured (non-random) class")
    rep.assumptions = ["documented truncation slack read from backend/mod.rs; endomorphism eigenvalues computed independently by the reference models"]
    try:
        if a.tier == "quick":
            cfgs = (a.configs.split(",") if a.configs else ["default", "w32", "zz32"])
            n1, n2 = int(20000 * a.scale), int(20000 * a.scale)
        else:
            cfgs = (a.configs.split(",") if a.configs else ALL_CONFIGS)
            n1, n2 = int(1000000 * a.scale), int(600000 * a.scale)
        exes = build_many(cfgs)
        m = run_rounds(1 if a.tier == "quick" else 3, "c11", "gen", (n1 // NCPU + 1, n2 // NCPU + 1), [(c, exes[c]) for c in cfgs], a.seed, timeout=3600,
                       split=1 if a.tier == "quick" else 2, count_idx=(0, 1))
        rep.merge(m)
        rep.require("scp256:norm-at-power-of-two", "scsecp:norm-at-power-of-two", "sc25519:norm-at-power-of-two", "mi_spec3:norm-at-power-of-two", "sc448:norm-at-power-of-two",
                    "sc25519:rational", "scp256:rational", "sc448:rational", "sc448:convergent", "g512:rational", "g127:rational",
                    "jq255e:assembled-halves", "secp256k1:rounding-boundary", "gls254:assembled-halves", "gls254odd:random", "jq255e:limb-rounding-boundary", "gls254:limb-rounding-boundary", "secp256k1:limb-rounding-boundary",
                    "rational(L,s)", "rational(s,L)", "rational(s,s)", "rational(L,L)", "slack=0", "slack=1", "slack=2", "extreme")
    except Inconclusive as e:
        rep.incon.append(str(e))
    return rep.finish()


if __name__ == "__main__":
    sys.exit(main(sys.argv[1:]))
