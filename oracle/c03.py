"""C03 -- point addition, doubling, negation implement the complete group law.

Events: chains of group operations executed by the library on operands given
as encodings (optionally re-represented: lambda-scaled projective coordinates,
torsion-shifted ristretto/decaf representatives, (e,u) -> (-e,-u)), every
intermediate result printed through the library's encoder and compared with
the affine textbook law of the independent reference model."""

import sys
import os

sys.path.insert(0, os.path.dirname(os.path.abspath(__file__)))

from common import *          # noqa
from groups import *          # noqa

OKST = "ffffffff"
NOST = "00000000"

U64S = [0, 1, 2, 3, 4, 5, 7, 8, 15, 16, 17, 31, 32, 33, (1 << 32) - 1, 1 << 32, (1 << 63), (1 << 63) - 1, (1 << 64) - 1, (1 << 64) - 2]


def D(g, P, rng):
    if isinstance(g, WeierG):
        d = g.desc(P, rng)
    else:
        d = g.desc(P)
    return d + g.mods(P, rng)


def gen_curve(rng, g, n, heavy):
    """heavy: relative cost factor (GLS254's reference is slow)."""
    out = []
    T = "g %s " % g.name
    specials = g.special_points()
    for it in range(n):
        regs = {}
        lines, exp, cl = [], [], set()
        ctor_n = [0]
        nops = rng.randrange(1, 13) if rng.randrange(3) else 1

        def fresh():
            t = rng.randrange(6)
            if isinstance(g, WeierG) and rng.randrange(5) == 0:
                # operand built by the coordinate constructors (into a register that already holds a point)
                p = g.p
                ctor_n[0] += 1
                k = 6 + ctor_n[0] % 20
                P = rng.choice(specials) if rng.randrange(4) == 0 else g.rand_point(rng)
                le = lambda v: (v % (1 << 256)).to_bytes(32, "little").hex()
                how = rng.randrange(8)
                if how <= 2 and not g.is_neutral(P):
                    lam = rng.choice([1, p - 1, 2, rng.randrange(1, p), rng.randrange(1, p)])
                    X, Y, Z = P[0] * lam % p, P[1] * lam % p, lam
                    if rng.randrange(4) == 0 and X + p < (1 << 256):
                        X += p
                    lines.append(T + "set_projective >%d %s %s %s" % (k, le(X), le(Y), le(Z))); exp.append("OK %s %s" % (OKST, g.enc(P)))
                    cl.add("ctor:projective-valid")
                elif how == 3:
                    X, Y = rng.choice([(0, 0), (0, 1), (1, 0), (rng.randrange(p), rng.randrange(p)), (rng.randrange(p), 0), (0, rng.randrange(p))])
                    P = g.neutral
                    lines.append(T + "set_projective >%d %s %s %s" % (k, le(X), le(Y), le(rng.choice([0, 0, p])))); exp.append("OK %s %s" % (OKST, g.enc(P)))
                    cl.add("ctor:projective-infinity(%s:%s:0)" % ("0" if X == 0 else "X", "0" if Y == 0 else "Y"))
                elif how == 4:
                    Q = g.rand_point(rng)
                    while g.is_neutral(Q):
                        Q = g.rand_point(rng)
                    X, Y, Z = Q[0], Q[1], 1
                    w = rng.randrange(4)
                    if w == 0: Y = (Y + 1) % p
                    elif w == 1: Z = rng.randrange(2, p)
                    elif w == 2: X = (X + 1) % p
                    else: X, Y = Y, X
                    P = g.neutral
                    lines.append(T + "set_projective >%d %s %s %s" % (k, le(X), le(Y), le(Z))); exp.append("OK %s %s" % (NOST, g.enc(P)))
                    cl.add("ctor:projective-invalid")
                elif how <= 6 and not g.is_neutral(P):
                    lines.append(T + "set_affine >%d %s %s" % (k, le(P[0] + (p if rng.randrange(4) == 0 and P[0] + p < (1 << 256) else 0)), le(P[1]))); exp.append("OK %s %s" % (OKST, g.enc(P)))
                    cl.add("ctor:affine-valid")
                else:
                    x, y = rng.choice([(0, 0), (0, 1), (rng.randrange(p), rng.randrange(p))])
                    if g.C.on_curve((x, y)):
                        x, y = 0, 0
                    P = g.neutral
                    lines.append(T + "set_affine >%d %s %s" % (k, le(x), le(y))); exp.append("OK %s %s" % (NOST, g.enc(P)))
                    cl.add("ctor:affine-invalid")
                if g.is_neutral(P): cl.add("operand-neutral")
                return "$%d" % k, P
            if t == 0:
                P = rng.choice(specials)
                cl.add("operand-special")
            else:
                P = g.rand_point(rng)
            d = D(g, P, rng)
            if "~l" in d: cl.add("operand-lambda-scaled")
            if "~t" in d: cl.add("operand-torsion-shifted")
            if "~n" in d: cl.add("operand-negated-eu")
            if g.is_neutral(P): cl.add("operand-neutral")
            if isinstance(g, EdG) and any(g.eq(P, L) for L in g.low): cl.add("operand-low-order")
            if isinstance(g, EdG) and not g.C.in_subgroup(P): cl.add("operand-not-in-subgroup")
            return d, P

        for step in range(nops):
            op = rng.choices(["add", "sub", "neg", "double", "xdouble", "mulu64", "equals", "isneutral", "self"],
                             [30, 16, 8, 12, 6 if heavy < 5 else 1, 5 if heavy < 5 else 1, 8, 6, 10])[0]
            dst = rng.randrange(6)

            def operand():
                if regs and rng.randrange(2):
                    k = rng.choice(list(regs))
                    cl.add("operand-reused-result")
                    return "$%d" % k, regs[k]
                return fresh()
            if op in ("add", "sub"):
                d1, P1 = operand()
                t = rng.randrange(8)
                if t == 0:
                    d2, P2 = D(g, P1, rng), P1; cl.add("P+P-via-add" if op == "add" else "P-P")
                elif t == 1:
                    P2 = g.neg(P1); d2 = D(g, P2, rng); cl.add("P+(-P)" if op == "add" else "P-(-P)")
                elif t == 2:
                    P2 = g.neutral; d2 = rng.choice(["N", D(g, P2, rng)]); cl.add("right-neutral")
                else:
                    d2, P2 = operand()
                if g.is_neutral(P1): cl.add("left-neutral")
                R = g.add(P1, P2) if op == "add" else g.sub(P1, P2)
                name = rng.choice([op, op + "r", op + "a"])
                lines.append(T + "%s >%d %s %s" % (name, dst, d1, d2)); exp.append("OK " + g.enc(R)); regs[dst] = R
                if g.is_neutral(R): cl.add("result-neutral")
            elif op == "self":
                # $k + $k and $k - $k on a library-produced representation
                if not regs:
                    d1, P1 = fresh()
                    lines.append(T + "id >%d %s" % (dst, d1)); exp.append("OK " + g.enc(P1)); regs[dst] = P1
                k = rng.choice(list(regs))
                if rng.randrange(2):
                    R = g.dbl(regs[k]); lines.append(T + "add >%d $%d $%d" % (dst, k, k)); cl.add("P+P-via-add")
                else:
                    R = g.neutral; lines.append(T + "sub >%d $%d $%d" % (dst, k, k)); cl.add("P-P"); cl.add("result-neutral")
                exp.append("OK " + g.enc(R)); regs[dst] = R
            elif op == "neg":
                d1, P1 = operand()
                R = g.neg(P1)
                lines.append(T + "neg >%d %s" % (dst, d1)); exp.append("OK " + g.enc(R)); regs[dst] = R
            elif op == "double":
                d1, P1 = operand()
                R = g.dbl(P1)
                lines.append(T + "double >%d %s" % (dst, d1)); exp.append("OK " + g.enc(R)); regs[dst] = R
                if g.is_neutral(R): cl.add("double-gives-neutral")
            elif op == "xdouble":
                d1, P1 = operand()
                k = rng.choice([0, 1, 2, 3, 4, 5, 6, 7, 8, 63, 64, 65, 70, rng.randrange(71)])
                R = g.mul(1 << k, P1)
                lines.append(T + "xdouble >%d %s %d" % (dst, d1, k)); exp.append("OK " + g.enc(R)); regs[dst] = R
                cl.add("xdouble:n=%s" % (k if k in (0, 1, 2, 3) else "big"))
                if g.is_neutral(R) and not g.is_neutral(P1): cl.add("xdouble-reaches-neutral")
            elif op == "mulu64":
                d1, P1 = operand()
                k = rng.choice(U64S + [rng.getrandbits(64), rng.getrandbits(rng.randrange(1, 64))])
                R = g.mul(k, P1)
                name = rng.choice(["mulu64", "u64mul", "mulu64a"])
                lines.append(T + "%s >%d %s %d" % (name, dst, d1, k)); exp.append("OK " + g.enc(R)); regs[dst] = R
                cl.add("mulu64:" + ("0" if k == 0 else ("max" if k == (1 << 64) - 1 else "k")))
            elif op == "equals":
                d1, P1 = operand()
                t = rng.randrange(4)
                if t == 0:
                    d2, P2 = D(g, P1, rng), P1; cl.add("equals:same-element-other-repr")
                elif t == 1:
                    P2 = g.neg(P1); d2 = D(g, P2, rng); cl.add("equals:opposite")
                elif t == 2 and isinstance(g, EdG):
                    # same point up to a low-order component: distinct curve points (the full curve is the group here)
                    P2 = g.add(P1, rng.choice([L for L in g.low if not g.is_neutral(L)])); d2 = D(g, P2, rng); cl.add("equals:differ-by-low-order-point")
                else:
                    d2, P2 = operand()
                e = g.eq(P1, P2)
                lines.append(T + "equals %s %s" % (d1, d2)); exp.append("OK " + (OKST if e else NOST))
                cl.add("equals:" + ("true" if e else "false"))
            else:
                d1, P1 = operand()
                e = g.is_neutral(P1)
                lines.append(T + "isneutral %s" % d1); exp.append("OK " + (OKST if e else NOST))
                cl.add("isneutral:" + ("true" if e else "false"))
        if nops >= 8:
            cl.add("chain>=8")
        out.append(Case(lines, exp, ["%s:%s" % (g.name, c) for c in cl] + sorted(cl), "group law chain"))
    return out


COST = {"ed25519": 1, "ed448": 2.5, "ristretto255": 1.5, "decaf448": 3.5, "p256": 1, "secp256k1": 1, "jq255e": 2, "jq255s": 2, "gls254": 8}


def gen(rng, shard, nshards, curves, n_cases):
    cases = []
    for c in curves:
        g = GROUPS[c]
        cases.extend(gen_curve(rng, g, max(1, int(n_cases / COST[c])), COST[c]))
    return vary_forms(cases, rng)


def main(argv):
    a = parse_args(argv)
    if a.replay:
        return do_replay(a.replay)
    rep = Report("C03", a.tier, a.seed)
    rep.rule = ("seeded chains (1..12 ops) of +,-,unary -,double,xdouble(0..70),*u64 and compound-assign forms on the nine groups; "
                "operands: neutral, generator, low-order and mixed-order points (Edwards), random multiples, outputs of earlier "
                "steps (library-produced representations), lambda-rescaled projective coordinates, torsion-shifted ristretto/decaf "
                "representatives, (e,u)->(-e,-u); every step's encoding and the equals/isneutral masks are compared with the affine "
                "reference law. distinct_nontrivial = distinct chains containing at least one exceptional-case class")
    rep.assumptions = ["reference group laws in ref_ed/ref_weier/ref_do/ref_gls (validated against the repository's third-party KATs by their self-tests)"]
    try:
        curves = ALL_CURVES
        if a.tier == "quick":
            cfgs = (a.configs.split(",") if a.configs else ["default", "m51", "w32"])
            n = int(8000 * a.scale)
        else:
            cfgs = (a.configs.split(",") if a.configs else ALL_CONFIGS)
            n = int(240000 * a.scale)
        exes = build_many(cfgs)
        m = run_sharded("c03", "gen", (curves, n // NCPU + 1), [(c, exes[c]) for c in cfgs], a.seed, timeout=3600)
        rep.merge(m)
        req = []
        for c in curves:
            req += [c + ":P+P-via-add", c + ":P+(-P)", c + ":right-neutral", c + ":left-neutral", c + ":result-neutral",
                    c + ":operand-reused-result", c + ":equals:same-element-other-repr"]
            if c != "gls254" or True:
                req += [c + ":operand-lambda-scaled"]
        req += ["ed25519:operand-low-order", "ed448:operand-low-order", "ed25519:operand-not-in-subgroup", "ed448:operand-not-in-subgroup",
                "ristretto255:operand-torsion-shifted", "decaf448:operand-torsion-shifted", "jq255e:operand-negated-eu", "jq255s:operand-negated-eu",
                "ed25519:xdouble-reaches-neutral", "ed25519:equals:differ-by-low-order-point", "ed448:equals:differ-by-low-order-point"]
        for c in ("p256", "secp256k1"):
            req += [c + ":ctor:projective-valid", c + ":ctor:projective-infinity(0:0:0)", c + ":ctor:projective-infinity(X:Y:0)", c + ":ctor:projective-invalid",
                    c + ":ctor:affine-valid", c + ":ctor:affine-invalid"]
        rep.require(*req)
    except Inconclusive as e:
        rep.incon.append(str(e))
    return rep.finish()


if __name__ == "__main__":
    sys.exit(main(sys.argv[1:]))
