#!/usr/bin/env python3
"""
ref_weier.py -- independent pure-Python reference model (oracle) for the
short-Weierstrass parts of crrl: curves NIST P-256 and secp256k1, point
encodings, ECDSA (sign / verify), key derivation from seed, and P-256
truncated signatures.

Implemented from SEC 1 / SEC 2 / FIPS 186-4 / RFC 6979 with textbook AFFINE
formulas on Python ints.  A Jacobian fast path is used for scalar
multiplication; it is cross-checked against the affine law in selftest().
crrl's projective formulas were NOT consulted; only crrl's doc comments (for
formats and API conventions) and its unit-test vectors were used.

Conventions
-----------
* A finite point is a tuple (x, y) of ints.  Arithmetic functions RETURN
  None for the point at infinity.  On INPUT, both None and the sentinel
  INF (== the string 'INF') are understood as the point at infinity.
* WCurve.decode() returns (x, y) | INF | None, where None means REJECT
  (so reject and infinity are distinguishable).  Use WCurve.norm() to turn
  a decode() result into an arithmetic operand (INF -> None).

Behaviour mirrored from crrl documentation (D = stated in a doc comment,
C = only visible in code / code comments):
* D encode_compressed(inf) = 33 zero bytes, encode_uncompressed(inf) = 65
    zero bytes (NOT the standard 1-byte 0x00).
* D decode accepts: 1 byte 0x00 (infinity); 33 bytes 02/03||x; 65 bytes
    04||x||y.  Hybrid 06/07 rejected.  33 or 65 zero bytes rejected.
    Non-canonical coordinates (>= p) rejected.  Off-curve rejected.
* D PublicKey::decode = Point::decode but rejects infinity.
* D verify_hash: even length; r = first half, s = second half, big-endian;
    out-of-range rejected.  C: halves longer than 32 bytes are accepted iff
    the surplus leading bytes are zero; shorter halves are zero-extended;
    the empty signature is rejected (r = 0).
* D sign_hash/verify_hash: hv of any length; "if hv is longer than 256 bits
    it is internally truncated".  C: the first 32 bytes are kept, shorter hv
    is left-padded with zeros (i.e. plain big-endian integer), then mod n.
* D p256 sign_hash: RFC 6979 / HMAC-SHA-256 when extra_rand is empty.
    C: non-empty extra_rand is appended in steps 3.2.d and 3.2.f (RFC 6979
    section 3.6 k'), NOT in the retry step 3.2.h.3.
* D secp256k1 sign_hash: "does not follow the exact process of RFC 6979"
    (the module-level doc nevertheless claims RFC 6979 -- inconsistent).
    C: k = LE-int(SHA-512(x_le32 || h_le32 || extra)) mod n, 0 -> 1; on
    r == 0 or s == 0: k += 1 (0 -> 1) and retry.
* D from_seed: "not described by any standard", output always valid.
    C: x = LE-int(SHA-512(prefix || seed)) mod n, 0 -> 1, with prefix
    b"crrl P-256" / b"crrl secp256k1" (the code comment misspells the
    latter as "scep256k1"; the bytes spell "secp256k1").
* truncated signatures: see p256_prepare_truncate / p256_verify_trunc.
"""

import hashlib
import hmac
import sys
import time

INF = 'INF'


def _is_inf(P):
    return P is None or (isinstance(P, str) and P == INF)


class WCurve:
    """Short Weierstrass curve y^2 = x^3 + a*x + b over GF(p), prime order n."""

    def __init__(self, name, p, a, b, n, G, seed_prefix):
        self.name = name
        self.p = p
        self.a = a % p
        self.b = b % p
        self.n = n
        self.G = G
        self.seed_prefix = seed_prefix
        assert p % 4 == 3          # sqrt via exponentiation
        assert self.on_curve(G)
        self.beta = None           # secp256k1 only
        self.lam = None            # secp256k1 only
        self._gtab = None          # lazily-built fixed-base table

    # ------------------------------------------------------------------
    # Textbook affine group law (the normative reference in this file).
    # ------------------------------------------------------------------
    @staticmethod
    def norm(P):
        """Map INF/None -> None; pass finite points through."""
        return None if _is_inf(P) else P

    @staticmethod
    def is_inf(P):
        return _is_inf(P)

    def on_curve(self, P):
        """True for infinity and for finite (x, y) with canonical coordinates
        satisfying the curve equation."""
        if _is_inf(P):
            return True
        x, y = P
        p = self.p
        if not (0 <= x < p and 0 <= y < p):
            return False
        return (y * y - (x * x * x + self.a * x + self.b)) % p == 0

    def neg(self, P):
        if _is_inf(P):
            return None
        x, y = P
        return (x, (-y) % self.p)

    def dbl(self, P):
        if _is_inf(P):
            return None
        x, y = P
        p = self.p
        if y == 0:
            return None
        lam = (3 * x * x + self.a) * pow(2 * y, -1, p) % p
        x3 = (lam * lam - 2 * x) % p
        y3 = (lam * (x - x3) - y) % p
        return (x3, y3)

    def add(self, P, Q):
        if _is_inf(P):
            return self.norm(Q)
        if _is_inf(Q):
            return P
        x1, y1 = P
        x2, y2 = Q
        p = self.p
        if x1 == x2:
            if (y1 + y2) % p == 0:
                return None
            return self.dbl(P)
        lam = (y2 - y1) * pow(x2 - x1, -1, p) % p
        x3 = (lam * lam - x1 - x2) % p
        y3 = (lam * (x1 - x3) - y1) % p
        return (x3, y3)

    def sub(self, P, Q):
        return self.add(P, self.neg(Q))

    def eq(self, P, Q):
        if _is_inf(P) or _is_inf(Q):
            return _is_inf(P) and _is_inf(Q)
        return P[0] == Q[0] and P[1] == Q[1]

    def mul_affine(self, k, P):
        """Slow reference: binary double-and-add using only the affine law.
        k is any int (reduced mod n; the group has prime order n)."""
        k %= self.n
        R = None
        P = self.norm(P)
        for i in range(k.bit_length() - 1, -1, -1):
            R = self.dbl(R)
            if (k >> i) & 1:
                R = self.add(R, P)
        return R

    # ------------------------------------------------------------------
    # Jacobian fast path: (X, Y, Z) with x = X/Z^2, y = Y/Z^3; Z == 0 is
    # infinity.  Standard textbook formulas (e.g. Hankerson-Menezes-Vanstone
    # section 3.2.2), with all exceptional cases handled explicitly.
    # ------------------------------------------------------------------
    def _jdbl(self, P):
        X, Y, Z = P
        p = self.p
        if Z == 0 or Y == 0:
            return (1, 1, 0)
        YY = Y * Y % p
        S = 4 * X * YY % p
        if self.a == 0:
            M = 3 * X * X % p
        elif self.a == p - 3:
            ZZ = Z * Z % p
            M = 3 * (X - ZZ) * (X + ZZ) % p
        else:
            ZZ = Z * Z % p
            M = (3 * X * X + self.a * ZZ * ZZ) % p
        X3 = (M * M - 2 * S) % p
        Y3 = (M * (S - X3) - 8 * YY * YY) % p
        Z3 = 2 * Y * Z % p
        return (X3, Y3, Z3)

    def _jadd(self, P, Q):
        X1, Y1, Z1 = P
        X2, Y2, Z2 = Q
        if Z1 == 0:
            return Q
        if Z2 == 0:
            return P
        p = self.p
        Z1Z1 = Z1 * Z1 % p
        Z2Z2 = Z2 * Z2 % p
        U1 = X1 * Z2Z2 % p
        U2 = X2 * Z1Z1 % p
        S1 = Y1 * Z2 * Z2Z2 % p
        S2 = Y2 * Z1 * Z1Z1 % p
        H = (U2 - U1) % p
        R = (S2 - S1) % p
        if H == 0:
            if R == 0:
                return self._jdbl(P)
            return (1, 1, 0)
        HH = H * H % p
        HHH = H * HH % p
        V = U1 * HH % p
        X3 = (R * R - HHH - 2 * V) % p
        Y3 = (R * (V - X3) - S1 * HHH) % p
        Z3 = H * Z1 * Z2 % p
        return (X3, Y3, Z3)

    def _jadd_affine(self, P, Q):
        """Mixed addition: P Jacobian, Q affine finite (x2, y2)."""
        X1, Y1, Z1 = P
        x2, y2 = Q
        if Z1 == 0:
            return (x2, y2, 1)
        p = self.p
        Z1Z1 = Z1 * Z1 % p
        U2 = x2 * Z1Z1 % p
        S2 = y2 * Z1 * Z1Z1 % p
        H = (U2 - X1) % p
        R = (S2 - Y1) % p
        if H == 0:
            if R == 0:
                return self._jdbl(P)
            return (1, 1, 0)
        HH = H * H % p
        HHH = H * HH % p
        V = X1 * HH % p
        X3 = (R * R - HHH - 2 * V) % p
        Y3 = (R * (V - X3) - Y1 * HHH) % p
        Z3 = H * Z1 % p
        return (X3, Y3, Z3)

    def _to_jac(self, P):
        if _is_inf(P):
            return (1, 1, 0)
        return (P[0], P[1], 1)

    def _from_jac(self, P):
        X, Y, Z = P
        if Z == 0:
            return None
        p = self.p
        zi = pow(Z, -1, p)
        zi2 = zi * zi % p
        return (X * zi2 % p, Y * zi2 * zi % p)

    def _jmul(self, k, P):
        """k*P, Jacobian result; width-5 signed sliding window (wNAF).
        The doubling is inlined (same formulas as _jdbl; when Z == 0 they
        yield Z3 == 0 again, and Y == 0 cannot occur in an odd-order group)."""
        k %= self.n
        if k == 0 or _is_inf(P):
            return (1, 1, 0)
        p = self.p
        a = self.a
        amode = 0 if a == 0 else (1 if a == p - 3 else 2)
        # odd multiples 1P, 3P, ..., 15P
        J1 = (P[0], P[1], 1)
        J2 = self._jdbl(J1)
        tab = [J1]
        for _ in range(7):
            tab.append(self._jadd(tab[-1], J2))
        ntab = [(T[0], p - T[1], T[2]) for T in tab]
        # wNAF digits, least significant first
        digs = []
        while k:
            if k & 1:
                d = k & 31
                if d >= 16:
                    d -= 32
                k -= d
            else:
                d = 0
            digs.append(d)
            k >>= 1
        jadd = self._jadd
        X, Y, Z = 1, 1, 0
        for d in reversed(digs):
            if Z:
                YY = Y * Y % p
                S = 4 * X * YY % p
                if amode == 0:
                    M = 3 * X * X % p
                elif amode == 1:
                    ZZ = Z * Z % p
                    M = 3 * (X - ZZ) * (X + ZZ) % p
                else:
                    ZZ = Z * Z % p
                    M = (3 * X * X + a * ZZ * ZZ) % p
                Z = 2 * Y * Z % p
                X = (M * M - 2 * S) % p
                Y = (M * (S - X) - 8 * YY * YY) % p
            if d:
                X, Y, Z = jadd((X, Y, Z),
                               tab[d >> 1] if d > 0 else ntab[(-d) >> 1])
        return (X, Y, Z)

    def _build_gtab(self):
        """Fixed-base table: tab[i][j-1] = j * 16^i * G (affine), i < 64."""
        tab = []
        B = self.G
        for _ in range(64):
            row = [B]
            J = self._to_jac(B)
            acc = J
            jrow = []
            for _j in range(2, 17):
                acc = self._jadd_affine(acc, B)
                jrow.append(acc)
            # batch-normalise jrow (15 finite points; n is a 256-bit prime so
            # none of j*16^i*G, j <= 16, is infinity)
            p = self.p
            zs = [q[2] for q in jrow]
            pref = [1]
            for z in zs:
                pref.append(pref[-1] * z % p)
            inv = pow(pref[-1], -1, p)
            aff = [None] * len(jrow)
            for idx in range(len(jrow) - 1, -1, -1):
                zi = inv * pref[idx] % p
                inv = inv * zs[idx] % p
                zi2 = zi * zi % p
                aff[idx] = (jrow[idx][0] * zi2 % p, jrow[idx][1] * zi2 * zi % p)
            row.extend(aff[:14])          # 2..15
            tab.append(row)
            B = aff[14]                    # 16 * B
        self._gtab = tab

    def _jmulgen(self, k):
        k %= self.n
        if self._gtab is None:
            self._build_gtab()
        R = (1, 1, 0)
        tab = self._gtab
        i = 0
        while k:
            d = k & 15
            if d:
                R = self._jadd_affine(R, tab[i][d - 1])
            k >>= 4
            i += 1
        return R

    def mul(self, k, P):
        """Fast k*P (k any int, P finite point or infinity)."""
        P = self.norm(P)
        if P is None:
            return None
        return self._from_jac(self._jmul(k, P))

    def mulgen(self, k):
        """Fast k*G."""
        return self._from_jac(self._jmulgen(k))

    def mul_add_mulgen(self, u, P, v):
        """u*P + v*G."""
        P = self.norm(P)
        A = self._jmulgen(v)
        if P is not None:
            A = self._jadd(A, self._jmul(u, P))
        return self._from_jac(A)

    # ------------------------------------------------------------------
    # Encodings (SEC 1 section 2.3.3 / 2.3.4, restricted as crrl documents)
    # ------------------------------------------------------------------
    def encode_compressed(self, P):
        """33 bytes.  Infinity -> 33 zero bytes (crrl-documented, NOT SEC 1)."""
        if _is_inf(P):
            return bytes(33)
        x, y = P
        return bytes([2 | (y & 1)]) + x.to_bytes(32, 'big')

    def encode_uncompressed(self, P):
        """65 bytes.  Infinity -> 65 zero bytes (crrl-documented, NOT SEC 1)."""
        if _is_inf(P):
            return bytes(65)
        x, y = P
        return b'\x04' + x.to_bytes(32, 'big') + y.to_bytes(32, 'big')

    def sqrt(self, v):
        """Square root mod p (p = 3 mod 4), or None."""
        p = self.p
        v %= p
        r = pow(v, (p + 1) // 4, p)
        if r * r % p != v:
            return None
        return r

    def lift_x(self, x, ybit):
        """Finite point with given x (0 <= x < p) and y parity, or None."""
        p = self.p
        if not (0 <= x < p):
            return None
        y = self.sqrt(x * x * x + self.a * x + self.b)
        if y is None:
            return None
        if (y & 1) != (ybit & 1):
            if y == 0:
                return None
            y = p - y
        return (x, y)

    def decode(self, buf):
        """Point::decode: returns (x, y), INF, or None (= reject)."""
        buf = bytes(buf)
        L = len(buf)
        if L == 1:
            return INF if buf[0] == 0 else None
        if L == 33:
            if buf[0] not in (2, 3):
                return None
            return self.lift_x(int.from_bytes(buf[1:], 'big'), buf[0] & 1)
        if L == 65:
            if buf[0] != 4:
                return None
            P = (int.from_bytes(buf[1:33], 'big'),
                 int.from_bytes(buf[33:], 'big'))
            if not self.on_curve(P):    # includes the range check < p
                return None
            return P
        return None

    def decode_public_key(self, buf):
        """PublicKey::decode: like decode() but infinity is rejected (None)."""
        P = self.decode(buf)
        if P is None or _is_inf(P):
            return None
        return P

    # private keys: 32 bytes big-endian, 1 <= d < n
    def decode_private_key(self, buf):
        buf = bytes(buf)
        if len(buf) != 32:
            return None
        d = int.from_bytes(buf, 'big')
        if not (1 <= d < self.n):
            return None
        return d

    def encode_private_key(self, d):
        assert 1 <= d < self.n
        return d.to_bytes(32, 'big')


# ----------------------------------------------------------------------
# Curve parameters (SEC 2 v2 sections 2.4.1 and 2.4.2; FIPS 186-4 D.1.2.3)
# ----------------------------------------------------------------------
P256 = WCurve(
    'p256',
    p=2**256 - 2**224 + 2**192 + 2**96 - 1,
    a=-3,
    b=0x5AC635D8AA3A93E7B3EBBD55769886BC651D06B0CC53B0F63BCE3C3E27D2604B,
    n=0xFFFFFFFF00000000FFFFFFFFFFFFFFFFBCE6FAADA7179E84F3B9CAC2FC632551,
    G=(0x6B17D1F2E12C4247F8BCE6E563A440F277037D812DEB33A0F4A13945D898C296,
       0x4FE342E2FE1A7F9B8EE7EB4A7C0F9E162BCE33576B315ECECBB6406837BF51F5),
    seed_prefix=b'crrl P-256')

SECP256K1 = WCurve(
    'secp256k1',
    p=2**256 - 2**32 - 977,
    a=0,
    b=7,
    n=0xFFFFFFFFFFFFFFFFFFFFFFFFFFFFFFFEBAAEDCE6AF48A03BBFD25E8CD0364141,
    G=(0x79BE667EF9DCBBAC55A06295CE870B07029BFCDB2DCE28D959F2815B16F81798,
       0x483ADA7726A3C4655DA4FBFC0E1108A8FD17B448A68554199C47D08FFB10D4B8),
    seed_prefix=b'crrl secp256k1')

CURVES = {'p256': P256, 'secp256k1': SECP256K1}


def _nontrivial_cube_roots(m):
    """The two primitive cube roots of 1 modulo the prime m (m = 1 mod 3)."""
    assert m % 3 == 1
    g = 2
    while True:
        w = pow(g, (m - 1) // 3, m)
        if w != 1:
            return sorted((w, w * w % m))
        g += 1


def _init_secp256k1_endo():
    """GLV endomorphism constants, computed (not copied) then compared in
    selftest() with the constants in crrl's source.

    crrl (code comments above `fn zeta`): epsilon is the LOWER (as an
    integer) of the two non-trivial cube roots of 1 mod p; zeta(x, y) =
    (epsilon*x, y) = theta*(x, y) for the corresponding cube root theta of 1
    mod n.  We expose beta = epsilon and lam = theta (also as attributes
    `epsilon` and `theta`)."""
    c = SECP256K1
    beta = _nontrivial_cube_roots(c.p)[0]
    img = (beta * c.G[0] % c.p, c.G[1])
    lam = None
    for cand in _nontrivial_cube_roots(c.n):
        if c.eq(c.mul_affine(cand, c.G), img):
            lam = cand
    assert lam is not None
    c.beta = c.epsilon = beta
    c.lam = c.theta = lam


_init_secp256k1_endo()


def endo(P):
    """secp256k1 endomorphism zeta: (x, y) -> (beta*x, y) (= lam * P)."""
    c = SECP256K1
    if _is_inf(P):
        return None
    return (c.beta * P[0] % c.p, P[1])


# ----------------------------------------------------------------------
# ECDSA
# ----------------------------------------------------------------------
def hash_to_scalar(curve, hv):
    """h = big-endian integer of the first 32 bytes of hv (all of hv if
    shorter), reduced mod n.  Equals RFC 6979 bits2int()/mod n for qlen=256."""
    hv = bytes(hv)
    return int.from_bytes(hv[:32], 'big') % curve.n


def split_sig(curve, sig):
    """Parse a raw signature as verify_hash does.  Returns (r, s) with both in
    [1, n-1], or None.  Even length required; halves longer than 32 bytes are
    accepted only when the surplus leading bytes are all zero; shorter halves
    are zero-extended (the empty signature gives r = 0 and is rejected)."""
    sig = bytes(sig)
    if len(sig) & 1:
        return None
    h = len(sig) >> 1
    r = int.from_bytes(sig[:h], 'big')   # leading zeros are harmless
    s = int.from_bytes(sig[h:], 'big')
    if not (1 <= r < curve.n and 1 <= s < curve.n):
        return None
    return (r, s)


def ecdsa_verify(curve, Q, sig, hv):
    """PublicKey::verify_hash.  Q is an affine point.  (Q = infinity is not a
    valid public key and PublicKey::decode rejects it, but crrl's PublicKey
    has a public `point` field, so it can be constructed; like crrl we then
    simply evaluate the verification equation with Q = infinity.)"""
    rs = split_sig(curve, sig)
    if rs is None:
        return False
    r, s = rs
    n = curve.n
    h = hash_to_scalar(curve, hv)
    w = pow(s, -1, n)
    R = curve.mul_add_mulgen(r * w % n, Q, h * w % n)
    if R is None:
        return False
    return R[0] % n == r


def ecdsa_verify_affine(curve, Q, sig, hv):
    """Same predicate, using only the slow affine law (cross-check)."""
    rs = split_sig(curve, sig)
    if rs is None:
        return False
    r, s = rs
    n = curve.n
    h = hash_to_scalar(curve, hv)
    w = pow(s, -1, n)
    R = curve.add(curve.mul_affine(h * w % n, curve.G),
                  curve.mul_affine(r * w % n, Q))
    if R is None:
        return False
    return R[0] % n == r


def _hmac256(key, *parts):
    return hmac.new(key, b''.join(parts), hashlib.sha256).digest()


def rfc6979_nonces(curve, d, hv, extra=b''):
    """Generator of candidate k values, RFC 6979 section 3.2 with
    HMAC-SHA-256, qlen = hlen = 256 (one HMAC block per candidate), optional
    additional data k' = extra (section 3.6) in steps d and f.
    Yields only candidates in [1, n-1]; the caller rejects k giving r=0/s=0
    by pulling the next value (step h.3 is then applied)."""
    n = curve.n
    assert n.bit_length() == 256
    extra = bytes(extra)
    x = d.to_bytes(32, 'big')                              # int2octets(x)
    hb = hash_to_scalar(curve, hv).to_bytes(32, 'big')     # bits2octets(h1)
    V = b'\x01' * 32
    K = b'\x00' * 32
    K = _hmac256(K, V, b'\x00', x, hb, extra)
    V = _hmac256(K, V)
    K = _hmac256(K, V, b'\x01', x, hb, extra)
    V = _hmac256(K, V)
    while True:
        V = _hmac256(K, V)
        k = int.from_bytes(V, 'big')
        if 1 <= k < n:
            yield k
        K = _hmac256(K, V, b'\x00')
        V = _hmac256(K, V)


def _ecdsa_sign_with_nonces(curve, d, hv, nonces):
    n = curve.n
    assert 1 <= d < n
    h = hash_to_scalar(curve, hv)
    for k in nonces:
        R = curve.mulgen(k)
        if R is None:
            continue
        r = R[0] % n
        s = (h + d * r) * pow(k, -1, n) % n
        if r == 0 or s == 0:
            continue
        return r.to_bytes(32, 'big') + s.to_bytes(32, 'big')
    raise AssertionError('nonce source exhausted')


def p256_sign(d, hv, extra=b''):
    """p256::PrivateKey::sign_hash(hv, extra): 64 bytes r||s big-endian."""
    return _ecdsa_sign_with_nonces(P256, d, hv,
                                   rfc6979_nonces(P256, d, hv, extra))


def secp256k1_nonces(d, hv, extra=b''):
    """crrl-specific nonce for secp256k1 (layout taken from the CODE of
    secp256k1::PrivateKey::sign_hash; the doc comment only says that RFC 6979
    is not followed exactly):
        k = LE-int(SHA-512( LE32(d) || LE32(h) || extra )) mod n, 0 -> 1
    retry (r == 0 or s == 0): k = k + 1 mod n, 0 -> 1."""
    c = SECP256K1
    n = c.n
    h = hash_to_scalar(c, hv)
    dg = hashlib.sha512(d.to_bytes(32, 'little') + h.to_bytes(32, 'little')
                        + bytes(extra)).digest()
    k = int.from_bytes(dg, 'little') % n
    if k == 0:
        k = 1
    while True:
        yield k
        k = (k + 1) % n
        if k == 0:
            k = 1


def secp256k1_sign(d, hv, extra=b''):
    """secp256k1::PrivateKey::sign_hash(hv, extra): 64 bytes r||s."""
    return _ecdsa_sign_with_nonces(SECP256K1, d, hv,
                                   secp256k1_nonces(d, hv, extra))


def ecdsa_sign(curve, d, hv, extra=b''):
    if curve is P256:
        return p256_sign(d, hv, extra)
    if curve is SECP256K1:
        return secp256k1_sign(d, hv, extra)
    raise ValueError('unknown curve')


def private_from_seed(curve, seed):
    """PrivateKey::from_seed: LE-int(SHA-512(prefix || seed)) mod n, 0 -> 1.
    (Doc comment: non-standard, always valid; construction from the code.)"""
    dg = hashlib.sha512(curve.seed_prefix + bytes(seed)).digest()
    d = int.from_bytes(dg, 'little') % curve.n
    return d if d != 0 else 1


def public_key(curve, d):
    """PrivateKey::to_public_key: d*G (affine)."""
    return curve.mulgen(d)


# ----------------------------------------------------------------------
# Truncated signatures (P-256 only)
# ----------------------------------------------------------------------
def p256_prepare_truncate(sig):
    """p256::PrivateKey::prepare_truncate, per its doc comment:
      - parse (r, s), unsigned big-endian halves;
      - if s >= 2^255 replace s by n - s;
      - output r (32 bytes big-endian) || s (32 bytes LITTLE-endian).
    None if r or s is out of range ([1, n-1]) or if r < p - n.

    Length rule (from the code; the doc comment is silent): None unless
    len(sig) is even and 2 <= len(sig) <= 64 (unlike verify_hash, longer
    zero-padded signatures are refused).  Shorter halves are zero-extended.

    KNOWN DIVERGENCE: for 32 <= len(sig) < 64 crrl copies sig[..32] verbatim
    into the output instead of the zero-extended r, so its output is wrong
    whenever it is not None (this oracle returns the documented value;
    divergence confirmed against the compiled library for lengths 32..62).  For
    len(sig) < 32 crrl returns None (r < 2^120 < p - n), as does the oracle.
    """
    sig = bytes(sig)
    L = len(sig)
    if (L & 1) or L == 0 or L > 64:
        return None
    c = P256
    h = L >> 1
    r = int.from_bytes(sig[:h], 'big')
    s = int.from_bytes(sig[h:], 'big')
    if not (1 <= s < c.n) or not (c.p - c.n <= r < c.n):
        return None
    if s >> 255:
        s = c.n - s
    return r.to_bytes(32, 'big') + s.to_bytes(32, 'little')


def _trunc_parse(sig, rm):
    """Common front end.  Returns (r, s0, nbits) or None.
    nbits = 256 - rm = number of low-order bits of s that are kept."""
    if not (8 <= rm <= 32):
        # crrl: assert!(rm >= 8 && rm <= 32)  -> panic
        raise ValueError('rm must be in 8..=32 (crrl panics otherwise)')
    sig = bytes(sig)
    if len(sig) != 64:
        return None
    c = P256
    r = int.from_bytes(sig[:32], 'big')
    nbits = 256 - rm
    # "the last floor(rm/8) bytes are ignored, as well as the top rm%8 bits
    # of the last non-ignored byte": s is little-endian, so exactly the top
    # rm bits of s are ignored.
    s0 = int.from_bytes(sig[32:], 'little') & ((1 << nbits) - 1)
    if not (1 <= r < c.n):
        return None
    # Documented precondition: sig came from prepare_truncate(), which
    # refuses r < p - n, so x(R) = r exactly (never r + n).
    if r < c.p - c.n:
        return None
    return (r, s0, nbits)


def p256_verify_trunc(Q, sig, rm, hv, full_range=False, method=None):
    """p256::PublicKey::verify_trunc_hash(sig, rm, hv) reference.

    sig: 64 bytes in the prepare_truncate() format (r big-endian, s
    little-endian) whose last rm bits (= the rm most significant bits of the
    256-bit little-endian s field) are ignored.  8 <= rm <= 32 (ValueError
    otherwise; crrl panics).  Returns the completed signature in STANDARD
    form r (32 bytes BE) || s (32 bytes BE), with s = s0 + s1 * 2^(256-rm),
    or None when no completion verifies.

    Candidate set: a prepared signature has s < 2^255, so only rm-1 bits are
    really unknown: s1 in [0, 2^(rm-1)) (default).  With full_range=True all
    s1 in [0, 2^rm) with s < n are tried.  At most one candidate can verify
    (the two possible values t and n-t of s differ in bit 0).

    method: 'verify' = brute force, one full ecdsa_verify per candidate
    (default for rm <= 12); 'walk' = incremental affine walk (default for
    rm > 12; practical up to rm ~ 20 in Python).

    NOTE (code-derived, not documented): crrl's baby-step/giant-step search
    effectively covers s1 in [-2^k, 2^m + 2^k] (m = rm-1, k = ceil(m/2)),
    arithmetic on s done mod n; hits with s1 outside [0, 2^m) return a VALID
    signature which however does not agree with the supplied bits (observed
    on the real library for s1 = -1, i.e. true s in [n - 2^(256-rm), n), when
    the y-parity of the lifted R happens to be the "wrong" one: about half of
    such inputs).  Use p256_trunc_walk() with explicit bounds to probe that.
    """
    pr = _trunc_parse(sig, rm)
    if pr is None:
        return None
    r, s0, nbits = pr
    hi = (1 << rm) if full_range else (1 << (rm - 1))
    if method is None:
        method = 'verify' if rm <= 12 else 'walk'
    if method == 'walk':
        res = p256_trunc_walk(Q, sig, rm, hv, 0, hi - 1)
        return None if res is None else res[1]
    c = P256
    rb = r.to_bytes(32, 'big')
    found = None
    for s1 in range(hi):
        s = s0 + (s1 << nbits)
        if not (1 <= s < c.n):
            continue
        cand = rb + s.to_bytes(32, 'big')
        if ecdsa_verify(c, Q, cand, hv):
            assert found is None
            found = cand
    return found


def p256_trunc_walk(Q, sig, rm, hv, s1_lo, s1_hi):
    """Search s = (s0 + s1 * 2^(256-rm)) mod n for s1 in [s1_lo, s1_hi]
    (bounds may be negative) such that (r, s) verifies; returns
    (s1, r||s big-endian) for the first hit or None.  Uses the affine law:
    T(s1) = s*R with R = lift_x(r); (r, s) is valid iff x(T) = x(h*G + r*Q).
    Each hit is confirmed with ecdsa_verify()."""
    pr = _trunc_parse(sig, rm)
    if pr is None:
        return None
    r, s0, nbits = pr
    c = P256
    R = c.lift_x(r, 0)
    if R is None:
        return None
    h = hash_to_scalar(c, hv)
    V = c.mul_add_mulgen(r, Q, h)
    if V is None:
        return None
    U = c.mul(1 << nbits, R)
    T = c.mul((s0 + (s1_lo << nbits)) % c.n, R)
    rb = r.to_bytes(32, 'big')
    for s1 in range(s1_lo, s1_hi + 1):
        if T is not None and T[0] == V[0]:
            s = (s0 + (s1 << nbits)) % c.n
            cand = rb + s.to_bytes(32, 'big')
            if s != 0 and ecdsa_verify(c, Q, cand, hv):
                return (s1, cand)
        T = c.add(T, U)
    return None


# ----------------------------------------------------------------------
# Known-answer vectors
# ----------------------------------------------------------------------
# RFC 6979 appendix A.2.5 (P-256, SHA-256 only: the nonce HMAC is fixed to
# SHA-256 here, so the SHA-1/224/384/512 rows do not apply).
RFC6979_P256 = {
    'x': 0xC9AFA9D845BA75166B5C215767B1D6934E50C3DB36E89B127B8A622B120F6721,
    'Ux': 0x60FED4BA255A9D31C961EB74C6356D68C049B8923B61FA6CE669622E60F29FB6,
    'Uy': 0x7903FE1008B8BC99A41AE9E95628BC64F2F1B20C2D7E9F5177A3C294D4462299,
    'cases': [
        (b'sample',
         0xA6E3C57DD01ABE90086538398355DD4C3B17AA873382B0F24D6129493D8AAD60,
         0xEFD48B2AACB6A8FD1140DD9CD45E81D69D2C877B56AAF991C34D0EA84EAF3716,
         0xF7CB1C942D657C41D436C7A1B6E29F65F3E900DBB9AFF4064DC4AB2F843ACDA8),
        (b'test',
         0xD16B6AE827F17175E040871A1C7EC3500192C4C92677336EC2537ACAEE0008E0,
         0xF1ABB023518351CD71D881567B1EA663ED3EFCF6C5132B354F28D3B0B7D38367,
         0x019F4113742A2B14BD25926B49C649155F267E60D3814B4C0CC84250E46F0083),
    ],
}

# Harvested from `mod tests` of /repo/src/p256.rs and /repo/src/secp256k1.rs.
CRRL_KATS = {
    'p256': {
        # base_arith: i*P for i = 0..6 (compressed / uncompressed); entry 0 is
        # what encode_*() yields for the neutral (all zeros).
        'EPC': [
            '000000000000000000000000000000000000000000000000000000000000000000',
            '02aa0eb989a07c30f9ec83c1f102762f752d77d8d72271e55bdba6216a976b1eaf',
            '02bb49e8a7677e4cbab75855b309f3336dadb8aafff9547a39c4b5868d2fe9d4d6',
            '02c4c308933735331dbd22d84a026fea53a18642f627ef9eb0d6e2a68a2eb8b47c',
            '027fac28e6b52ba82e831edc293d5973b9c65f43f64ab4f37c3858802a994f34e8',
            '03aa1a3326bfbb578d4b16bd94a18e885c6f536ee1f46a99af43f0912efd446b85',
            '021458de7a34094e6831592d48135fdcc58aa525bf1bf765ce405b53362f36dea4',
        ],
        'EPU': [
            '00' * 65,
            '04aa0eb989a07c30f9ec83c1f102762f752d77d8d72271e55bdba6216a976b1eaf7d04ebef40bf57f4af34d2eb591484fad267bb92288a6c8c883dd124a7f9b8d6',
            '04bb49e8a7677e4cbab75855b309f3336dadb8aafff9547a39c4b5868d2fe9d4d6537bb04610f80e0043a79f52e4f8b85c88745e72e0cde9704b1982fa92976bf6',
            '04c4c308933735331dbd22d84a026fea53a18642f627ef9eb0d6e2a68a2eb8b47c86b770a3de940a786fc9970e9b418a7e26eacd70523f17a12c6af4fd0047b52c',
            '047fac28e6b52ba82e831edc293d5973b9c65f43f64ab4f37c3858802a994f34e880e9490bfb97758437c6e282686c087ddb2123dc445615b00171614279c3640c',
            '04aa1a3326bfbb578d4b16bd94a18e885c6f536ee1f46a99af43f0912efd446b85784619a3efe1d0ccd8616af11447bfd77e36b5f78d531cc86b8d7b2b58e6268f',
            '041458de7a34094e6831592d48135fdcc58aa525bf1bf765ce405b53362f36dea42027dfc59c29d1db2d5b676f36c8c7dac1637669d1aad8466326fed20f626b9c',
        ],
        # mulgen: scalar, compressed(scalar*G)
        'mulgen': (0x7DC39B763DF3A5EA46AC87887B246E48D9DC3839C0D466E46DFE006C126C829B,
                   '0253135293e1f3d3be74bf7d50d99ca08541b036e09db783fc7908a0daf394da6f'),
        # signatures: RFC 6979 A.2.5
        'sig_priv': 'c9afa9d845ba75166b5c215767b1d6934e50c3db36e89b127b8a622b120f6721',
        'sig_pub': '0460fed4ba255a9d31c961eb74c6356d68c049b8923b61fa6ce669622e60f29fb67903fe1008b8bc99a41ae9e95628bc64f2f1b20c2d7e9f5177a3c294d4462299',
        'sigs': [
            (b'sample', 'efd48b2aacb6a8fd1140dd9cd45e81d69d2c877b56aaf991c34d0ea84eaf3716f7cb1c942d657c41d436c7a1b6e29f65f3e900dbb9aff4064dc4ab2f843acda8'),
            (b'test', 'f1abb023518351cd71d881567b1ea663ed3efcf6c5132b354f28d3b0b7d38367019f4113742a2b14bd25926b49c649155f267e60d3814b4c0cc84250e46f0083'),
        ],
        # Not from tests: entries of the PRECOMP_G* tables in p256.rs
        # (k, x, y) with (x, y) = k*G.
        'table': [
            (2, 0x7CF27B188D034F7E8A52380304B51AC3C08969E277F21B35A60B48FC47669978,
                0x07775510DB8ED040293D9AC69F7430DBBA7DADE63CE982299E04B79D227873D1),
            (16, 0x76A94D138A6B41858B821C629836315FCD28392EFF6CA038A5EB4787E1277C6E,
                 0xA985FE61341F260E6CB0A1B5E11E87208599A0040FC78BAA0E9DDD724B8C5110),
            (1 << 65, 0x031A8747DF8DC746E4C13D030696080153FE448A57324591794A16BAA05F57B5,
                      0x883A2C64FDA8D58660E8AA6C1E387A321431C18C42B8DEF21827EE579C0343FD),
            (1 << 130, 0x2890D721E57E196118E63ADD579547F0ACAD16E63BE0AEA8F6F1D3AC4D771F0C,
                       0x69B5B8159DDC032AAF77E1D1416752EC7DC0E7F77EF540690A5728ECB5890D78),
            (1 << 195, 0x9A79BFBFE71E347F4D6C6698316797E2F5AC2A3900F5ABF0C409332DE46E2050,
                       0xE98B4DE6D316E200B6F671F3B224EFA9CA94FACCB6DFDE317A3F4781926250D2),
            (16 << 195, 0x5CE4FD836044BAF3A1623065BCE83B11FD7516A5B209D887D79A7081AFAEFC6A,
                        0x61042108AA50F3681E31BC1EA832C7144ABFBD4AB9E4ACCE38606DFBBF9DB9A6),
        ],
    },
    'secp256k1': {
        'EPC': [
            '000000000000000000000000000000000000000000000000000000000000000000',
            '0285fc56c5d6ccd98a3d6114ab0c8b09cd5e8fd90d6c966ed9f9e192b2f7394288',
            '021e150e1008663caab354d92455310acf5a51d14ccaeb1becb148d7dd797ea55a',
            '02600c54b96805c8adf711ecf035effb42609f4ce58012bef1a68ce643225b6dbf',
            '02caa244ddbf5ed5cb1384a4689eeccaaa084080aa53cca34bc52fbc90a53eb1e1',
            '036bd1675d2445c184e0cd49ed125e98896bb6f0bbd01f3f49df67c8ba58d5e616',
            '0356ffc19eaed6d46bd73a0e3fb47759c9fa58ff10a637f4bf5e1e96e208ad4266',
        ],
        'EPU': [
            '00' * 65,
            '0485fc56c5d6ccd98a3d6114ab0c8b09cd5e8fd90d6c966ed9f9e192b2f73942889b5987ff8b5b16128643b83df26ff76624456270e86b4fe492130f613b950472',
            '041e150e1008663caab354d92455310acf5a51d14ccaeb1becb148d7dd797ea55a233af450e5463a913a53e3ccfc927794b86c439d43ad3152d1b1053c16269b32',
            '04600c54b96805c8adf711ecf035effb42609f4ce58012bef1a68ce643225b6dbfc8458ccba641b7180d47e9c064cb6cf49ed6267dbc4ca4a0b6b59cddf307c1f6',
            '04caa244ddbf5ed5cb1384a4689eeccaaa084080aa53cca34bc52fbc90a53eb1e119d027562b0631e97735b7718890af1118199712d473632c594a56648e89d044',
            '046bd1675d2445c184e0cd49ed125e98896bb6f0bbd01f3f49df67c8ba58d5e616a0102adbee273b6ba30266c336ec5cc2ba3d3b25cbd693aad4720f729e6b5f81',
            '0456ffc19eaed6d46bd73a0e3fb47759c9fa58ff10a637f4bf5e1e96e208ad426642dadd63f7cb8b3b0f77345d98eadf4bbc71e06b6c5186eeaa55291f1328db0f',
        ],
        'mulgen': (0xF0FCA55C06488D1C6CA454ED29573B6C89D4F76592F96F1098BD4A5F08DF863E,
                   '0208289c906282497194389ea32bd63518adeae84c179fea6fd2531a71144c94fa'),
        # signatures: Wycheproof ecdsa_secp256k1_sha256_p1363_test.json
        'wy_pub': '04b838ff44e5bc177bf21189d0766082fc9d843226887fc9760371100b7ee20a6ff0c9d75bfba7b31a6bca1974496eeb56de357071955d83c4b1badaa0b21832e9',
        'wy_msg': b'123400',
        'wy_sig': '813ef79ccefa9a56f7ba805f0e478584fe5f0dd5f567bc09b5123ccbc9832365900e75ad233fcc908509dbff5922647db37c21f4afd3203ae8dc4ae7794b0f87',
        # split_theta test constant / source constants
        'THETA': 0x5363AD4CC05C30E0A5261C028812645A122E22EA20816678DF02967C1B23BD72,
        'EPSILON': 0x7AE96A2B657C07106E64479EAC3434E99CF0497512F58995C1396C28719501EE,
        'glv_s': 64502973549206556628585045361533709077,
        'glv_t': 303414439467246543595250775667605759171,
        'table': [
            (2, 0xC6047F9441ED7D6D3045406E95C07CD85C778E4B8CEF3CA7ABAC09B95C709EE5,
                0x1AE168FEA63DC339A3C58419466CEAEEF7F632653266D0E1236431A950CFE52A),
            (16, 0xE60FCE93B59E9EC53011AABC21C23E97B2A31369B87A5AE9C44EE89E2A6DEC0A,
                 0xF7E3507399E595929DB99F34F57937101296891E44D23F0BE1F32CCE69616821),
            (1 << 65, 0x8D26200250CEBDAE120EF31B04C80CD50D4CDDC8EADBCF29FC696D32C0ADE462,
                      0xEBED3BB4715BF437D31F6F2DC3EE36BA1D4AFB4E72678B3AD8E0A8B90F26470C),
            (1 << 130, 0x7564539E85D56F8537D6619E1F5C5AA78D2A3DE0889D1D4EE8DBCB5729B62026,
                       0xC1D685413749B3C65231DF524A722925684AACD954B79F334172C8FADACE0CF3),
            (1 << 195, 0x60144494C8F694485B85ECB6AEE10956C756267D12894711922243D5E855B8DA,
                       0x8BB5D669F681E6469E8BE1FD9132E65B543955C27E3F2A4BAD500590F34E4BBD),
        ],
    },
}


# ----------------------------------------------------------------------
# Self-test
# ----------------------------------------------------------------------
class _Counter:
    def __init__(self):
        self.cat = {}
        self.fail = []
        self.order = []

    def check(self, cat, cond, what=''):
        if cat not in self.cat:
            self.cat[cat] = [0, 0]
            self.order.append(cat)
        self.cat[cat][0] += 1
        if cond:
            self.cat[cat][1] += 1
        else:
            self.fail.append('%s: %s' % (cat, what))


def _sha256(b):
    return hashlib.sha256(b).digest()


def _le_scalar(curve, b):
    """crrl Scalar::decode_reduce: little-endian bytes, reduced mod n."""
    return int.from_bytes(b, 'little') % curve.n


def _st_rfc6979(T):
    cat = '1 RFC6979 A.2.5 (P-256/SHA-256)'
    c = P256
    v = RFC6979_P256
    x = v['x']
    U = public_key(c, x)
    T.check(cat, U == (v['Ux'], v['Uy']), 'public key')
    T.check(cat, c.mul_affine(x, c.G) == (v['Ux'], v['Uy']), 'public key (affine)')
    for msg, k, r, s in v['cases']:
        hv = _sha256(msg)
        k0 = next(rfc6979_nonces(c, x, hv))
        T.check(cat, k0 == k, 'k for %r' % msg)
        T.check(cat, c.mulgen(k)[0] % c.n == r, 'r = x(kG) for %r' % msg)
        sig = p256_sign(x, hv)
        T.check(cat, sig == r.to_bytes(32, 'big') + s.to_bytes(32, 'big'),
                'signature for %r' % msg)
        T.check(cat, ecdsa_verify(c, U, sig, hv), 'verify %r' % msg)
        T.check(cat, ecdsa_verify_affine(c, U, sig, hv), 'verify(affine) %r' % msg)


def _st_base_arith(T, c):
    cat = '2a crrl base_arith (%s)' % c.name
    K = CRRL_KATS[c.name]
    EPC = [bytes.fromhex(h) for h in K['EPC']]
    EPU = [bytes.fromhex(h) for h in K['EPU']]
    P0 = c.decode(b'\x00')
    T.check(cat, P0 == INF and c.is_inf(P0), 'decode 0x00 -> neutral')
    PP = [None] * 7
    for i in range(1, 7):
        P = c.decode(EPC[i])
        Q = c.decode(EPU[i])
        T.check(cat, P is not None and not c.is_inf(P), 'EPC[%d] decodes' % i)
        T.check(cat, Q is not None and not c.is_inf(Q), 'EPU[%d] decodes' % i)
        T.check(cat, c.eq(P, Q), 'EPC/EPU[%d] same point' % i)
        T.check(cat, c.encode_compressed(P) == EPC[i], 'enc comp %d' % i)
        T.check(cat, c.encode_uncompressed(P) == EPU[i], 'enc uncomp %d' % i)
        PP[i] = P
    # neutral encodings as used by the crrl test tables (entry 0)
    T.check(cat, c.encode_compressed(None) == EPC[0], 'enc comp neutral')
    T.check(cat, c.encode_uncompressed(INF) == EPU[0], 'enc uncomp neutral')
    # ... which are documented NOT to decode
    T.check(cat, c.decode(EPC[0]) is None, '33 zeros rejected')
    T.check(cat, c.decode(EPU[0]) is None, '65 zeros rejected')
    P1, P2, P3, P4, P5, P6 = PP[1:]
    for i in range(1, 7):
        T.check(cat, not c.eq(PP[i], PP[i - 1]), 'P%d != P%d' % (i, i - 1))
        Q = c.add(PP[i - 1], PP[1])
        T.check(cat, c.eq(PP[i], Q), 'P%d = P%d + P1' % (i, i - 1))
        T.check(cat, c.eq(c.add(Q, None), Q), 'Q + neutral')
        T.check(cat, c.eq(c.add(Q, P0), PP[i]), 'Q + decoded neutral')
        T.check(cat, c.eq(c.mul(i, P1), PP[i]), 'mul(%d, P1)' % i)
        T.check(cat, c.eq(c.mul_affine(i, P1), PP[i]), 'mul_affine(%d, P1)' % i)
    Q2 = c.add(P1, P1)
    T.check(cat, c.encode_compressed(Q2) == EPC[2], 'P1+P1')
    R2 = c.dbl(P1)
    T.check(cat, c.encode_compressed(R2) == EPC[2] and c.eq(R2, Q2), 'dbl P1')
    Q3 = c.add(P2, P1)
    R3 = c.add(Q2, P1)
    T.check(cat, c.encode_compressed(Q3) == EPC[3] and c.eq(R3, Q3), '3P')
    Q4 = c.dbl(Q2)
    T.check(cat, c.encode_compressed(Q4) == EPC[4], 'dbl(2P)')
    T.check(cat, c.eq(c.mul(4, P1), P4), 'xdouble(2)')
    T.check(cat, c.eq(c.add(P1, Q3), P4), 'P1+3P')
    Q5 = c.add(Q3, R2)
    R5 = c.add(R3, Q2)
    T.check(cat, c.encode_compressed(Q5) == EPC[5] and c.eq(R5, Q5), '5P')
    T.check(cat, c.eq(c.sub(R5, Q3), Q2), '5P-3P')
    Q6 = c.dbl(Q3)
    R6 = c.add(Q2, Q4)
    T.check(cat, c.encode_compressed(Q6) == EPC[6] and c.eq(R6, Q6), '6P')
    P = Q6
    for _ in range(8):
        P = c.add(P, P)
    T.check(cat, c.eq(P, c.mul(256, R6)), '8 doublings = xdouble(8)')
    P = c.add(P1, c.dbl(P0))
    T.check(cat, c.eq(P, P1) and not c.eq(P, P2), 'P1 + 2*neutral')


def _st_mul_kats(T, c):
    K = CRRL_KATS[c.name]
    cat = '2b crrl mulgen/mul/mul_add_mulgen/verify_helper (%s)' % c.name
    s, ench = K['mulgen']
    enc = bytes.fromhex(ench)
    R = c.decode(enc)
    T.check(cat, R is not None and R != INF, 'mulgen vector decodes')
    T.check(cat, c.eq(c.mul(s, c.G), R), 'BASE * s')
    T.check(cat, c.eq(c.mulgen(s), R), 'mulgen(s)')
    T.check(cat, c.eq(c.mul_affine(s, c.G), R), 'mul_affine(s, G)')
    T.check(cat, c.encode_compressed(c.mulgen(s)) == enc, 'mulgen encoding')
    # fn mul(): mulgen(s1*s2) == s2*(s1*G)
    for i in range(20):
        s1 = _le_scalar(c, _sha256((2 * i).to_bytes(8, 'little')))
        s2 = _le_scalar(c, _sha256((2 * i + 1).to_bytes(8, 'little')))
        P1 = c.mulgen(s1)
        Q1 = c.mul(s1, c.G)
        T.check(cat, c.eq(P1, Q1), 'mul %d: mulgen vs mul' % i)
        T.check(cat, c.eq(c.mulgen(s1 * s2 % c.n), c.mul(s2, Q1)), 'mul %d: s1*s2' % i)
    # fn mul_add_mulgen() and fn verify_helper()
    for i in range(20):
        v1 = _le_scalar(c, _sha256((3 * i).to_bytes(8, 'little')))
        u = _le_scalar(c, _sha256((3 * i + 1).to_bytes(8, 'little')))
        v = _le_scalar(c, _sha256((3 * i + 2).to_bytes(8, 'little')))
        A = c.mulgen(v1)
        R1 = c.add(c.mul(u, A), c.mulgen(v))
        T.check(cat, c.eq(R1, c.mul_add_mulgen(u, A, v)), 'mul_add_mulgen %d' % i)
        # verify_helper: R = s*G - k*Q  (Q = A, s = u, k = v)
        R = c.sub(c.mulgen(u), c.mul(v, A))
        T.check(cat, c.eq(c.mul_add_mulgen(-v, A, u), R), 'verify_helper %d' % i)
        T.check(cat, not c.eq(c.mul_add_mulgen(-v, A, u + 1), R), 'verify_helper %d s+1' % i)
    # Not from tests: PRECOMP table samples from the source.
    cat = '2c crrl PRECOMP table samples (%s)' % c.name
    for k, x, y in K['table']:
        T.check(cat, c.mulgen(k) == (x, y), 'mulgen table %d' % k)
        T.check(cat, c.mul(k, c.G) == (x, y), 'mul table %d' % k)
        T.check(cat, c.mul_affine(k, c.G) == (x, y), 'mul_affine table %d' % k)


def _st_sig_p256(T):
    cat = '2d crrl signatures (p256)'
    c = P256
    K = CRRL_KATS['p256']
    d = c.decode_private_key(bytes.fromhex(K['sig_priv']))
    T.check(cat, d is not None, 'private key decodes')
    Q = public_key(c, d)
    T.check(cat, c.encode_uncompressed(Q).hex() == K['sig_pub'], 'public key')
    T.check(cat, c.decode_public_key(bytes.fromhex(K['sig_pub'])) == Q, 'public key decode')
    hvs, sigs = [], []
    for msg, sh in K['sigs']:
        hv = _sha256(msg)
        sig = p256_sign(d, hv, b'')
        T.check(cat, sig.hex() == sh, 'sign %r' % msg)
        hvs.append(hv)
        sigs.append(sig)
    T.check(cat, ecdsa_verify(c, Q, sigs[0], hvs[0]), 'verify 1')
    T.check(cat, ecdsa_verify(c, Q, sigs[1], hvs[1]), 'verify 2')
    T.check(cat, not ecdsa_verify(c, Q, sigs[0], hvs[1]), 'verify 1/2')
    T.check(cat, not ecdsa_verify(c, Q, sigs[1], hvs[0]), 'verify 2/1')


def _st_sig_k1(T):
    cat = '2e crrl signatures (secp256k1)'
    c = SECP256K1
    K = CRRL_KATS['secp256k1']
    pkey = c.decode_public_key(bytes.fromhex(K['wy_pub']))
    T.check(cat, pkey is not None, 'wycheproof key decodes')
    sig = bytes.fromhex(K['wy_sig'])
    hv1 = _sha256(K['wy_msg'])
    hv2 = _sha256(K['wy_msg'] + b'\x00')
    T.check(cat, ecdsa_verify(c, pkey, sig, hv1), 'wycheproof verify')
    T.check(cat, ecdsa_verify_affine(c, pkey, sig, hv1), 'wycheproof verify (affine)')
    T.check(cat, not ecdsa_verify(c, pkey, sig, hv2), 'wycheproof wrong msg')
    for i in range(20):
        seed = _sha256(i.to_bytes(8, 'little'))
        d = private_from_seed(c, seed)
        pk = public_key(c, d)
        sig1 = secp256k1_sign(d, hv1, b'')
        sig2 = secp256k1_sign(d, hv2, b'')
        ok = (ecdsa_verify(c, pk, sig1, hv1) and ecdsa_verify(c, pk, sig2, hv2)
              and not ecdsa_verify(c, pk, sig1, hv2)
              and not ecdsa_verify(c, pk, sig2, hv1)
              and not ecdsa_verify(c, pkey, sig1, hv1)
              and not ecdsa_verify(c, pkey, sig2, hv2))
        T.check(cat, ok, 'seeded key %d' % i)


def _st_split_theta(T):
    cat = '2f crrl split_theta / endomorphism constants'
    c = SECP256K1
    K = CRRL_KATS['secp256k1']
    T.check(cat, c.lam == K['THETA'], 'lam == THETA')
    T.check(cat, c.beta == K['EPSILON'], 'beta == EPSILON')
    s, t, n = K['glv_s'], K['glv_t'], c.n
    T.check(cat, s * s + t * t + s * t == n, 's^2+t^2+st = n')
    T.check(cat, (s - c.lam * t) % n == 0, 'theta = s/t')
    for i in range(100):
        k = _le_scalar(c, _sha256(i.to_bytes(8, 'little')))
        cc = (2 * s * k + n) // (2 * n)      # round(s*k/n)
        dd = (2 * t * k + n) // (2 * n)
        k0 = k - cc * s - dd * (s + t)
        k1 = cc * t - dd * s
        T.check(cat, (k0 + k1 * c.lam - k) % n == 0
                and abs(k0) < 2**128 and abs(k1) < 2**128, 'split %d' % i)


def _st_trunc(T, quick=False):
    cat = '2g crrl signatures_trunc (p256)'
    c = P256
    seed = _sha256(b'\x00') + _sha256(b'\x01')[:16]
    d = private_from_seed(c, seed)
    Q = public_key(c, d)
    for i in range(2):
        msg = bytearray(i.to_bytes(8, 'little'))
        hv = _sha256(bytes(msg))
        sig1 = p256_sign(d, hv, b'')
        sig2 = p256_prepare_truncate(sig1)
        T.check(cat, sig2 is not None, 'prepare_truncate msg %d' % i)
        # documented transformation, checked independently
        s_std = int.from_bytes(sig1[32:], 'big')
        s_prep = int.from_bytes(sig2[32:], 'little')
        T.check(cat, sig2[:32] == sig1[:32] and s_prep < 2**255
                and s_prep in (s_std, c.n - s_std), 'prepared format msg %d' % i)
        expect = sig1[:32] + s_prep.to_bytes(32, 'big')
        T.check(cat, ecdsa_verify(c, Q, expect, hv), 'prepared sig verifies %d' % i)
        sig2 = bytearray(sig2)
        sig2[63] = 0
        top = 13 if quick else 17
        for rm in range(8, top):
            nb = 512 - rm
            sig2[nb >> 3] &= 0xFF ^ (1 << (nb & 7))
            brute = rm <= (12 if i == 0 else 10)
            vv = p256_verify_trunc(Q, bytes(sig2), rm, hv,
                                   method='verify' if brute else 'walk')
            T.check(cat, vv == expect, 'msg %d rm %d completes' % (i, rm))
            T.check(cat, vv is not None and ecdsa_verify(c, Q, vv, hv),
                    'msg %d rm %d result verifies' % (i, rm))
            if rm <= 10:
                T.check(cat, p256_verify_trunc(Q, bytes(sig2), rm, hv,
                                               method='walk') == vv,
                        'msg %d rm %d walk == brute' % (i, rm))
                # garbage in the ignored bits must not matter
                g = bytearray(sig2)
                g[63] |= 0xFF
                T.check(cat, p256_verify_trunc(Q, bytes(g), rm, hv,
                                               method='walk') == vv,
                        'msg %d rm %d ignored bits' % (i, rm))
            msg[0] ^= 1
            neg = p256_verify_trunc(Q, bytes(sig2), rm, bytes(msg),
                                    method='verify' if rm <= 9 else 'walk')
            T.check(cat, neg is None, 'msg %d rm %d wrong hv' % (i, rm))
            msg[0] ^= 1


def _st_prepare_truncate(T):
    cat = '5 prepare_truncate / verify_trunc edge cases'
    c = P256
    n, p = c.n, c.p
    r = (1 << 255) + 12345
    for s, name in ((1, 's=1'), ((1 << 255) - 1, 's=2^255-1'),
                    (1 << 255, 's=2^255'), (n - 1, 's=n-1')):
        out = p256_prepare_truncate(r.to_bytes(32, 'big') + s.to_bytes(32, 'big'))
        s2 = s if s < (1 << 255) else n - s
        T.check(cat, out == r.to_bytes(32, 'big') + s2.to_bytes(32, 'little'), name)
    def pt(r, s, L=32):
        return p256_prepare_truncate(r.to_bytes(L, 'big') + s.to_bytes(L, 'big'))
    T.check(cat, pt(r, 0) is None, 's=0')
    T.check(cat, pt(r, n) is None, 's=n')
    T.check(cat, pt(n, 5) is None, 'r=n')
    T.check(cat, pt(0, 5) is None, 'r=0')
    T.check(cat, pt(p - n - 1, 5) is None, 'r=p-n-1')
    T.check(cat, pt(p - n, 5) is not None, 'r=p-n')
    T.check(cat, pt(n - 1, 5) is not None, 'r=n-1')
    T.check(cat, pt(r, 5, 33) is None, 'len 66 refused')
    T.check(cat, p256_prepare_truncate(b'') is None, 'empty')
    T.check(cat, p256_prepare_truncate(bytes(63)) is None, 'odd')
    T.check(cat, pt(7, 5, 15) is None, 'len 30 (r < p-n)')
    r31 = (1 << 247) + 99
    T.check(cat, pt(r31, 5, 31) == r31.to_bytes(32, 'big') + (5).to_bytes(32, 'little'),
            'len 62 -> documented zero-extension (crrl diverges here)')
    # verify_trunc front end
    d = 0x1234567
    Q = public_key(c, d)
    T.check(cat, p256_verify_trunc(Q, bytes(63), 8, b'x') is None, 'len 63')
    T.check(cat, p256_verify_trunc(Q, bytes(64), 8, b'x') is None, 'r = 0')
    T.check(cat, p256_verify_trunc(Q, b'\xff' * 64, 8, b'x') is None, 'r >= n')
    for bad in (7, 33, 0):
        try:
            p256_verify_trunc(Q, bytes(64), bad, b'x')
            ok = False
        except ValueError:
            ok = True
        T.check(cat, ok, 'rm=%d raises' % bad)


def _st_cross(T, c, rounds):
    cat = '3 affine vs Jacobian cross-checks (%s)' % c.name
    n, p = c.n, c.p
    G = c.G
    J = c._to_jac
    A = c._from_jac
    INFJ = (1, 1, 0)
    # deterministic pseudo-random points / scalars
    def sc(tag, i):
        return int.from_bytes(hashlib.sha512(b'%s/%s/%d' % (c.name.encode(), tag, i)).digest(), 'big') % n
    pts = [G, c.neg(G)]
    for i in range(rounds):
        pts.append(c.mul_affine(sc(b'pt', i), G))
    for P in pts:
        T.check(cat, c.on_curve(P), 'on curve')
    # special operand combinations
    for P in pts[:6]:
        mP = c.neg(P)
        T.check(cat, A(c._jadd(J(P), J(P))) == c.dbl(P), 'J: P+P')
        T.check(cat, A(c._jadd_affine(J(P), P)) == c.dbl(P), 'Jmixed: P+P')
        T.check(cat, A(c._jdbl(J(P))) == c.dbl(P) == c.add(P, P), 'J: dbl')
        T.check(cat, A(c._jadd(J(P), J(mP))) is None and c.add(P, mP) is None, 'J: P+(-P)')
        T.check(cat, A(c._jadd_affine(J(P), mP)) is None, 'Jmixed: P+(-P)')
        T.check(cat, A(c._jadd(INFJ, J(P))) == P == c.add(None, P), 'J: inf+P')
        T.check(cat, A(c._jadd(J(P), INFJ)) == P == c.add(P, INF), 'J: P+inf')
        T.check(cat, A(c._jadd_affine(INFJ, P)) == P, 'Jmixed: inf+P')
        T.check(cat, A(c._jadd(INFJ, INFJ)) is None and c.add(None, None) is None, 'J: inf+inf')
        T.check(cat, A(c._jdbl(INFJ)) is None and c.dbl(None) is None, 'J: dbl inf')
        # same point with different Z
        z = 0xDEADBEEF
        Pz = (P[0] * z * z % p, P[1] * z * z * z % p, z)
        T.check(cat, A(Pz) == P, 'J: scaled repr')
        T.check(cat, A(c._jadd(Pz, J(P))) == c.dbl(P), 'J: P+P (different Z)')
        T.check(cat, A(c._jadd(Pz, J(mP))) is None, 'J: P+(-P) (different Z)')
        T.check(cat, c.sub(P, P) is None and c.eq(c.sub(None, P), mP), 'sub')
    # generic adds
    for i in range(rounds):
        P, Q = pts[i % len(pts)], pts[(3 * i + 1) % len(pts)]
        R = c.add(P, Q)
        T.check(cat, A(c._jadd(J(P), J(Q))) == R, 'J add %d' % i)
        T.check(cat, c.on_curve(R), 'sum on curve %d' % i)
        if Q is not None:
            T.check(cat, A(c._jadd_affine(J(P), Q)) == R, 'Jmixed add %d' % i)
    # scalar multiplication: edge scalars
    P = pts[2]
    for k in (0, 1, 2, 3, 15, 16, 17, 31, 32, 33, n - 2, n - 1, n, n + 1, 2 * n - 1,
              -1, -2, 2**255, 2**256 - 1, (n - 1) // 2, (n + 1) // 2):
        ref = c.mul_affine(k, P)
        T.check(cat, c.mul(k, P) == ref, 'mul edge k=%d' % k)
        T.check(cat, c.mulgen(k) == c.mul_affine(k, G), 'mulgen edge k=%d' % k)
    T.check(cat, c.mul(5, None) is None and c.mul(5, INF) is None
            and c.mul_affine(5, INF) is None, 'k*inf')
    T.check(cat, c.mul(n - 1, P) == c.neg(P), '(n-1)P = -P')
    # scalar multiplication: random
    for i in range(rounds):
        k = sc(b'k', i)
        P = pts[i % len(pts)]
        ref = c.mul_affine(k, P)
        T.check(cat, c.mul(k, P) == ref, 'mul random %d' % i)
        T.check(cat, c.mulgen(k) == c.mul_affine(k, G), 'mulgen random %d' % i)
        u, v = sc(b'u', i), sc(b'v', i)
        T.check(cat, c.mul_add_mulgen(u, P, v)
                == c.add(c.mul_affine(u, P), c.mul_affine(v, G)), 'mul_add_mulgen %d' % i)
    T.check(cat, c.mul_add_mulgen(3, None, 4) == c.mul_affine(4, G), 'mul_add_mulgen inf')
    T.check(cat, c.mul_add_mulgen(n - 4, G, 4) is None, 'mul_add_mulgen -> inf')
    # sparse/short scalars (exercise table rows of the fixed-base comb)
    for i in range(0, 256, 13):
        T.check(cat, c.mulgen(1 << i) == c.mul_affine(1 << i, G), 'mulgen 2^%d' % i)
        T.check(cat, c.mulgen(15 << i) == c.mul_affine(15 << i, G), 'mulgen 15*2^%d' % i)


def _st_endo(T):
    cat = '4 lam/beta consistency (secp256k1)'
    c = SECP256K1
    T.check(cat, P256.beta is None and P256.lam is None, 'P-256 has no endomorphism')
    T.check(cat, pow(c.beta, 3, c.p) == 1 and c.beta != 1, 'beta^3 = 1')
    T.check(cat, pow(c.lam, 3, c.n) == 1 and c.lam != 1, 'lam^3 = 1')
    T.check(cat, (c.lam * c.lam + c.lam + 1) % c.n == 0, 'lam^2+lam+1 = 0')
    T.check(cat, (c.beta * c.beta + c.beta + 1) % c.p == 0, 'beta^2+beta+1 = 0')
    T.check(cat, c.beta < (c.p - 1 - c.beta), 'beta is the lower root')
    for i in range(8):
        k = int.from_bytes(_sha256(b'endo%d' % i), 'big') % c.n
        P = c.mul_affine(k, c.G)
        E = endo(P)
        T.check(cat, c.on_curve(E), 'endo on curve %d' % i)
        T.check(cat, c.mul_affine(c.lam, P) == E, 'lam*P == (beta*x, y) affine %d' % i)
        T.check(cat, c.mul(c.lam, P) == E, 'lam*P == (beta*x, y) fast %d' % i)
        T.check(cat, endo(endo(E)) == P, 'endo^3 = id %d' % i)
    T.check(cat, endo(None) is None, 'endo(inf)')


def _st_codec(T, c):
    cat = '6 encoding/decoding rules (%s)' % c.name
    p = c.p
    G = c.G
    comp = c.encode_compressed(G)
    unc = c.encode_uncompressed(G)
    T.check(cat, c.decode(comp) == G and c.decode(unc) == G, 'roundtrip G')
    T.check(cat, c.decode(b'\x00') == INF, '0x00 -> infinity')
    T.check(cat, c.decode_public_key(b'\x00') is None, 'public key: infinity rejected')
    T.check(cat, c.decode_public_key(comp) == G, 'public key: G')
    for b in (b'\x01', b'\x02', b'\x04', b'\xff', b''):
        T.check(cat, c.decode(b) is None, 'short %r' % b)
    T.check(cat, c.decode(bytes(33)) is None and c.decode(bytes(65)) is None, 'zeros')
    T.check(cat, c.decode(bytes(2)) is None and c.decode(bytes(32)) is None
            and c.decode(bytes(64)) is None and c.decode(unc + b'\x00') is None
            and c.decode(comp + b'\x00') is None, 'bad lengths')
    # hybrid
    hy = bytes([6 | (G[1] & 1)]) + unc[1:]
    T.check(cat, c.decode(hy) is None, 'hybrid (matching parity) rejected')
    T.check(cat, c.decode(bytes([6]) + unc[1:]) is None
            and c.decode(bytes([7]) + unc[1:]) is None, 'hybrid 06/07 rejected')
    for first in (0, 1, 5, 8, 0x82):
        T.check(cat, c.decode(bytes([first]) + comp[1:]) is None, 'comp tag %d' % first)
    for first in (0, 2, 3, 5, 0x84):
        T.check(cat, c.decode(bytes([first]) + unc[1:]) is None, 'uncomp tag %d' % first)
    # parity selection
    other = c.decode(bytes([comp[0] ^ 1]) + comp[1:])
    T.check(cat, other == c.neg(G), 'other parity -> -G')
    # off-curve
    bad = bytearray(unc)
    bad[64] ^= 1
    T.check(cat, c.decode(bytes(bad)) is None, 'off-curve rejected')
    T.check(cat, c.decode(b'\x04' + unc[33:] + unc[1:33]) is None, 'swapped coords')
    # x with no point
    x = 1
    while c.lift_x(x, 0) is not None:
        x += 1
    T.check(cat, c.decode(b'\x02' + x.to_bytes(32, 'big')) is None, 'non-residue x')
    # non-canonical coordinates: find small x such that x is valid; x + p < 2^256
    x = 0
    while c.lift_x(x, 0) is None or x + p >= 2**256:
        x += 1
        if x > 1000:
            break
    P = c.lift_x(x, 0)
    if P is not None and x + p < 2**256:
        T.check(cat, c.decode(b'\x02' + x.to_bytes(32, 'big')) == P, 'small x ok')
        T.check(cat, c.decode(b'\x02' + (x + p).to_bytes(32, 'big')) is None, 'x+p rejected')
        T.check(cat, c.decode(b'\x04' + (x + p).to_bytes(32, 'big') + P[1].to_bytes(32, 'big')) is None, 'x+p uncompressed rejected')
    T.check(cat, c.decode(b'\x02' + p.to_bytes(32, 'big')) is None, 'x = p rejected')
    T.check(cat, c.decode(b'\x02' + b'\xff' * 32) is None, 'x = 2^256-1 rejected')
    # y + p (only possible when y small: skip unless representable)
    # private keys
    T.check(cat, c.decode_private_key(bytes(32)) is None, 'priv 0')
    T.check(cat, c.decode_private_key(c.n.to_bytes(32, 'big')) is None, 'priv n')
    T.check(cat, c.decode_private_key((c.n - 1).to_bytes(32, 'big')) == c.n - 1, 'priv n-1')
    T.check(cat, c.decode_private_key(bytes(31) + b'\x01') == 1, 'priv 1')
    T.check(cat, c.decode_private_key(bytes(32) + b'\x01') is None, 'priv len 33')
    T.check(cat, c.encode_private_key(0x0102) == bytes(30) + b'\x01\x02', 'priv big-endian')


def _st_ecdsa_rules(T, c):
    cat = '7 ECDSA acceptance rules / hv handling / extra_rand (%s)' % c.name
    n = c.n
    d = private_from_seed(c, b'ref_weier selftest ' + c.name.encode())
    T.check(cat, 1 <= d < n, 'from_seed range')
    T.check(cat, d == int.from_bytes(hashlib.sha512(
        (b'crrl P-256' if c is P256 else b'crrl secp256k1')
        + b'ref_weier selftest ' + c.name.encode()).digest(), 'little') % n, 'from_seed formula')
    Q = public_key(c, d)
    hv = _sha256(b'message')
    sig = ecdsa_sign(c, d, hv)
    r, s = sig[:32], sig[32:]
    T.check(cat, len(sig) == 64 and ecdsa_verify(c, Q, sig, hv), 'sign/verify')
    T.check(cat, ecdsa_verify_affine(c, Q, sig, hv), 'verify (affine)')
    T.check(cat, ecdsa_sign(c, d, hv) == sig, 'deterministic')
    # length rules
    T.check(cat, not ecdsa_verify(c, Q, sig + b'\x00', hv), 'odd length')
    T.check(cat, not ecdsa_verify(c, Q, sig[:-1], hv), 'odd length (63)')
    T.check(cat, not ecdsa_verify(c, Q, b'', hv), 'empty')
    for pad in (1, 2, 17, 40):
        z = bytes(pad)
        T.check(cat, ecdsa_verify(c, Q, z + r + z + s, hv), 'zero-padded +%d' % pad)
        T.check(cat, not ecdsa_verify(c, Q, b'\x01' + z[1:] + r + z + s, hv), 'nonzero pad r +%d' % pad)
        T.check(cat, not ecdsa_verify(c, Q, z + r + z[:-1] + b'\x01' + s, hv), 'nonzero pad s +%d' % pad)
    T.check(cat, not ecdsa_verify(c, Q, r + bytes(1) + s + bytes(1), hv), 'trailing zeros')
    # short halves == zero-extended halves
    T.check(cat, split_sig(c, b'\x05\x07') == (5, 7), 'short halves parse')
    T.check(cat, ecdsa_verify(c, Q, b'\x05\x07', hv)
            == ecdsa_verify(c, Q, (5).to_bytes(32, 'big') + (7).to_bytes(32, 'big'), hv), 'short == padded')
    # (a genuinely short VALID signature is built below, in the x(R) >= n case)
    # range rules
    nb = n.to_bytes(32, 'big')
    T.check(cat, not ecdsa_verify(c, Q, bytes(32) + s, hv), 'r = 0')
    T.check(cat, not ecdsa_verify(c, Q, r + bytes(32), hv), 's = 0')
    T.check(cat, not ecdsa_verify(c, Q, nb + s, hv), 'r = n')
    T.check(cat, not ecdsa_verify(c, Q, r + nb, hv), 's = n')
    ri, si = int.from_bytes(r, 'big'), int.from_bytes(s, 'big')
    if ri + n < 2**256:
        T.check(cat, not ecdsa_verify(c, Q, (ri + n).to_bytes(32, 'big') + s, hv), 'r + n')
    T.check(cat, ecdsa_verify(c, Q, r + (n - si).to_bytes(32, 'big'), hv), 'n - s also valid (no low-s rule)')
    T.check(cat, not ecdsa_verify(c, Q, r + ((si + 1) % n or 1).to_bytes(32, 'big'), hv), 's + 1')
    T.check(cat, not ecdsa_verify(c, c.add(Q, c.G), sig, hv), 'wrong key')
    # hv handling
    T.check(cat, ecdsa_verify(c, Q, sig, hv + b'junk'), 'hv longer than 32: truncated')
    T.check(cat, ecdsa_sign(c, d, hv + b'junk') == sig, 'sign: hv longer than 32: truncated')
    short = b'\x00\x00\x01\x02\x03'
    ssig = ecdsa_sign(c, d, short)
    T.check(cat, ecdsa_verify(c, Q, ssig, short), 'short hv')
    T.check(cat, ecdsa_verify(c, Q, ssig, b'\x01\x02\x03'), 'short hv = big-endian integer (leading zeros irrelevant)')
    T.check(cat, ecdsa_sign(c, d, bytes(29) + b'\x01\x02\x03') == ssig, 'short hv == left-padded hv')
    T.check(cat, ecdsa_verify(c, Q, ecdsa_sign(c, d, b''), b''), 'empty hv (h = 0)')
    big = b'\xff' * 32       # >= n: reduced
    T.check(cat, ecdsa_verify(c, Q, ecdsa_sign(c, d, big), (int.from_bytes(big, 'big') - n).to_bytes(32, 'big')), 'hv >= n reduced mod n')
    # Q = infinity is evaluated, not special-cased: R = (h/s)G
    k = 0x1F2E3D
    R = c.mulgen(k)
    h = hash_to_scalar(c, hv)
    rr = R[0] % n
    ss = h * pow(k, -1, n) % n
    T.check(cat, ecdsa_verify(c, None, rr.to_bytes(32, 'big') + ss.to_bytes(32, 'big'), hv), 'Q = infinity degenerate acceptance')
    # R = infinity: Q = -(h/r) G  => (h/s)G + (r/s)Q = 0
    Qbad = c.mul_affine((-h * pow(ri, -1, n)) % n, c.G)
    T.check(cat, not ecdsa_verify(c, Qbad, sig, hv) and not ecdsa_verify_affine(c, Qbad, sig, hv), 'R = infinity rejected')
    # x(R) >= n wrap-around: pick R with x in [n, p) if one exists nearby
    x = n + 1
    Rw = None
    for _ in range(2000):
        Rw = c.lift_x(x, 0)
        if Rw is not None:
            break
        x += 1
    if Rw is not None and x < c.p:
        rw = x - n
        sw = 0x1234567
        # Q' = r^-1 (s*R - h*G)
        Qw = c.mul_affine(pow(rw, -1, n), c.sub(c.mul_affine(sw, Rw), c.mul_affine(h, c.G)))
        sgw = rw.to_bytes(32, 'big') + sw.to_bytes(32, 'big')
        T.check(cat, ecdsa_verify(c, Qw, sgw, hv) and ecdsa_verify_affine(c, Qw, sgw, hv), 'x(R) >= n: r = x(R) - n accepted')
        # and this r is a SHORT value (about 128 bits): exercise short halves
        L = (max(rw.bit_length(), sw.bit_length()) + 7) // 8
        T.check(cat, ecdsa_verify(c, Qw, rw.to_bytes(L, 'big') + sw.to_bytes(L, 'big'), hv), 'short (%d-byte) halves accepted' % L)
        if c is P256:
            T.check(cat, p256_prepare_truncate(sgw) is None, 'prepare_truncate refuses r < p-n')
    # extra randomness
    e1 = ecdsa_sign(c, d, hv, b'extra')
    e2 = ecdsa_sign(c, d, hv, b'extrb')
    T.check(cat, e1 != sig and e2 != sig and e1 != e2, 'extra_rand changes the nonce')
    T.check(cat, ecdsa_verify(c, Q, e1, hv) and ecdsa_verify(c, Q, e2, hv), 'extra_rand sigs verify')
    T.check(cat, ecdsa_sign(c, d, hv, b'extra') == e1, 'extra_rand deterministic')
    if c is P256:
        # independent recomputation of the section 3.6 variant with hmac.new
        x_ = d.to_bytes(32, 'big')
        hb = h.to_bytes(32, 'big')
        K_, V_ = bytes(32), b'\x01' * 32
        K_ = hmac.new(K_, V_ + b'\x00' + x_ + hb + b'extra', 'sha256').digest()
        V_ = hmac.new(K_, V_, 'sha256').digest()
        K_ = hmac.new(K_, V_ + b'\x01' + x_ + hb + b'extra', 'sha256').digest()
        V_ = hmac.new(K_, V_, 'sha256').digest()
        V_ = hmac.new(K_, V_, 'sha256').digest()
        k_ = int.from_bytes(V_, 'big')
        T.check(cat, (not 1 <= k_ < n) or c.mulgen(k_)[0] % n == int.from_bytes(e1[:32], 'big'), 'extra_rand r matches k')
    else:
        k_ = int.from_bytes(hashlib.sha512(d.to_bytes(32, 'little') + h.to_bytes(32, 'little') + b'extra').digest(), 'little') % n
        T.check(cat, c.mulgen(k_)[0] % n == int.from_bytes(e1[:32], 'big'), 'extra_rand r matches k')
        k0 = next(secp256k1_nonces(d, hv))
        T.check(cat, c.mul_affine(k0, c.G)[0] % n == ri, 'r matches documented k (affine)')


def selftest(quick=False, verbose=True):
    t0 = time.time()
    T = _Counter()
    _st_rfc6979(T)
    for c in (P256, SECP256K1):
        _st_base_arith(T, c)
        _st_mul_kats(T, c)
    _st_sig_p256(T)
    _st_sig_k1(T)
    _st_split_theta(T)
    _st_trunc(T, quick)
    for c in (P256, SECP256K1):
        _st_cross(T, c, 12 if quick else 40)
    _st_endo(T)
    _st_prepare_truncate(T)
    for c in (P256, SECP256K1):
        _st_codec(T, c)
        _st_ecdsa_rules(T, c)
    total = passed = 0
    for cat in sorted(T.order):
        nn, ok = T.cat[cat]
        total += nn
        passed += ok
        if verbose:
            print('%-66s %5d/%-5d %s' % (cat, ok, nn, 'ok' if ok == nn else 'FAIL'))
    if verbose:
        for f in T.fail:
            print('FAILED:', f)
        print('total %d/%d checks passed in %.1f s' % (passed, total, time.time() - t0))
    return passed == total


if __name__ == '__main__':
    sys.exit(0 if selftest(quick='--quick' in sys.argv) else 1)
