"""C04 -- scalar multiplication returns [n]P for every scalar and point;
every precomputed-table entry is the multiple it stands for.

Tables are checked black-box and completely: mulgen(d*32^i) and
mulgen(-d*32^i) for every digit d = 1..16 and every window i select each
entry of each built-in table exactly once with all other digits zero."""

import sys
import os

sys.path.insert(0, os.path.dirname(os.path.abspath(__file__)))

from common import *          # noqa
from groups import *          # noqa
import ref_weier
import ref_gls

ENDO = {}


def endo_mu(g):
    if g.name == "jq255e":
        return g.D.mu
    if g.name == "secp256k1":
        return ref_weier.SECP256K1.lam
    if g.name == "gls254":
        return ref_gls.GLS254.mu
    return None


def hostile_scalar(rng, g):
    n = g.n
    bits = n.bit_length()
    t = rng.randrange(12)
    if t == 0:
        return rng.choice([0, 1, 2, n - 1, n - 2, (n + 1) // 2, (n - 1) // 2]), "extreme"
    if t == 1:
        return ((1 << rng.randrange(bits + 2)) + rng.choice([0, 1, -1])) % n, "pow2"
    if t in (2, 3):
        # digit strings in base 32 over carry-provoking digits
        k = 0
        nd = (bits + 4) // 5
        digs = rng.choice([[15, 16, 17, 31, 0, 1], [16], [31], [16, 31], [15, 16], [0, 31, 16]])
        for i in range(nd):
            k |= rng.choice(digs) << (5 * i)
        return k % n, "digit-string"
    if t == 4:
        # carry out of the top digit: all-16 / all-31 high digits
        k = n - rng.randrange(1, 1 << 20)
        return k % n, "near-n"
    if endo_mu(g) is not None and (t == 5 or rng.randrange(5) == 0):
        import c11
        key = g.name
        if key not in ENDO:
            ENDO[key] = c11.endo_lattice_constants(endo_mu(g), n)
        return c11.rounding_boundary_scalar(rng, n, ENDO[key]), "endo-limb-rounding-boundary"
    if t in (5, 6):
        mu = endo_mu(g)
        if mu is not None:
            h = 1 << 127
            k0 = rng.choice([0, 1, h - 1, h, h + 1, rng.getrandbits(127), (1 << 126), rng.getrandbits(64)])
            k1 = rng.choice([0, 1, h - 1, h, h + 1, rng.getrandbits(127), (1 << 126), rng.getrandbits(64)])
            s0 = rng.choice([1, -1]); s1 = rng.choice([1, -1])
            if rng.randrange(4) == 0:
                k1 = k0
            return (s0 * k0 + s1 * k1 * mu) % n, "endo-extreme-halves"
        return rng.randrange(n), "random"
    if t == 7:
        # NAF-hostile: alternating patterns
        pat = rng.choice([0x5555, 0xAAAA, 0x7777, 0xF0F0, 0xFFFF, 0x0F0F, 0x3333, 0xEEEE])
        k = 0
        for i in range(0, bits, 16):
            k |= pat << i
        return k % n, "pattern"
    if t == 8:
        a = rng.getrandbits(rng.randrange(1, 64)) | 1
        b = rng.getrandbits(rng.randrange(1, 64)) | 1
        return a * pow(b, -1, n) % n, "small-fraction"
    return rng.randrange(n), "random"


def gen_directed(g, shard, nshards, rng):
    """every (digit, window) pair, both signs, through mulgen and P*k"""
    out = []
    T = "g %s " % g.name
    n = g.n
    nd = (n.bit_length() + 4) // 5 + 1
    idx = 0
    for i in range(nd):
        for d in range(1, 17):
            for sgn in (1, -1):
                idx += 1
                if idx % nshards != shard:
                    continue
                k = (sgn * d << (5 * i)) % n
                if (d << (5 * i)) >= 2 * n:
                    continue
                R = g.mulgen(k)
                out.append(case1(T + "mulgen " + g.sc(k), "OK " + g.enc(R),
                                 ["%s:table-entry" % g.name, "table-entry", "%s:digit=%d" % (g.name, d), "%s:window=%d" % (g.name, i)], "table (d=%d,i=%d,%d)" % (d, i, sgn)))
    return out


def gen_curve(rng, g, n_cases):
    out = []
    T = "g %s " % g.name
    B = g.base
    specials = g.special_points()
    for _ in range(n_cases):
        k, kc = hostile_scalar(rng, g)
        t = rng.randrange(10)
        cl = {"scalar:" + kc}
        if t < 4:
            R = g.mulgen(k)
            if rng.randrange(3) == 0:
                # in-place generator multiplication on a receiver that already holds some point (to be ignored)
                Pold = g.rand_point(rng)
                dold = (g.desc(Pold, rng) if isinstance(g, WeierG) else g.desc(Pold)) + g.mods(Pold, rng)
                lines = [T + "set_mulgen %s %s" % (dold, g.sc(k, rng))]
                cl.add("set_mulgen-dirty-receiver")
            else:
                lines = [T + "mulgen " + g.sc(k, rng)]
            exp = ["OK " + g.enc(R)]
            cl.add("mulgen")
            if g.is_neutral(R): cl.add("result-neutral")
        else:
            if t == 4:
                P = rng.choice(specials); cl.add("point-special")
            elif t == 5:
                P = g.neutral; cl.add("point-neutral")
            else:
                P = g.rand_point(rng)
            if isinstance(g, EdG) and not g.C.in_subgroup(P):
                cl.add("point-not-in-subgroup")
            d = (g.desc(P, rng) if isinstance(g, WeierG) else g.desc(P)) + g.mods(P, rng)
            R = g.mul(k % g.n, P)
            op = rng.choice(["mul", "smul", "mula"])
            lines = [T + "%s %s %s" % (op, d, g.sc(k, rng))]
            exp = ["OK " + g.enc(R)]
            cl.add(op)
            if g.is_neutral(R): cl.add("result-neutral")
            # consistency with the generator fast path when P is a known multiple: k*(j*B) == (k*j)*B
            if rng.randrange(4) == 0:
                j = rng.randrange(1, g.n)
                Pj = g.mulgen(j)
                lines += [T + "mulgen >1 " + g.sc(j), T + "mul >2 $1 " + g.sc(k), T + "mulgen >3 " + g.sc(k * j % g.n), T + "equals $2 $3"]
                R2 = g.mulgen(k * j % g.n)
                exp += ["OK " + g.enc(Pj), "OK " + g.enc(R2), "OK " + g.enc(R2), "OK ffffffff"]
                cl.add("mul-vs-mulgen")
        out.append(Case(lines, exp, ["%s:%s" % (g.name, c) for c in cl] + sorted(cl), "scalar mul"))
    return out


COST = {"ed25519": 1, "ed448": 3, "ristretto255": 1, "decaf448": 3, "p256": 1, "secp256k1": 1, "jq255e": 1.5, "jq255s": 1.5, "gls254": 10}


def gen(rng, shard, nshards, curves, n_cases, directed):
    cases = []
    for c in curves:
        g = GROUPS[c]
        if directed:
            cases.extend(gen_directed(g, shard, nshards, rng))
        cases.extend(gen_curve(rng, g, max(1, int(n_cases / COST[c]))))
    return vary_forms(cases, rng)


def main(argv):
    a = parse_args(argv)
    if a.replay:
        return do_replay(a.replay)
    rep = Report("C04", a.tier, a.seed)
    rep.rule = ("complete enumeration of (digit 1..16, window i, sign) scalars through mulgen (each built-in table entry selected once, "
                "exhaustive over table entries) plus hostile scalars (0,1,n-1, 2^k+-1, base-32 digit strings over {15,16,17,31,0,1}, "
                "k0+k1*mu with extreme halves for the endomorphism curves, near-n, small fractions) times points (generator, neutral, "
                "low/mixed-order, random, re-represented); P*k, k*P, P*=k and mulgen(k) compared with the reference double-and-add; "
                "distinct_nontrivial = distinct requests in a boundary class")
    rep.assumptions = ["reference scalar multiplication (fast path cross-checked against pure affine double-and-add in the refs' self-tests)"]
    try:
        curves = ALL_CURVES
        if a.tier == "quick":
            cfgs = (a.configs.split(",") if a.configs else ["default", "m51", "w32", "zz32"])
            n = int(4000 * a.scale)
        else:
            cfgs = (a.configs.split(",") if a.configs else ALL_CONFIGS)
            n = int(240000 * a.scale)
        exes = build_many(cfgs)
        m = run_sharded("c04", "gen", (curves, n // NCPU + 1, True), [(c, exes[c]) for c in cfgs], a.seed, timeout=3600)
        rep.merge(m)
        req = []
        for c in curves:
            req += [c + ":table-entry", c + ":digit=16", c + ":window=0", c + ":scalar:extreme", c + ":scalar:digit-string", c + ":mulgen", c + ":mul",
                    c + ":point-neutral", c + ":mul-vs-mulgen", c + ":set_mulgen-dirty-receiver"]
        req += ["jq255e:scalar:endo-limb-rounding-boundary", "gls254:scalar:endo-limb-rounding-boundary", "jq255e:scalar:endo-extreme-halves", "secp256k1:scalar:endo-extreme-halves", "gls254:scalar:endo-extreme-halves",
                "ed25519:point-not-in-subgroup", "ed448:point-not-in-subgroup"]
        rep.require(*req)
        rep.extra["exhaustive"] = False
        rep.extra["table_entries_enumerated"] = rep.classes.get("table-entry", 0)
    except Inconclusive as e:
        rep.incon.append(str(e))
    return rep.finish()


if __name__ == "__main__":
    sys.exit(main(sys.argv[1:]))
