"""C02 -- secret-independent control flow and memory addressing in the compiled
code.

Instrument: valgrind memcheck used as a bit-precise dynamic taint tracker
(ctgrind technique). The executor marks every secret input 'undefined' through
a client request (args prefixed with '!'), and declassifies outputs just
before printing. Memcheck then reports, on the optimized machine code that
rustc actually produced, every conditional jump and every memory address that
depends on a secret bit.

Oracle: each report block is keyed by (kind, innermost crrl function, text of
the source statement); it is a violation unless the site is a documented,
source-level declassification listed in ct_declassified.json, or a recorded
known finding."""

import sys
import os
import re
import json
import subprocess
import tempfile
import time
from concurrent.futures import ThreadPoolExecutor

sys.path.insert(0, os.path.dirname(os.path.abspath(__file__)))

from common import *          # noqa
from fieldmodel import *      # noqa
import groups as G

KIND_BRANCH = "Conditional jump or move depends on uninitialised value(s)"
KIND_ADDR = "Use of uninitialised value of size"


def hx(b):
    return b.hex() if b else "-"


def rb(rng, n):
    return bytes(rng.getrandbits(8) for _ in range(n))


# ---------------------------------------------------------------------------
# Entry points

def field_entries(rng, reps):
    groups = {}
    for nm, f in FIELDS.items():
        if "ringonly" in f.caps:
            continue
        L = []
        T = "f %s " % nm
        for r in range(reps):
            def sec():
                t = (r + rng.randrange(3)) % 5
                if t == 0:
                    v = 0
                elif t == 1:
                    v = (1 << f.bits) - 1
                else:
                    v = rng.getrandbits(f.bits)
                return "!w" + f.limbs_hex(v)
            a, b, c = sec(), sec(), sec()
            L += [T + "add %s %s" % (a, b), T + "sub %s %s" % (a, b), T + "mul %s %s" % (a, b), T + "div %s %s" % (a, b),
                  T + "div %s !w%s" % (a, f.limbs_hex(0)), T + "div %s !w%s" % (a, f.limbs_hex(f.q) if f.q < (1 << f.bits) else f.limbs_hex(0)),
                  T + "neg " + a, T + "square " + a, T + "xsquare %s 7" % a, T + "half " + a, T + "mul2 " + a, T + "mul4 " + a,
                  T + "mul8 " + a, T + "mul16 " + a, T + "mul32 " + a, T + "legendre " + a, T + "legendre !w" + f.limbs_hex(0),
                  T + "equals %s %s" % (a, b), T + "equals %s %s" % (a, a), T + "iszero " + a, T + "iszero !w" + f.limbs_hex(0), T + "enc " + a,
                  T + "set_cond %s %s !0xffffffff" % (a, b), T + "set_cond %s %s !0" % (a, b), T + "select %s %s !0xffffffff" % (a, b),
                  T + "select %s %s !0" % (a, b), T + "cswap %s %s !0xffffffff" % (a, b), T + "cswap %s %s !0" % (a, b),
                  T + "batch_invert %s %s %s !w%s" % (a, b, c, f.limbs_hex(0)),
                  T + "decode_ct !" + rb(rng, f.enc_len).hex(), T + "decode_ct !" + (f.q - 1).to_bytes(f.enc_len, "little").hex(),
                  T + "decode_ct !" + (b"\xff" * f.enc_len).hex(), T + "decode_reduce !" + rb(rng, f.enc_len + 13).hex(),
                  T + "decode_reduce !" + rb(rng, 7).hex()]
            if f.q % 8 != 1:
                sq = pow(rng.randrange(f.q), 2, f.q)
                L += [T + "sqrt " + a, T + "sqrt !w" + f.limbs_hex(sq), T + "sqrt !w" + f.limbs_hex(0)]
                if "sqrt_ext" in f.caps:
                    L += [T + "sqrt_ext " + a, T + "sqrt_ext !w" + f.limbs_hex(sq)]
            if "mul3" in f.caps: L.append(T + "mul3 " + a)
            if "mul_small" in f.caps: L.append(T + "mul_small %s 12345" % a)
            if "decode32" in f.caps: L.append(T + "decode32 !" + rb(rng, 32).hex())
            if "invert" in f.caps: L += [T + "invert " + a, T + "invert !w" + f.limbs_hex(0)]
            if "lookup16" in f.caps:
                tab3 = " ".join("!w" + f.limbs_hex(rng.getrandbits(f.bits)) for _ in range(48))
                tab4 = " ".join("!w" + f.limbs_hex(rng.getrandbits(f.bits)) for _ in range(64))
                for j in (0, 7, 15, 16, 0xFFFFFFFF):
                    L += [T + "lookup16_x3 !%d %s" % (j, tab3), T + "lookup16_x4 !%d %s" % (j, tab4)]
        groups["field:" + nm] = (L, f.configs)
    # binary fields
    L = []
    for r in range(reps):
        for T, n in (("f gfb127 ", 16), ("f gfb254 ", 32)):
            def sec():
                return "!w" + rb(rng, n).hex()
            a, b = sec(), sec()
            z = "!w" + bytes(n).hex()
            L += [T + "add %s %s" % (a, b), T + "mul %s %s" % (a, b), T + "div %s %s" % (a, b), T + "div %s %s" % (a, z), T + "square " + a,
                  T + "xsquare %s 5" % a, T + "invert " + a, T + "invert " + z, T + "sqrt " + a, T + "trace " + a, T + "mul_sb " + a, T + "mul_b " + a,
                  T + "div_z " + a, T + "div_z2 " + a, T + "equals %s %s" % (a, b), T + "iszero " + a, T + "iszero " + z, T + "enc " + a,
                  T + "set_cond %s %s !0xffffffff" % (a, b), T + "select %s %s !0" % (a, b), T + "cswap %s %s !0xffffffff" % (a, b),
                  T + "decode_ct !" + rb(rng, n).hex(), T + "decode_ct !" + bytes(b & 0x7f if (i % 16) == 15 else b for i, b in enumerate(rb(rng, n))).hex()]
        a = "!w" + rb(rng, 16).hex()
        L += ["f gfb127 halftrace " + a, "f gfb127 get_bit %s 5" % a, "f gfb127 set_bit %s 9 !1" % a, "f gfb127 xor_bit %s 9 !1" % a]
        a = "!w" + rb(rng, 32).hex()
        L += ["f gfb254 qsolve " + a, "f gfb254 mul_u " + a, "f gfb254 mul_u1 " + a, "f gfb254 mul_selfphi " + a, "f gfb254 mul_b127 %s !%s" % (a, rb(rng, 16).hex())]
        for nn, cnt in (("lookup16_x2", 32), ("lookup8_x2", 16), ("lookup4_x2", 8), ("lookup4_x2_nocheck", 8)):
            tab = " ".join("!w" + rb(rng, 32).hex() for _ in range(cnt))
            for j in (0, 1, cnt // 2 - 1):
                L.append("f gfb254 %s !%d %s" % (nn, j, tab))
            if nn != "lookup4_x2_nocheck":
                L.append("f gfb254 %s !%d %s" % (nn, cnt // 2, tab))
    groups["field:binary"] = (L, None)
    return groups


def curve_entries(rng, reps):
    groups = {}
    for cn, g in G.GROUPS.items():
        L = []
        T = "g %s " % cn
        for r in range(reps):
            def sk():
                t = (r + rng.randrange(2)) % 4
                v = [1, g.n - 1, rng.randrange(g.n), rng.randrange(g.n)][t]
                return "!" + v.to_bytes(g.slen, "little").hex()

            def sp():
                P = g.mulgen(rng.randrange(1, g.n))
                if isinstance(g, G.EdG) and rng.randrange(2):
                    P = g.add(P, rng.choice(g.low))
                d = g.desc(P, rng) if isinstance(g, G.WeierG) else g.desc(P)
                return "!" + d
            P, Q = sp(), sp()
            L += [T + "mulgen " + sk(), T + "mul %s %s" % (P, sk()), T + "mul B " + sk(), T + "smul %s %s" % (P, sk()),
                  T + "mul %s !%s" % (P, (0).to_bytes(g.slen, "little").hex()),
                  T + "add %s %s" % (P, Q), T + "add %s %s" % (P, P), T + "sub %s %s" % (P, P), T + "add %s N" % P, T + "neg " + P, T + "double " + P,
                  T + "xdouble %s 5" % P, T + "mulu64 %s 1000003" % P, T + "equals %s %s" % (P, Q), T + "equals %s %s" % (P, P), T + "isneutral " + P,
                  T + "enc " + P, T + "set_cond %s %s !0xffffffff" % (P, Q), T + "select %s %s !0" % (P, Q), T + "condneg %s !0xffffffff" % P,
                  T + "condneg %s !0" % P]
            # decoding of secret bytes (valid and invalid), status is secret too
            enc = g.enc(g.mulgen(rng.randrange(1, g.n)))
            if isinstance(g, G.WeierG):
                enc = g.C.encode_compressed(g.mulgen(rng.randrange(1, g.n))).hex()
            bad = bytearray(bytes.fromhex(enc)); bad[1] ^= 0x55
            L += [T + "set_decode !" + enc, T + "set_decode !" + bytes(bad).hex()]
            if isinstance(g, G.EdG):
                L += [T + "has_low_order " + P, T + "is_in_subgroup " + P, T + "mont_u " + P]
            if cn in ("jq255e", "jq255s", "gls254"):
                L += [T + "hash_to_curve - !" + rb(rng, 20).hex(), T + "hash_to_curve sha256 !" + rb(rng, 32).hex()]
            if cn == "ristretto255":
                L.append(T + "one_way_map !" + rb(rng, 64).hex())
            if cn == "decaf448":
                L.append(T + "one_way_map !" + rb(rng, 112).hex())
            if cn == "gls254":
                L += [T + "zeta %s !0xffffffff" % P, T + "zeta %s !0" % P]
        groups["curve:" + cn] = (L, None)
    return groups


def scheme_entries(rng, reps):
    groups = {}
    L = []
    for r in range(reps):
        seed = rb(rng, 32)
        L += ["s ed25519 pub !" + seed.hex(), "s ed25519 sign !%s raw - %s" % (seed.hex(), hx(rb(rng, 33))),
              "s ed25519 sign !%s ctx %s %s" % (seed.hex(), hx(rb(rng, 5)), hx(rb(rng, 70))), "s ed25519 sign !%s ph - %s" % (seed.hex(), hx(rb(rng, 64))),
              "s ed25519 sign !%s raw - !%s" % (seed.hex(), hx(rb(rng, 33))), "s ed25519 skdec !" + seed.hex(), "s ed25519 gen !" + rb(rng, 32).hex()]
    groups["scheme:ed25519"] = (L, None)
    L = []
    for r in range(reps):
        seed = rb(rng, 57)
        L += ["s ed448 pub !" + seed.hex(), "s ed448 sign !%s raw - %s" % (seed.hex(), hx(rb(rng, 33))),
              "s ed448 sign !%s ctx %s %s" % (seed.hex(), hx(rb(rng, 5)), hx(rb(rng, 70))), "s ed448 sign !%s ph - %s" % (seed.hex(), hx(rb(rng, 64))),
              "s ed448 gen !" + rb(rng, 57).hex()]
    groups["scheme:ed448"] = (L, None)
    for cv, n in (("p256", NP256), ("secp256k1", NSECP)):
        L = []
        for r in range(reps):
            d = rng.randrange(1, n).to_bytes(32, "big")
            L += ["s %s sign !%s %s -" % (cv, d.hex(), rb(rng, 32).hex()), "s %s sign !%s %s !%s" % (cv, d.hex(), rb(rng, 32).hex(), rb(rng, 16).hex()),
                  "s %s sign !%s !%s -" % (cv, d.hex(), rb(rng, 20).hex()), "s %s from_seed !%s" % (cv, rb(rng, 32).hex()), "s %s skdec !%s" % (cv, d.hex()),
                  "s %s gen !%s" % (cv, rb(rng, 32).hex())]
        groups["scheme:" + cv] = (L, None)
    for cv in ("jq255e", "jq255s", "gls254"):
        g = G.GROUPS[cv]
        L = []
        for r in range(reps):
            d = rng.randrange(1, g.n).to_bytes(32, "little")
            peer = bytes.fromhex(g.enc(g.mulgen(rng.randrange(1, g.n))))
            badpeer = bytearray(peer); badpeer[3] ^= 0x40
            L += ["s %s sign !%s - %s" % (cv, d.hex(), rb(rng, 30).hex()), "s %s sign !%s sha256 %s" % (cv, d.hex(), rb(rng, 32).hex()),
                  "s %s sign_seeded !%s %s - %s" % (cv, d.hex(), rb(rng, 8).hex(), rb(rng, 30).hex()),
                  "s %s sign_rand !%s !%s - %s" % (cv, d.hex(), rb(rng, 64).hex(), rb(rng, 30).hex()),
                  "s %s ecdh !%s %s" % (cv, d.hex(), peer.hex()), "s %s ecdh !%s %s" % (cv, d.hex(), bytes(badpeer).hex()),
                  "s %s ecdh !%s %s" % (cv, d.hex(), bytes(32).hex()), "s %s ecdh !%s !%s" % (cv, d.hex(), peer.hex()),
                  "s %s ecdh !%s !%s" % (cv, d.hex(), bytes(badpeer).hex()),
                  "s %s skdec !%s" % (cv, d.hex()), "s %s gen !%s" % (cv, rb(rng, 64).hex())]
        groups["scheme:" + cv] = (L, None)
    L = []
    for r in range(reps):
        L += ["s x25519 %s !%s" % (rb(rng, 32).hex(), rb(rng, 32).hex()), "s x25519 !%s !%s" % (rb(rng, 32).hex(), rb(rng, 32).hex()),
              "s x25519 %s !%s" % (bytes(32).hex(), rb(rng, 32).hex()), "s x25519_base !" + rb(rng, 32).hex(),
              "s x448 %s !%s" % (rb(rng, 56).hex(), rb(rng, 56).hex()), "s x448 !%s !%s" % (rb(rng, 56).hex(), rb(rng, 56).hex()),
              "s x448_base !" + rb(rng, 56).hex()]
    groups["scheme:x25519-x448"] = (L, None)
    L = []
    for kind in ["sha224", "sha256", "sha384", "sha512", "sha512_224", "sha512_256", "sha3_224", "sha3_256", "sha3_384", "sha3_512", "blake2s256"]:
        for n in (0, 1, 55, 64, 111, 128, 137, 300):
            L.append("h hash %s !%s" % (kind, hx(rb(rng, n))))
    for n in (0, 1, 64, 65, 200):
        L += ["h hash blake2s !%s 32" % hx(rb(rng, n)), "h hash kblake2s !%s 32 !%s" % (hx(rb(rng, n)), rb(rng, 32).hex()),
              "h hash kblake2s !%s 20 !%s" % (hx(rb(rng, n)), rb(rng, 7).hex())]
    for kind in ("shake128", "shake256"):
        L += ["h new x %s" % kind, "h update x !" + rb(rng, 200).hex(), "h update x !" + rb(rng, 3).hex(), "h flip x", "h extract x 300", "h extract x 5"]
    L += ["h new y sha256", "h update y !" + rb(rng, 70).hex(), "h update y !" + rb(rng, 70).hex(), "h finalize y"]
    groups["hashes"] = (L, None)
    return groups


def all_entries(rng, reps):
    g = {}
    g.update(field_entries(rng, reps))
    g.update(curve_entries(rng, reps))
    g.update(scheme_entries(rng, reps))
    try:
        import c02_extra
        g.update(c02_extra.entries(rng, reps))
    except ImportError:
        pass
    # every operator form is separate code: rewrite a third of the field / group operator requests into another equivalent
    # form (value / reference operands, compound assignment, scalar on the left)
    for k_, (L_, cf_) in list(g.items()):
        L2 = []
        for ln in L_:
            t = ln.split(" ", 3)
            if len(t) == 4 and t[0] in ("f", "g") and rng.randrange(3) == 0:
                forms = (F_FORMS if t[0] == "f" else G_FORMS).get(t[2])
                if forms:
                    t[2] = rng.choice(forms)
                    ln = " ".join(t)
            L2.append(ln)
        g[k_] = (L2, cf_)
    g["selftest"] = (["selftest leak_branch !05", "selftest leak_index !07", "selftest noleak !09"], None)
    return g


# ---------------------------------------------------------------------------
# Running and parsing

_src_cache = {}


def src_line(path, line):
    p = path
    if p.startswith("src/"):
        p = "/repo/" + p
    if p not in _src_cache:
        try:
            with open(p, errors="replace") as f:
                _src_cache[p] = f.read().split("\n")
        except OSError:
            _src_cache[p] = []
    L = _src_cache[p]
    if 1 <= line <= len(L):
        return re.sub(r"\s+", " ", L[line - 1].strip())
    return "?"


FRAME = re.compile(r"^==\d+==\s+(?:at|by) 0x[0-9A-Fa-f]+: (.*) \((?:in )?([^()]*?)(?::(\d+))?\)$")


def parse_log(text):
    """-> list of dict(kind, frames=[(func, file, line)])"""
    out = []
    cur = None
    for ln in text.split("\n"):
        m = re.match(r"^==\d+== (.*)$", ln)
        if not m:
            continue
        body = m.group(1)
        if body.startswith(KIND_BRANCH) or body.startswith(KIND_ADDR):
            cur = {"kind": "branch" if body.startswith(KIND_BRANCH) else "address", "frames": []}
            out.append(cur)
            continue
        if body.strip() == "":
            cur = None
            continue
        if cur is not None:
            fm = FRAME.match(ln)
            if fm:
                cur["frames"].append((fm.group(1), fm.group(2), int(fm.group(3) or 0)))
            elif not body.startswith("   "):
                # some other message type (e.g. "Invalid read"): keep it as an 'other' report
                pass
        elif re.match(r"^(Invalid|Process terminating|Jump to the invalid|Mismatched|Syscall param|Source and destination overlap)", body):
            cur = {"kind": "memory:" + body[:60], "frames": []}
            out.append(cur)
    return out


def is_crrl(file):
    return file.startswith("src/") or file.startswith("/repo/src/")


def site_of(rep):
    """innermost frame in crrl sources; (func, file, line, stmt, chain)"""
    chain = []
    first = None
    for (fn, fl, ln) in rep["frames"]:
        if is_crrl(fl):
            fl2 = fl.replace("/repo/", "")
            if first is None:
                first = (fn, fl2, ln)
            if len(chain) < 6 and (not chain or chain[-1] != fn):
                chain.append(fn)
    if first is None:
        return None
    return first[0], first[1], first[2], src_line(first[1], first[2]), chain


def run_group(exe, name, lines, logdir, timeout=1800):
    log = os.path.join(logdir, re.sub(r"[^A-Za-z0-9_.-]", "_", name) + ".log")
    cmd = ["valgrind", "-q", "--tool=memcheck", "--error-limit=no", "--num-callers=40", "--leak-check=no",
           "--fullpath-after=/repo/", "--log-file=" + log, exe, "--taint"]
    data = ("\n".join(lines) + "\n").encode()
    t0 = time.time()
    try:
        p = subprocess.run(cmd, input=data, stdout=subprocess.PIPE, stderr=subprocess.PIPE, timeout=timeout)
    except subprocess.TimeoutExpired:
        return name, None, "watchdog", []
    out = p.stdout.decode(errors="replace").split("\n")
    if out and out[-1] == "":
        out.pop()
    try:
        with open(log, errors="replace") as f:
            text = f.read()
    except OSError:
        text = ""
    return name, out, text, lines


def load_declassified():
    with open(os.path.join(VERIF, "ct_declassified.json")) as f:
        return json.load(f)["sites"]


def main(argv):
    a = parse_args(argv)
    if a.replay:
        return do_replay_ct(a.replay)
    rep = Report("C02", a.tier, a.seed)
    rep.rule = ("every listed entry point (field/scalar ops incl. division, sqrt, Legendre, batch inversion, constant-time decoders, selects and "
                "lookups with secret control/index; group ops, scalar multiplications, decoders on secret bytes; key generation, signing, "
                "ECDH, X25519/X448, FROST and LMS secret paths, hashes on secret data) executed under valgrind memcheck with the secret inputs "
                "marked undefined; a report = a conditional jump or a memory address that depends on a secret bit in the compiled code. "
                "evaluations = requests executed under taint; distinct_nontrivial = distinct (entry op, secret shape) requests")
    rep.assumptions = ["memcheck's definedness propagation is sound for the instructions executed (bit-precise for logic ops, conservative for arithmetic)",
                       "timing differences of individual instructions (variable-latency mul/div) are outside the property as stated",
                       "only the entry points listed in c02.py are driven"]
    import random
    rng = random.Random(a.seed * 1000003 + 17)
    try:
        if a.tier == "quick":
            cfgs = (a.configs.split(",") if a.configs else ["default", "w32", "m51", "zz32"])
            reps = max(1, int(2 * a.scale))
        else:
            cfgs = (a.configs.split(",") if a.configs else ALL_CONFIGS)
            reps = max(1, int(12 * a.scale))
        exes = build_many(cfgs)
        decl = load_declassified()
        entries = all_entries(rng, reps)
        logroot = tempfile.mkdtemp(prefix="c02-", dir=os.path.join(VERIF, "target"))
        sites = {}
        selftest_seen = set()
        distinct = set()
        for cfg in cfgs:
            logdir = os.path.join(logroot, cfg)
            os.makedirs(logdir, exist_ok=True)
            jobs = []
            for name, (lines, only) in entries.items():
                if only and not Case([], [], only=only).applies(cfg):
                    continue
                # the zz32 build differs from the default one only in the big-integer helpers of the jq255e / GLS254
                # endomorphism splits: in the quick tier it runs those groups only
                if cfg == "zz32" and a.tier == "quick" and not any(k in name for k in ("jq255e", "gls254")):
                    continue
                # split big groups to use all cores
                chunk = 400
                for i in range(0, len(lines), chunk):
                    jobs.append((name + ("#%d" % (i // chunk) if len(lines) > chunk else ""), lines[i:i + chunk]))
            with ThreadPoolExecutor(max_workers=NCPU) as ex:
                results = list(ex.map(lambda j: run_group(exes[cfg], j[0], j[1], logdir), jobs))
            for name, out, text, lines in results:
                if out is None:
                    rep.incon.append("%s/%s: valgrind watchdog fired" % (cfg, name))
                    continue
                if len(out) != len(lines):
                    rep.incon.append("%s/%s: executor answered %d of %d requests under valgrind" % (cfg, name, len(out), len(lines)))
                    continue
                for ln, o in zip(lines, out):
                    rep.events += 1
                    distinct.add(re.sub(r"[0-9a-f]{8,}", "#", ln))
                    if o.startswith("ERR"):
                        rep.incon.append("%s/%s: harness error %s on %s" % (cfg, name, o[:80], ln[:80]))
                    elif o.startswith("PANIC") and "is zero" not in o:
                        rep.incon.append("%s/%s: panic under taint: %s on %s" % (cfg, name, o[:100], ln[:100]))
                rep.per_config[cfg] = rep.per_config.get(cfg, 0) + len(lines)
                for r in parse_log(text):
                    if r["kind"].startswith("memory:"):
                        rep.viol.append(dict(config=cfg, lines=lines[:50], got=r["kind"], why="memcheck memory error during taint run",
                                             sig="%s|%s" % (cfg, r["kind"])))
                        continue
                    st = site_of(r)
                    if name == "selftest":
                        fr = r["frames"][0] if r["frames"] else ("?", "?", 0)
                        if "main.rs" in fr[1]:
                            selftest_seen.add(r["kind"])
                        continue
                    if st is None:
                        # report entirely inside the harness or std: harness-level problem
                        fr = r["frames"][0] if r["frames"] else ("?", "?", 0)
                        rep.incon.append("%s/%s: taint report outside crrl (harness bug?): %s %s:%d" % (cfg, name, fr[0], fr[1], fr[2]))
                        continue
                    fn, fl, ln_, stmt, chain = st
                    key = (cfg, r["kind"], fn, fl, stmt)
                    s = sites.setdefault(key, {"count": 0, "groups": set(), "chain": chain, "line": ln_, "sample": None})
                    s["count"] += 1
                    s["groups"].add(name.split("#")[0])
                    if s["sample"] is None:
                        s["sample"] = lines
        # classify sites
        declass_hits = {}
        for (cfg, kind, fn, fl, stmt), s in sorted(sites.items()):
            chain_txt = " <- ".join(s["chain"])
            matched = None
            for d in decl:
                if re.search(d["func"], chain_txt) and re.search(d["stmt"], stmt) and (d.get("kind", kind) == kind):
                    matched = d
                    break
            if matched:
                declass_hits[matched["id"]] = declass_hits.get(matched["id"], 0) + s["count"]
                continue
            sig = "C02|%s|%s|%s|%s|%s" % (cfg, kind, fn, fl, stmt)
            rep.viol.append(dict(config=cfg, lines=["# site: %s %s:%d  %s" % (fn, fl, s["line"], stmt), "# chain: " + chain_txt,
                                                    "# groups: " + ",".join(sorted(s["groups"]))] + (s["sample"] or [])[:60],
                                 got="%s at %s (%s:%d): %s" % (kind, fn, fl, s["line"], stmt),
                                 why="secret-dependent %s in compiled code [%s]" % (kind, chain_txt), sig=sig, index=0))
        rep.distinct = distinct
        rep.classes = {"entry-groups": len(entries), "sites-reported": len(sites), "selftest-branch-detected": int("branch" in selftest_seen),
                       "selftest-address-detected": int("address" in selftest_seen)}
        for k, v in declass_hits.items():
            rep.classes["declassified:" + k] = v
        if "branch" not in selftest_seen or "address" not in selftest_seen:
            rep.incon.append("taint self-test did not fire (leak_branch / leak_index not reported): instrument not alive")
        rep.samples = [dict(group=n, first_requests=l[:3]) for n, (l, _) in list(entries.items())[:6]]
        rep.extra["sites"] = [dict(config=k[0], kind=k[1], function=k[2], file=k[3], statement=k[4], reports=s["count"], entry_groups=sorted(s["groups"]), chain=s["chain"], line=s["line"])
                              for k, s in sorted(sites.items())][:200]
        rep.extra["logs"] = logroot
        rep.require("selftest-branch-detected", "selftest-address-detected")
    except Inconclusive as e:
        rep.incon.append(str(e))
    return rep.finish()


def do_replay_ct(path):
    lines = []
    cfg = "default"
    with open(path) as f:
        for ln in f:
            ln = ln.rstrip("\n")
            m = re.match(r"# property=\S+ config=(\S+)", ln)
            if m and m.group(1) in CONFIGS:
                cfg = m.group(1)
            if ln and not ln.startswith("#"):
                lines.append(ln)
            elif ln.startswith("# site") or ln.startswith("# chain"):
                print(ln)
    exe = build(cfg)
    d = tempfile.mkdtemp(prefix="c02r-", dir=os.path.join(VERIF, "target"))
    name, out, text, _ = run_group(exe, "replay", lines, d)
    for r in parse_log(text):
        st = site_of(r)
        print(r["kind"], st[:4] if st else r["frames"][:1])
    return 0


if __name__ == "__main__":
    sys.exit(main(sys.argv[1:]))
