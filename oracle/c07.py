"""C07 -- Ed25519/Ed448 verification equals the strict cofactored RFC 8032
predicate; signing is the deterministic RFC 8032 signature.

Oracle: ref_ed (written from RFC 8032: strict decoding, S < L, cofactored
equation). Adversarial tuples are constructed valid where possible (torsion
components in A and R) together with their invalid neighbours."""

import sys
import os

sys.path.insert(0, os.path.dirname(os.path.abspath(__file__)))

from common import *          # noqa
import ref_ed
from ref_ed import ED25519, ED448, _dom2, _dom4, _sha512, _shake256_114


def hx(b):
    return b.hex() if b else "-"


def rb(rng, n):
    return bytes(rng.getrandbits(8) for _ in range(n))


def challenge(C, ctx, ph, Rb, Ab, msg):
    if C is ED25519:
        return int.from_bytes(_sha512(_dom2(ctx, ph), Rb, Ab, msg), "little") % C.L
    return int.from_bytes(_shake256_114(_dom4(ctx, ph), Rb, Ab, msg), "little") % C.L


def noncanonical(C, P, rng):
    """a non-canonical encoding of P when one exists (y + p fits), else None"""
    x, y = P
    n = C.enc_len
    if C is ED25519:
        if y + C.p < (1 << 255):
            return ((y + C.p) | ((x & 1) << 255)).to_bytes(32, "little")
        return None
    if y + C.p < (1 << 448):
        return (y + C.p).to_bytes(56, "little") + bytes([(x & 1) << 7])
    return None


def gen(rng, shard, nshards, n25519, n448):
    cases = []
    for (C, name, n) in ((ED25519, "ed25519", n25519), (ED448, "ed448", n448)):
        L = C.L
        el = C.enc_len
        low = C.low_order_points()
        T = "s %s " % name
        for _ in range(n):
            # variant
            v = rng.randrange(3)
            if name == "ed25519":
                mode, ctx, ph = [("raw", None, False), ("ctx", rb(rng, rng.choice([0, 1, 5, 255, rng.randrange(256), 222 - rng.randrange(3)])), False), ("ph", rb(rng, rng.choice([0, 3, 255, rng.randrange(256)])), True)][v]
            else:
                mode, ctx, ph = [("raw", b"", False), ("ctx", rb(rng, rng.choice([0, 1, 5, 255, rng.randrange(256)])), False), ("ph", rb(rng, rng.choice([0, 3, 255, rng.randrange(256)])), True)][v]
            # message lengths around every hash-block boundary of the challenge / nonce computations (prefix 64 bytes + dom)
            msg = rb(rng, 64) if ph else rb(rng, rng.choice([0, 1, 32, 63, 64, 65, 96, 100, 127, 128, 129, 160, 191, 192, 193, 223, 224, 225, 255, 256, 257, 320, 448, rng.randrange(0, 700)]))
            cx = hx(ctx if ctx is not None else b"")
            kind = rng.choices(["honest", "constructed", "structural"], [25, 50, 25])[0]
            cl = {mode}
            if kind == "honest":
                seed = rb(rng, el if name == "ed448" else 32)
                if name == "ed25519":
                    pk = ref_ed.ed25519_public_key(seed); sig = ref_ed.ed25519_sign(seed, msg, ctx, ph)
                else:
                    pk = ref_ed.ed448_public_key(seed); sig = ref_ed.ed448_sign(seed, msg, ctx, ph)
                lines = [T + "pub " + seed.hex(), T + "sign %s %s %s %s" % (seed.hex(), mode, cx, hx(msg)),
                         T + "verify %s %s %s %s %s" % (pk.hex(), sig.hex(), mode, cx, hx(msg))]
                exp = ["OK " + pk.hex(), "OK " + sig.hex(), "OK T"]
                # the signature must not verify under another variant / message
                other = rng.choice(["raw", "ctx", "ph"])
                if other != mode:
                    octx = None if (other == "raw" and name == "ed25519") else (ctx if ctx is not None else b"")
                    oph = other == "ph"
                    if other == "raw" and name == "ed448":
                        octx = b""
                    ok = ref_ed.eddsa_verify_outcome(C, pk, sig, msg, octx, oph) == "accept"
                    ocx = hx(octx if octx is not None else b"")
                    if other == "raw":
                        ocx = "-"
                    lines.append(T + "verify %s %s %s %s %s" % (pk.hex(), sig.hex(), other, ocx, hx(msg)))
                    exp.append("OK " + ("T" if ok else "F"))
                    cl.add("wrong-variant")
                m2 = msg + b"x"
                lines.append(T + "verify %s %s %s %s %s" % (pk.hex(), sig.hex(), mode, cx, hx(m2)))
                exp.append("OK F")
                cl.add("honest")
                cases.append(Case(lines, exp, ["%s:%s" % (name, c) for c in cl] + sorted(cl), "honest"))
                continue
            # constructed tuple
            a = rng.randrange(1, L)
            r = rng.randrange(1, L)
            A = C.mul_base(a)
            R = C.mul_base(r)
            t = rng.randrange(12) if kind == "constructed" else 100
            if t < 4:
                A = C.add(A, rng.choice(low)); R = C.add(R, rng.choice(low)); cl.add("torsion-in-A-and-R")
            elif t == 4:
                A = rng.choice(low); cl.add("low-order-A")
            elif t == 5:
                R = rng.choice(low); cl.add("low-order-R")
            elif t == 6:
                A = rng.choice(low); R = rng.choice(low); cl.add("low-order-A-and-R")
            Ab = C.encode(A)
            Rb = C.encode(R)
            # optional non-canonical encodings (must be rejected)
            if kind == "structural":
                s = rng.randrange(8)
                if s == 0:
                    P = rng.choice(low + [A])
                    nc = noncanonical(C, P, rng)
                    if nc is not None:
                        Ab = nc; cl.add("non-canonical-A")
                elif s == 1:
                    P = rng.choice(low + [R])
                    nc = noncanonical(C, P, rng)
                    if nc is not None:
                        Rb = nc; cl.add("non-canonical-R")
                elif s == 2:
                    # x = 0 with sign bit set
                    y = rng.choice([1, C.p - 1])
                    enc = bytearray(y.to_bytes(el, "little")); enc[-1] |= 0x80
                    if rng.randrange(2):
                        Ab = bytes(enc)
                    else:
                        Rb = bytes(enc)
                    cl.add("x=0-with-sign-bit")
            k = None
            A2 = C.decode(Ab); R2 = C.decode(Rb)
            kk = challenge(C, ctx, ph, Rb, Ab, msg)
            # S solving the equation for the subgroup components (torsion is killed by the cofactor)
            aa = a if t not in (4, 6) else 0
            rr = r if t not in (5, 6) else 0
            S = (rr + kk * aa) % L
            slen = 32 if name == "ed25519" else 57
            sv = rng.randrange(10) if kind == "structural" or rng.randrange(3) == 0 else 100
            if sv == 0:
                S2 = S + L; cl.add("S+L")
            elif sv == 1:
                S2 = rng.choice([L, L - 1, L + 1]); cl.add("S-near-L")
            elif sv == 2:
                S2 = (S + 1) % L; cl.add("S+1")
            elif sv == 3:
                S2 = S | (1 << (8 * slen - 1)); cl.add("S-top-bit")
            elif sv == 4:
                S2 = 0; cl.add("S=0")
            else:
                S2 = S
            if S2 >= (1 << (8 * slen)):
                S2 = S
            sig = Rb + S2.to_bytes(slen, "little")
            lv = rng.randrange(12) if kind == "structural" else 100
            if lv == 0:
                sig = sig[:-1]; cl.add("sig-short")
            elif lv == 1:
                sig = sig + b"\x00"; cl.add("sig-long")
            elif lv == 2:
                sig = sig[:rng.randrange(0, len(sig))]; cl.add("sig-truncated")
            elif lv == 3:
                b = bytearray(sig); b[rng.randrange(len(b))] ^= 1 << rng.randrange(8); sig = bytes(b); cl.add("sig-bitflip")
            elif lv == 4:
                Ab = Ab[:-1]; cl.add("pk-short")
            out = ref_ed.eddsa_verify_outcome(C, Ab, sig, msg, ctx, ph)
            pkok = len(Ab) == el and C.decode(Ab) is not None
            if not pkok:
                e = "OK NOPK"
                cl.add("pk-rejected")
            else:
                e = "OK " + ("T" if out == "accept" else "F")
            cl.add("accept" if out == "accept" else "reject")
            cases.append(case1(T + "verify %s %s %s %s %s" % (hx(Ab), hx(sig), mode, cx, hx(msg)), e,
                               ["%s:%s" % (name, c) for c in cl] + sorted(cl), kind))
    return cases


def main(argv):
    a = parse_args(argv)
    if a.replay:
        return do_replay(a.replay)
    rep = Report("C07", a.tier, a.seed)
    rep.rule = ("honest signatures from the library's signer (must equal the RFC 8032 bytes, verify, and fail under another variant/message); "
                "constructed tuples A = aB+T1, R = rB+T2, S = r + k*a with torsion T (accepted only by the cofactored rule), low-order A/R, "
                "and invalid neighbours (S+L, S in {L-1,L,L+1}, S+1, top bit, non-canonical y+p encodings, x=0 with sign bit, length "
                "variations, bit flips, short keys) for pure/ctx/ph variants of Ed25519 and Ed448 with context lengths 0..255. "
                "distinct_nontrivial = distinct requests in an adversarial class")
    rep.assumptions = ["ref_ed's RFC 8032 implementation (validated on RFC 8032 vectors and repository KATs)", "contexts longer than 255 bytes are outside the documented domain and not generated"]
    try:
        if a.tier == "quick":
            cfgs = (a.configs.split(",") if a.configs else ["default", "m51", "w32"])
            n1, n2 = int(16000 * a.scale), int(4000 * a.scale)
        else:
            cfgs = (a.configs.split(",") if a.configs else ALL_CONFIGS)
            n1, n2 = int(1000000 * a.scale), int(200000 * a.scale)
        exes = build_many(cfgs)
        m = run_sharded("c07", "gen", (n1 // NCPU + 1, n2 // NCPU + 1), [(c, exes[c]) for c in cfgs], a.seed, timeout=3600)
        rep.merge(m)
        req = []
        for c in ("ed25519", "ed448"):
            req += [c + ":honest", c + ":torsion-in-A-and-R", c + ":low-order-A", c + ":low-order-R", c + ":S+L", c + ":S-near-L", c + ":non-canonical-A",
                    c + ":x=0-with-sign-bit", c + ":sig-short", c + ":accept", c + ":reject", c + ":wrong-variant", c + ":ph", c + ":ctx", c + ":raw"]
        rep.require(*req)
    except Inconclusive as e:
        rep.incon.append(str(e))
    return rep.finish()


if __name__ == "__main__":
    sys.exit(main(sys.argv[1:]))
