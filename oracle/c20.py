"""C20 -- masked selection primitives select exactly as their control word says;
equality / zero tests depend on the mathematical value only; constant-time
table lookups return the designated entries (zeros when out of range, where
documented)."""

import sys
import os

sys.path.insert(0, os.path.dirname(os.path.abspath(__file__)))

from common import *          # noqa
from fieldmodel import *      # noqa
import groups as G

OKST = "ffffffff"
NOST = "00000000"


def reps_of(f, v, rng):
    """all raw representations of value v that fit the raw constructor"""
    top = 1 << f.bits
    r = []
    x = v % f.q
    while x < top and len(r) < 6:
        r.append(x)
        x += f.q
    return r


def gen_fields(rng, names, n):
    out = []
    for nm in names:
        f = FIELDS[nm]
        q = f.q
        T = "f %s " % nm
        only = f.configs
        for _ in range(n):
            kind = rng.choices(["cond", "select", "cswap", "equals", "iszero", "lookup"], [20, 15, 15, 25, 15, 10 if "lookup16" in f.caps else 0])[0]
            a, b = hostile_raw(rng, f), hostile_raw(rng, f)
            da, db = f.w(a, rng), f.w(b, rng)
            ctl = rng.choice([0, 0xFFFFFFFF])
            cs = "0" if ctl == 0 else "0xffffffff"
            if kind == "cond":
                r = b if ctl else a
                out.append(case1(T + "set_cond %s %s %s" % (da, db, cs), "OK " + f.enc(r), ["field:set_cond:ctl=%s" % ("1" if ctl else "0")], only=only))
            elif kind == "select":
                r = b if ctl else a
                out.append(case1(T + "select %s %s %s" % (da, db, cs), "OK " + f.enc(r), ["field:select:ctl=%s" % ("1" if ctl else "0")], only=only))
            elif kind == "cswap":
                x, y = (b, a) if ctl else (a, b)
                out.append(case1(T + "cswap %s %s %s" % (da, db, cs), "OK %s %s" % (f.enc(x), f.enc(y)), ["field:cswap:ctl=%s" % ("1" if ctl else "0")], only=only))
            elif kind == "equals":
                v = hostile_raw(rng, f) % q if rng.randrange(3) else rng.choice([0, 1, q - 1])
                ra = reps_of(f, v, rng)
                t = rng.randrange(5)
                x = rng.choice(ra)
                if t < 2:
                    y = rng.choice(ra); cl = "equal-other-repr" if x != y else "equal-same-repr"
                elif t == 2:
                    y = (rng.choice(ra) + rng.choice([1, -1])) % (1 << f.bits); cl = "neighbour"
                elif t == 3:
                    # differs in exactly one bit
                    y = x ^ (1 << rng.randrange(f.bits)); cl = "one-bit"
                else:
                    y = hostile_raw(rng, f); cl = "other"
                e = (x - y) % q == 0
                # operands produced by arithmetic too (library representations)
                if rng.randrange(3) == 0:
                    lines = [T + "add >1 %s %s" % (f.w(x, rng), f.w(b, rng)), T + "sub >2 $1 %s" % f.w(b, rng), T + "equals $2 %s" % f.w(y, rng)]
                    exp = ["OK " + f.enc(x + b), "OK " + f.enc(x), "OK " + (OKST if e else NOST)]
                    out.append(Case(lines, exp, ["field:equals:" + cl, "field:equals:" + ("true" if e else "false"), "field:equals:computed-operand"], only=only))
                else:
                    out.append(case1(T + "equals %s %s" % (f.w(x, rng), f.w(y, rng)), "OK " + (OKST if e else NOST),
                                     ["field:equals:" + cl, "field:equals:" + ("true" if e else "false")], only=only))
            elif kind == "iszero":
                t = rng.randrange(4)
                if t == 0:
                    x = rng.choice(reps_of(f, 0, rng)); cl = "zero-repr"
                elif t == 1:
                    # a representation of zero plus or minus one unit of some limb (any limb width a backend may use): the carry
                    # propagation inside the test must not lose it
                    if rng.randrange(3):
                        W = rng.choice([51, 51, 64, 32, 56, 28, 52])
                        j = min(f.bits - 1, W * rng.randrange(0, f.bits // W + 1) + rng.choice([0, 0, 0, 1, -1]) if rng.randrange(4) else rng.randrange(f.bits))
                        d = 1 << max(0, j)
                    else:
                        d = 1
                    x = (rng.choice(reps_of(f, 0, rng)) + rng.choice([d, -d])) % (1 << f.bits); cl = "near-zero"
                elif t == 2:
                    x = 1 << rng.randrange(f.bits); cl = "one-bit"
                else:
                    x = hostile_raw(rng, f); cl = "other"
                e = x % q == 0
                if x != 0 and e:
                    cl = "nonzero-repr-of-zero"
                out.append(case1(T + "iszero " + f.w(x, rng), "OK " + (OKST if e else NOST), ["field:iszero:" + cl, "field:iszero:" + ("true" if e else "false")], only=only))
            else:
                which = rng.choice([3, 4])
                tab = [hostile_raw(rng, f) for _ in range(16 * which)]
                j = rng.choice(list(range(16)) + [16, 17, 31, 32, 255, 256, 0x80000000, 0xFFFFFFFF, 0xFFFFFFF0, 1 << 16])
                if j < 16:
                    exp = " ".join(f.enc(tab[which * j + k]) for k in range(which)); cl = "in-range"
                else:
                    exp = " ".join(f.enc(0) for k in range(which)); cl = "out-of-range"
                out.append(case1(T + "lookup16_x%d %d %s" % (which, j, " ".join(f.w(t, rng) for t in tab)), "OK " + exp,
                                 ["field:lookup16_x%d:%s" % (which, cl), "field:lookup:idx=%s" % (j if j < 17 else "big")], only=only))
    return out


def gen_binary(rng, n):
    out = []
    for _ in range(n):
        big = rng.randrange(2)
        T = "f gfb254 " if big else "f gfb127 "
        nb = 32 if big else 16

        def val():
            if big:
                a = (hostile_b128(rng), hostile_b128(rng))
                return "w" + a[0].to_bytes(16, "little").hex() + a[1].to_bytes(16, "little").hex(), b254_enc((b127_red(a[0]), b127_red(a[1])))
            a = hostile_b128(rng)
            return "w" + a.to_bytes(16, "little").hex(), b127_enc(a)
        kind = rng.choice(["cond", "select", "cswap", "equals", "iszero"] + (["lookup"] * 2 if big else []))
        (da, ea), (db, eb) = val(), val()
        ctl = rng.choice([0, 0xFFFFFFFF]); cs = "0" if ctl == 0 else "0xffffffff"
        if kind == "cond":
            out.append(case1(T + "set_cond %s %s %s" % (da, db, cs), "OK " + (eb if ctl else ea), ["bin:set_cond:ctl=%d" % (1 if ctl else 0)]))
        elif kind == "select":
            out.append(case1(T + "select %s %s %s" % (da, db, cs), "OK " + (eb if ctl else ea), ["bin:select:ctl=%d" % (1 if ctl else 0)]))
        elif kind == "cswap":
            out.append(case1(T + "cswap %s %s %s" % (da, db, cs), "OK " + ((eb + " " + ea) if ctl else (ea + " " + eb)), ["bin:cswap:ctl=%d" % (1 if ctl else 0)]))
        elif kind == "equals":
            # equal values in different representations: bit 127 <-> z^63 + 1
            x = hostile_b128(rng)
            t = rng.randrange(4)
            if t == 0:
                y = b127_red(x) if (x >> 127) else (x ^ (1 << 127) ^ (1 << 63) ^ 1); cl = "equal-other-repr"
            elif t == 1:
                y = x ^ (1 << rng.randrange(128)); cl = "one-bit"
            elif t == 2:
                y = x; cl = "same"
            else:
                y = hostile_b128(rng); cl = "other"
            e = b127_red(x) == b127_red(y)
            if big:
                hi = hostile_b128(rng)
                dx = "w" + x.to_bytes(16, "little").hex() + hi.to_bytes(16, "little").hex()
                dy = "w" + y.to_bytes(16, "little").hex() + hi.to_bytes(16, "little").hex()
            else:
                dx = "w" + x.to_bytes(16, "little").hex(); dy = "w" + y.to_bytes(16, "little").hex()
            out.append(case1(T + "equals %s %s" % (dx, dy), "OK " + (OKST if e else NOST), ["bin:equals:" + cl, "bin:equals:" + ("true" if e else "false")]))
        elif kind == "iszero":
            x = rng.choice([0, (1 << 127) | (1 << 63) | 1, 1, 1 << 127, (1 << 63) | 1, hostile_b128(rng), 1 << rng.randrange(128)])
            e = b127_red(x) == 0
            if big:
                hi = rng.choice([0, (1 << 127) | (1 << 63) | 1, hostile_b128(rng), 0])
                e = e and b127_red(hi) == 0
                dx = "w" + x.to_bytes(16, "little").hex() + hi.to_bytes(16, "little").hex()
            else:
                dx = "w" + x.to_bytes(16, "little").hex()
            out.append(case1(T + "iszero " + dx, "OK " + (OKST if e else NOST), ["bin:iszero:" + ("true" if e else "false")] + (["bin:iszero:nonzero-repr-of-zero"] if e and x else [])))
        else:
            nm, cnt, checked = rng.choice([("lookup16_x2", 16, True), ("lookup8_x2", 8, True), ("lookup4_x2", 4, True), ("lookup4_x2_nocheck", 4, False)])
            tab = [val() for _ in range(2 * cnt)]
            if checked:
                j = rng.choice(list(range(cnt)) + [cnt, cnt + 1, 2 * cnt, 255, 0x80000000, 0xFFFFFFFF])
            else:
                j = rng.randrange(cnt)     # documented: index must be in range
            if j < cnt:
                exp = tab[2 * j][1] + " " + tab[2 * j + 1][1]; cl = "in-range"
            else:
                exp = "00" * 32 + " " + "00" * 32; cl = "out-of-range"
            out.append(case1("f gfb254 %s %d %s" % (nm, j, " ".join(t[0] for t in tab)), "OK " + exp, ["bin:%s:%s" % (nm, cl)]))
    return out


def gen_points(rng, n):
    out = []
    for cn, g in G.GROUPS.items():
        T = "g %s " % cn
        cnt = max(1, n // (4 if cn in ("gls254", "ed448", "decaf448") else 1))
        for _ in range(cnt):
            P, Q = g.rand_point(rng), g.rand_point(rng)

            def D(X):
                return (g.desc(X, rng) if isinstance(g, G.WeierG) else g.desc(X)) + g.mods(X, rng)
            ctl = rng.choice([0, 0xFFFFFFFF]); cs = "0" if ctl == 0 else "0xffffffff"
            kind = rng.choice(["cond", "select", "condneg", "equals", "isneutral"])
            # the selected / negated point is also used as an operand afterwards: encode / equals do not read every internal
            # coordinate (T of the extended coordinates, for instance)
            R_ = g.rand_point(rng)
            if kind == "cond":
                S_ = Q if ctl else P
                out.append(Case([T + "set_cond >1 %s %s %s" % (D(P), D(Q), cs), T + "add $1 %s" % D(R_), T + "double $1"],
                                ["OK " + g.enc(S_), "OK " + g.enc(g.add(S_, R_)), "OK " + g.enc(g.add(S_, S_))], ["point:set_cond:ctl=%d" % (1 if ctl else 0), cn + ":point-select", "point:result-reused"]))
            elif kind == "select":
                S_ = Q if ctl else P
                out.append(Case([T + "select >1 %s %s %s" % (D(P), D(Q), cs), T + "add $1 %s" % D(R_), T + "sub %s $1" % D(R_)],
                                ["OK " + g.enc(S_), "OK " + g.enc(g.add(S_, R_)), "OK " + g.enc(g.sub(R_, S_))], ["point:select:ctl=%d" % (1 if ctl else 0), cn + ":point-select", "point:result-reused"]))
            elif kind == "condneg":
                S_ = g.neg(P) if ctl else P
                out.append(Case([T + "condneg >1 %s %s" % (D(P), cs), T + "add $1 %s" % D(R_)],
                                ["OK " + g.enc(S_), "OK " + g.enc(g.add(S_, R_))], ["point:condneg:ctl=%d" % (1 if ctl else 0), cn + ":point-condneg", "point:result-reused"]))
            elif kind == "equals":
                t = rng.randrange(4)
                if t == 0:
                    Q = P; cl = "same-element-other-repr"
                elif t == 1:
                    Q = g.neg(P); cl = "opposite"
                elif t == 2 and isinstance(g, G.EdG):
                    Q = g.add(P, rng.choice([L for L in g.low if not g.is_neutral(L)])); cl = "differ-by-low-order-point"
                else:
                    cl = "other"
                e = g.eq(P, Q)
                out.append(case1(T + "equals %s %s" % (D(P), D(Q)), "OK " + (OKST if e else NOST), ["point:equals:" + cl, "point:equals:" + ("true" if e else "false"), cn + ":point-equals"]))
            else:
                if rng.randrange(2):
                    P = g.neutral
                e = g.is_neutral(P)
                d = D(P) if P is not g.neutral or rng.randrange(2) else "N"
                out.append(case1(T + "isneutral " + d, "OK " + (OKST if e else NOST), ["point:isneutral:" + ("true" if e else "false"), cn + ":point-isneutral"]))
    return out


def gen(rng, shard, nshards, names, nf, nb, npnt):
    return gen_fields(rng, names, nf) + gen_binary(rng, nb) + gen_points(rng, npnt)


def main(argv):
    a = parse_args(argv)
    if a.replay:
        return do_replay(a.replay)
    rep = Report("C20", a.tier, a.seed)
    rep.rule = ("set_cond/select/cswap/set_condneg with ctl in {0, 0xFFFFFFFF} on operands in every representation (raw redundant limbs, "
                "library-computed values, lambda-scaled / torsion-shifted points); equals/iszero/isneutral on equal values in different "
                "representations (v, v+q, v+2q; bit 127 <-> z^63+1), on neighbours and one-bit differences; lookup16_x3/x4 and the GF(2^254) "
                "lookups for every index incl. out-of-range ones (16, 17, 31, 2^31, 2^32-1) on hostile tables. distinct_nontrivial = distinct "
                "requests in a boundary class")
    rep.assumptions = ["only the two documented control words are used (other values are documented as unpredictable)"]
    names = list(FIELDS)
    try:
        if a.tier == "quick":
            cfgs = (a.configs.split(",") if a.configs else ["default", "m51", "w32", "avx2"])
            nf, nb, npnt = int(8000 * a.scale), int(30000 * a.scale), int(2500 * a.scale)
        else:
            cfgs = (a.configs.split(",") if a.configs else ALL_CONFIGS)
            nf, nb, npnt = int(300000 * a.scale), int(600000 * a.scale), int(60000 * a.scale)
        exes = build_many(cfgs)
        m = run_rounds(1 if a.tier == "quick" else 2, "c20", "gen", (names, nf // NCPU + 1, nb // NCPU + 1, npnt // NCPU + 1), [(c, exes[c]) for c in cfgs], a.seed, timeout=3600,
                       split=1 if a.tier == "quick" else 3, count_idx=(1, 2, 3))
        rep.merge(m)
        rep.require("field:set_cond:ctl=0", "field:set_cond:ctl=1", "field:cswap:ctl=1", "field:equals:equal-other-repr", "field:equals:neighbour",
                    "field:equals:one-bit", "field:iszero:nonzero-repr-of-zero", "field:lookup16_x3:out-of-range", "field:lookup16_x4:in-range",
                    "field:lookup:idx=15", "field:lookup:idx=16", "bin:lookup16_x2:out-of-range", "bin:lookup4_x2_nocheck:in-range", "bin:equals:equal-other-repr",
                    "bin:iszero:nonzero-repr-of-zero", "point:condneg:ctl=1", "point:equals:same-element-other-repr", "point:equals:differ-by-low-order-point", "point:isneutral:true",
                    "gls254:point-select", "decaf448:point-equals")
    except Inconclusive as e:
        rep.incon.append(str(e))
    return rep.finish()


if __name__ == "__main__":
    sys.exit(main(sys.argv[1:]))
